//! C01: scripted in-memory socket for the connection-level correspondence.
//! Reads follow a script of `Data` / `Pending` / `Eof` steps; a `Pending` step makes one
//! `poll_read` return `Pending` after waking the task (so the connection future returns to its
//! executor between two reads); when the script is exhausted without `Eof` the socket stays
//! `Pending` and silent. Writes are accepted in full and recorded; with `write_pend` every other
//! `poll_write` first returns `Pending` (write back-pressure: a response may stay in the write
//! buffer across polls).
use std::{
    cell::RefCell,
    collections::VecDeque,
    io,
    pin::Pin,
    rc::Rc,
    task::{Context, Poll},
};

use tokio::io::{AsyncRead, AsyncWrite, ReadBuf};

#[derive(Clone, Debug)]
pub enum Step {
    Data(Vec<u8>),
    Pending,
    Eof,
}

#[derive(Default, Debug)]
pub struct SockLog {
    pub written: Vec<u8>,
    pub shutdown: bool,
    pub dropped: bool,
    /// bytes handed to the server so far
    pub consumed: usize,
    pub reads_after_shutdown: usize,
}

pub struct ScriptSock {
    steps: VecDeque<Step>,
    cur: Vec<u8>,
    off: usize,
    eof: bool,
    /// every other `poll_write` returns `Pending` (after waking the task)
    write_pend: bool,
    wtoggle: bool,
    log: Rc<RefCell<SockLog>>,
}

impl ScriptSock {
    pub fn new(steps: Vec<Step>, write_pend: bool, log: Rc<RefCell<SockLog>>) -> Self {
        ScriptSock { steps: steps.into(), cur: Vec::new(), off: 0, eof: false, write_pend, wtoggle: false, log }
    }
}

impl Drop for ScriptSock {
    fn drop(&mut self) {
        self.log.borrow_mut().dropped = true;
    }
}

impl AsyncRead for ScriptSock {
    fn poll_read(mut self: Pin<&mut Self>, cx: &mut Context<'_>, buf: &mut ReadBuf<'_>) -> Poll<io::Result<()>> {
        if self.log.borrow().shutdown {
            self.log.borrow_mut().reads_after_shutdown += 1;
        }
        loop {
            if self.off < self.cur.len() {
                let n = (self.cur.len() - self.off).min(buf.remaining());
                if n == 0 {
                    return Poll::Ready(Ok(()));
                }
                let off = self.off;
                buf.put_slice(&self.cur[off..off + n]);
                self.off += n;
                self.log.borrow_mut().consumed += n;
                return Poll::Ready(Ok(()));
            }
            if self.eof {
                return Poll::Ready(Ok(()));
            }
            match self.steps.pop_front() {
                Some(Step::Data(d)) => {
                    self.cur = d;
                    self.off = 0;
                    if self.cur.is_empty() {
                        // an empty read is a spurious wake-up: Pending, polled again
                        cx.waker().wake_by_ref();
                        return Poll::Pending;
                    }
                }
                Some(Step::Pending) => {
                    cx.waker().wake_by_ref();
                    return Poll::Pending;
                }
                Some(Step::Eof) => {
                    self.eof = true;
                    return Poll::Ready(Ok(()));
                }
                None => return Poll::Pending,
            }
        }
    }
}

impl AsyncWrite for ScriptSock {
    fn poll_write(mut self: Pin<&mut Self>, cx: &mut Context<'_>, buf: &[u8]) -> Poll<io::Result<usize>> {
        if self.write_pend {
            self.wtoggle = !self.wtoggle;
            if self.wtoggle {
                cx.waker().wake_by_ref();
                return Poll::Pending;
            }
        }
        self.log.borrow_mut().written.extend_from_slice(buf);
        Poll::Ready(Ok(buf.len()))
    }
    fn poll_flush(self: Pin<&mut Self>, _cx: &mut Context<'_>) -> Poll<io::Result<()>> {
        Poll::Ready(Ok(()))
    }
    fn poll_shutdown(self: Pin<&mut Self>, _cx: &mut Context<'_>) -> Poll<io::Result<()>> {
        self.log.borrow_mut().shutdown = true;
        Poll::Ready(Ok(()))
    }
}
