//! C02/C03 simulation kit: a scripted in-memory socket (AsyncRead + AsyncWrite), a scripted
//! service (handlers per request id), scripted response bodies and a wake-driven poll loop that
//! drives the *real* `HttpService::build()...h1(svc)` dispatcher.
//!
//! Everything is deterministic: a `P` token (socket, handler, body) means "return `Pending` and
//! wake the task at once"; an exhausted read script means "return `Pending` and never wake".
//! The poll loop re-polls the connection future exactly when its waker was invoked during the
//! previous poll, and stops at the first poll after which nothing was woken (quiescence).
use std::{
    cell::RefCell,
    collections::VecDeque,
    future::Future,
    io,
    pin::Pin,
    rc::Rc,
    sync::{
        atomic::{AtomicBool, Ordering},
        Arc,
    },
    task::{Context, Poll, Wake, Waker},
    time::Duration,
};

use actix_http::{
    body::{BodySize, BodyStream, BoxBody, MessageBody, SizedStream},
    error::PayloadError,
    header::{HeaderName, HeaderValue},
    ConnectionType, HttpService, KeepAlive, Payload, Request, Response, StatusCode,
};
use actix_service::{fn_factory, Service, ServiceFactory};
use bytes::Bytes;
use futures_core::Stream;
use tokio::io::{AsyncRead, AsyncWrite, ReadBuf};

// ---------------------------------------------------------------------------------------------
// scripts

#[derive(Clone, Debug, PartialEq)]
pub enum ReadTok {
    Data(Vec<u8>),
    Pending,
    Eof,
    Reset,
}

#[derive(Clone, Debug, PartialEq)]
pub enum WriteTok {
    /// accept at most k bytes
    Accept(usize),
    Pending,
    Err,
    Zero,
}

#[derive(Clone, Debug, PartialEq)]
pub enum BodyTok {
    Chunk(usize),
    Pending,
    Err,
}

#[derive(Clone, Debug, PartialEq)]
pub enum BodyKind {
    /// `()`  (Sized(0))
    Empty,
    /// `body::None`
    NoneBody,
    /// `Bytes` of n bytes
    Bytes(usize),
    /// `SizedStream::new(n, script)`
    SizedStream(u64, Vec<BodyTok>),
    /// `BodyStream::new(script)`
    BodyStream(Vec<BodyTok>),
    /// custom `MessageBody`: declared size + script (empty chunks are passed through)
    Custom(BodySize, Vec<BodyTok>),
}

#[derive(Clone, Debug, PartialEq)]
pub enum PayloadAct {
    /// never touched; dropped when the handler future completes
    Ignore,
    /// dropped at the handler's first poll
    DropEarly,
    /// read until EOF / error, then respond
    ReadAll,
    /// read until at least n bytes (or EOF / error), then respond (payload dropped at completion)
    ReadN(usize),
    /// never read, kept alive until the response body is dropped
    Hold,
}

#[derive(Clone, Debug)]
pub struct Handler {
    pub pend: usize,
    pub act: PayloadAct,
    /// `Err` = the service call fails with an error that converts into this status
    pub status: Result<u16, u16>,
    pub conn: Option<ConnectionType>,
    pub user_cl: Option<u64>,
    pub user_te: bool,
    pub user_conn: bool,
    pub no_chunking: bool,
    pub body: BodyKind,
}

#[derive(Clone, Debug, PartialEq)]
pub enum ExpectAct {
    Ok(usize),
    Fail,
}

#[derive(Clone, Debug)]
pub struct Config {
    pub ka: bool,
    pub dt: bool,
    pub hc: bool,
    pub wb: usize,
    /// an upgrade service is configured (`HttpServiceBuilder::upgrade`)
    pub up: bool,
}

/// deterministic body byte: lower-case letters only (never looks like a response head)
pub fn body_byte(rid: usize, k: usize) -> u8 {
    b'a' + ((rid * 7 + k * 3) % 26) as u8
}

// ---------------------------------------------------------------------------------------------
// wake flag

pub struct Flag(AtomicBool);
impl Wake for Flag {
    fn wake(self: Arc<Self>) {
        self.0.store(true, Ordering::SeqCst)
    }
    fn wake_by_ref(self: &Arc<Self>) {
        self.0.store(true, Ordering::SeqCst)
    }
}

// ---------------------------------------------------------------------------------------------
// socket

#[derive(Default)]
pub struct SockState {
    pub reads: VecDeque<ReadTok>,
    pub writes: VecDeque<WriteTok>,
    pub written: Vec<u8>,
    pub eof: bool,
    pub shutdown_calls: usize,
    pub read_after_eof: usize,
}

#[derive(Clone)]
pub struct Sock(pub Rc<RefCell<SockState>>);

impl AsyncRead for Sock {
    fn poll_read(self: Pin<&mut Self>, cx: &mut Context<'_>, buf: &mut ReadBuf<'_>) -> Poll<io::Result<()>> {
        let mut s = self.0.borrow_mut();
        if s.eof {
            s.read_after_eof += 1;
            return Poll::Ready(Ok(()));
        }
        match s.reads.pop_front() {
            None => Poll::Pending,
            Some(ReadTok::Pending) => {
                cx.waker().wake_by_ref();
                Poll::Pending
            }
            Some(ReadTok::Eof) => {
                s.eof = true;
                Poll::Ready(Ok(()))
            }
            Some(ReadTok::Reset) => Poll::Ready(Err(io::Error::new(io::ErrorKind::ConnectionReset, "reset"))),
            Some(ReadTok::Data(d)) => {
                let n = d.len().min(buf.remaining());
                buf.put_slice(&d[..n]);
                if n < d.len() {
                    s.reads.push_front(ReadTok::Data(d[n..].to_vec()));
                }
                Poll::Ready(Ok(()))
            }
        }
    }
}

impl AsyncWrite for Sock {
    fn poll_write(self: Pin<&mut Self>, cx: &mut Context<'_>, buf: &[u8]) -> Poll<io::Result<usize>> {
        let mut s = self.0.borrow_mut();
        match s.writes.pop_front() {
            None => {
                s.written.extend_from_slice(buf);
                Poll::Ready(Ok(buf.len()))
            }
            Some(WriteTok::Accept(k)) => {
                let n = k.min(buf.len());
                s.written.extend_from_slice(&buf[..n]);
                Poll::Ready(Ok(n))
            }
            Some(WriteTok::Pending) => {
                cx.waker().wake_by_ref();
                Poll::Pending
            }
            Some(WriteTok::Err) => Poll::Ready(Err(io::Error::new(io::ErrorKind::BrokenPipe, "pipe"))),
            Some(WriteTok::Zero) => Poll::Ready(Ok(0)),
        }
    }
    fn poll_flush(self: Pin<&mut Self>, _: &mut Context<'_>) -> Poll<io::Result<()>> {
        Poll::Ready(Ok(()))
    }
    fn poll_shutdown(self: Pin<&mut Self>, _: &mut Context<'_>) -> Poll<io::Result<()>> {
        self.0.borrow_mut().shutdown_calls += 1;
        Poll::Ready(Ok(()))
    }
}

// ---------------------------------------------------------------------------------------------
// bodies

pub struct ScriptStream {
    rid: usize,
    toks: VecDeque<BodyTok>,
    pos: usize,
    /// keeps a request payload alive as long as the body lives (`PayloadAct::Hold`)
    _hold: Option<Payload>,
}

#[derive(Debug)]
pub struct BodyErr;
impl std::fmt::Display for BodyErr {
    fn fmt(&self, f: &mut std::fmt::Formatter<'_>) -> std::fmt::Result {
        f.write_str("scripted body error")
    }
}
impl std::error::Error for BodyErr {}

impl ScriptStream {
    fn next_tok(&mut self, cx: &mut Context<'_>) -> Poll<Option<Result<Bytes, BodyErr>>> {
        match self.toks.pop_front() {
            None => Poll::Ready(None),
            Some(BodyTok::Pending) => {
                cx.waker().wake_by_ref();
                Poll::Pending
            }
            Some(BodyTok::Err) => Poll::Ready(Some(Err(BodyErr))),
            Some(BodyTok::Chunk(n)) => {
                let v: Vec<u8> = (0..n).map(|i| body_byte(self.rid, self.pos + i)).collect();
                self.pos += n;
                Poll::Ready(Some(Ok(Bytes::from(v))))
            }
        }
    }
}

impl Stream for ScriptStream {
    type Item = Result<Bytes, BodyErr>;
    fn poll_next(mut self: Pin<&mut Self>, cx: &mut Context<'_>) -> Poll<Option<Self::Item>> {
        self.next_tok(cx)
    }
}

pub struct CustomBody {
    size: BodySize,
    inner: ScriptStream,
}

impl MessageBody for CustomBody {
    type Error = BodyErr;
    fn size(&self) -> BodySize {
        self.size
    }
    fn poll_next(mut self: Pin<&mut Self>, cx: &mut Context<'_>) -> Poll<Option<Result<Bytes, BodyErr>>> {
        self.inner.next_tok(cx)
    }
}

// ---------------------------------------------------------------------------------------------
// service

/// what a handler saw of its request payload
#[derive(Clone, Debug, Default)]
pub struct ReadLog {
    pub rid: usize,
    pub bytes: usize,
    /// '-' not reading, 'e' eof, 'i' Incomplete, 'c' EncodingCorrupted, 'o' Overflow, 'x' other error,
    /// 'k' target reached, 'p' still waiting
    pub end: char,
    /// did the bytes read match the request body the generator sent (prefix)?
    pub content_ok: bool,
}

#[derive(Default)]
pub struct SvcLog {
    /// (rid or None when the path is not a known id, method, path, version minor)
    pub calls: Vec<(Option<usize>, String, String, u8)>,
    pub expect_calls: Vec<Option<usize>>,
    /// every request handed to the expect service or the service, in order, once
    pub seen: Vec<(Option<usize>, String, String, u8)>,
    pub reads: Vec<ReadLog>,
    /// length of the socket's written bytes at the moment of each service call
    pub wire_at_call: Vec<usize>,
    /// requests handed to the upgrade service: (rid, bytes of the read buffer handed over)
    pub upgrades: Vec<(Option<usize>, usize)>,
}

pub struct Shared {
    pub handlers: Vec<Handler>,
    pub expects: Vec<ExpectAct>,
    pub req_bodies: Vec<Vec<u8>>,
    pub log: RefCell<SvcLog>,
    pub sock: Sock,
}

pub struct SvcErr(pub u16);
impl From<SvcErr> for Response<BoxBody> {
    fn from(e: SvcErr) -> Self {
        Response::build(StatusCode::from_u16(e.0).unwrap())
            .insert_header(("x-rid", "e"))
            .body(Bytes::from_static(b"err"))
            .map_into_boxed_body()
    }
}
impl std::fmt::Debug for SvcErr {
    fn fmt(&self, f: &mut std::fmt::Formatter<'_>) -> std::fmt::Result {
        write!(f, "SvcErr({})", self.0)
    }
}

fn rid_of(req: &Request) -> Option<usize> {
    req.path().trim_start_matches('/').parse().ok()
}

pub struct HandlerFut {
    sh: Rc<Shared>,
    rid: Option<usize>,
    h: Handler,
    pend: usize,
    payload: Option<Payload>,
    log_idx: usize,
    started: bool,
    done_reading: bool,
}

impl Future for HandlerFut {
    type Output = Result<Response<BoxBody>, SvcErr>;
    fn poll(mut self: Pin<&mut Self>, cx: &mut Context<'_>) -> Poll<Self::Output> {
        let this = &mut *self;
        if !this.started {
            this.started = true;
            if this.h.act == PayloadAct::DropEarly {
                this.payload = None;
            }
        }
        if this.pend > 0 {
            this.pend -= 1;
            cx.waker().wake_by_ref();
            return Poll::Pending;
        }
        // payload reading phase
        let target = match this.h.act {
            PayloadAct::ReadAll => Some(usize::MAX),
            PayloadAct::ReadN(n) => Some(n),
            _ => None,
        };
        if let (Some(target), false) = (target, this.done_reading) {
            loop {
                let idx = this.log_idx;
                let got = this.sh.log.borrow().reads[idx].bytes;
                if got >= target {
                    this.sh.log.borrow_mut().reads[idx].end = 'k';
                    this.done_reading = true;
                    break;
                }
                let Some(pl) = this.payload.as_mut() else {
                    this.done_reading = true;
                    break;
                };
                match Pin::new(pl).poll_next(cx) {
                    Poll::Pending => {
                        this.sh.log.borrow_mut().reads[idx].end = 'p';
                        return Poll::Pending;
                    }
                    Poll::Ready(None) => {
                        this.sh.log.borrow_mut().reads[idx].end = 'e';
                        this.done_reading = true;
                        break;
                    }
                    Poll::Ready(Some(Err(e))) => {
                        this.sh.log.borrow_mut().reads[idx].end = match e {
                            PayloadError::Incomplete(_) => 'i',
                            PayloadError::EncodingCorrupted => 'c',
                            PayloadError::Overflow => 'o',
                            _ => 'x',
                        };
                        this.done_reading = true;
                        break;
                    }
                    Poll::Ready(Some(Ok(b))) => {
                        let mut lg = this.sh.log.borrow_mut();
                        let r = &mut lg.reads[idx];
                        let expect = this.rid.and_then(|i| this.sh.req_bodies.get(i));
                        let ok = expect.is_some_and(|e| e.len() >= r.bytes + b.len() && e[r.bytes..r.bytes + b.len()] == b[..]);
                        r.content_ok &= ok;
                        r.bytes += b.len();
                    }
                }
            }
        }
        // respond
        let rid = this.rid.unwrap_or(0);
        let hold = if this.h.act == PayloadAct::Hold { this.payload.take() } else { None };
        // payload (if still here) is dropped when this future completes
        this.payload = None;
        let status = match this.h.status {
            Ok(s) => s,
            Err(s) => return Poll::Ready(Err(SvcErr(s))),
        };
        let mut b = Response::build(StatusCode::from_u16(status).unwrap());
        b.insert_header(("x-rid", rid.to_string()));
        if let Some(n) = this.h.user_cl {
            b.insert_header(("content-length", n.to_string()));
        }
        if this.h.user_te {
            b.insert_header(("transfer-encoding", "chunked"));
        }
        if this.h.user_conn {
            b.insert_header((HeaderName::from_static("connection"), HeaderValue::from_static("foo")));
        }
        let stream = |toks: &Vec<BodyTok>, hold| ScriptStream { rid, toks: toks.clone().into(), pos: 0, _hold: hold };
        let mut res: Response<BoxBody> = match &this.h.body {
            BodyKind::Empty => b.body(()).map_into_boxed_body(),
            BodyKind::NoneBody => b.body(actix_http::body::None::new()).map_into_boxed_body(),
            BodyKind::Bytes(n) => {
                let v: Vec<u8> = (0..*n).map(|i| body_byte(rid, i)).collect();
                b.body(Bytes::from(v)).map_into_boxed_body()
            }
            BodyKind::SizedStream(n, t) => b.body(SizedStream::new(*n, stream(t, hold))).map_into_boxed_body(),
            BodyKind::BodyStream(t) => b.body(BodyStream::new(stream(t, hold))).map_into_boxed_body(),
            BodyKind::Custom(sz, t) => b.body(CustomBody { size: *sz, inner: stream(t, hold) }).map_into_boxed_body(),
        };
        if let Some(ct) = this.h.conn {
            res.head_mut().set_connection_type(ct);
        }
        if this.h.no_chunking {
            res.head_mut().no_chunking(true);
        }
        Poll::Ready(Ok(res))
    }
}

pub struct Svc(pub Rc<Shared>);

impl Service<Request> for Svc {
    type Response = Response<BoxBody>;
    type Error = SvcErr;
    type Future = HandlerFut;

    fn poll_ready(&self, _: &mut Context<'_>) -> Poll<Result<(), Self::Error>> {
        Poll::Ready(Ok(()))
    }

    fn call(&self, mut req: Request) -> Self::Future {
        let rid = rid_of(&req).filter(|i| *i < self.0.handlers.len());
        let h = match rid {
            Some(i) => self.0.handlers[i].clone(),
            // a request the generator never sent (e.g. parsed out of body bytes): answer plainly
            None => Handler {
                pend: 0,
                act: PayloadAct::Ignore,
                status: Ok(200),
                conn: None,
                user_cl: None,
                user_te: false,
                user_conn: false,
                no_chunking: false,
                body: BodyKind::Empty,
            },
        };
        let minor = if req.version() == actix_http::Version::HTTP_10 { 0 } else { 1 };
        let payload = req.take_payload();
        let log_idx;
        {
            let mut lg = self.0.log.borrow_mut();
            let ent = (rid, req.method().as_str().to_owned(), req.path().to_owned(), minor);
            if lg.seen.last() != Some(&ent) || !lg.expect_calls.last().is_some_and(|r| *r == rid) {
                lg.seen.push(ent.clone());
            }
            lg.calls.push(ent);
            lg.wire_at_call.push(self.0.sock.0.borrow().written.len());
            log_idx = lg.reads.len();
            lg.reads.push(ReadLog { rid: rid.unwrap_or(usize::MAX), bytes: 0, end: '-', content_ok: true });
        }
        HandlerFut {
            sh: self.0.clone(),
            rid,
            pend: h.pend,
            h,
            payload: Some(payload),
            log_idx,
            started: false,
            done_reading: false,
        }
    }
}

pub struct ExpectSvc(pub Rc<Shared>);

pub struct ExpectFut {
    req: Option<Request>,
    act: ExpectAct,
}

impl Future for ExpectFut {
    type Output = Result<Request, SvcErr>;
    fn poll(mut self: Pin<&mut Self>, cx: &mut Context<'_>) -> Poll<Self::Output> {
        match self.act.clone() {
            ExpectAct::Fail => Poll::Ready(Err(SvcErr(417))),
            ExpectAct::Ok(0) => Poll::Ready(Ok(self.req.take().unwrap())),
            ExpectAct::Ok(n) => {
                self.act = ExpectAct::Ok(n - 1);
                cx.waker().wake_by_ref();
                Poll::Pending
            }
        }
    }
}

impl Service<Request> for ExpectSvc {
    type Response = Request;
    type Error = SvcErr;
    type Future = ExpectFut;
    fn poll_ready(&self, _: &mut Context<'_>) -> Poll<Result<(), Self::Error>> {
        Poll::Ready(Ok(()))
    }
    fn call(&self, req: Request) -> Self::Future {
        let rid = rid_of(&req).filter(|i| *i < self.0.expects.len());
        {
            let minor = if req.version() == actix_http::Version::HTTP_10 { 0 } else { 1 };
            let mut lg = self.0.log.borrow_mut();
            lg.expect_calls.push(rid);
            lg.seen.push((rid, req.method().as_str().to_owned(), req.path().to_owned(), minor));
        }
        let act = rid.map(|i| self.0.expects[i].clone()).unwrap_or(ExpectAct::Ok(0));
        ExpectFut { req: Some(req), act }
    }
}


// ---------------------------------------------------------------------------------------------
// upgrade service: writes a fixed `101` head (+ `x-rid`) and the marker `UPGRADED` through the
// `Framed` it was given (which carries whatever the dispatcher had encoded but not yet flushed),
// flushes and finishes

pub const UPGRADE_MARKER: &[u8] = b"upgraded";

impl std::fmt::Display for SvcErr {
    fn fmt(&self, f: &mut std::fmt::Formatter<'_>) -> std::fmt::Result {
        write!(f, "SvcErr({})", self.0)
    }
}

pub struct UpgradeSvc(pub Rc<Shared>);

pub struct UpgradeFut {
    framed: actix_codec::Framed<Sock, actix_http::h1::Codec>,
    rid: Option<usize>,
    encoded: bool,
}

impl Future for UpgradeFut {
    type Output = Result<(), SvcErr>;
    fn poll(mut self: Pin<&mut Self>, cx: &mut Context<'_>) -> Poll<Self::Output> {
        use actix_http::h1::Message;
        let this = &mut *self;
        if !this.encoded {
            this.encoded = true;
            let mut res = Response::build(StatusCode::SWITCHING_PROTOCOLS)
                .insert_header(("x-rid", this.rid.map(|r| r.to_string()).unwrap_or_else(|| "?".into())))
                .finish()
                .drop_body();
            res.head_mut().set_connection_type(ConnectionType::Upgrade);
            if Pin::new(&mut this.framed).write(Message::Item((res, BodySize::Stream))).is_err() {
                return Poll::Ready(Err(SvcErr(500)));
            }
            if Pin::new(&mut this.framed)
                .write(Message::<(Response<()>, BodySize)>::Chunk(Some(Bytes::from_static(UPGRADE_MARKER))))
                .is_err()
            {
                return Poll::Ready(Err(SvcErr(500)));
            }
        }
        match Pin::new(&mut this.framed).flush::<Message<(Response<()>, BodySize)>>(cx) {
            Poll::Pending => Poll::Pending,
            Poll::Ready(Ok(())) => Poll::Ready(Ok(())),
            Poll::Ready(Err(_)) => Poll::Ready(Err(SvcErr(500))),
        }
    }
}

impl Service<(Request, actix_codec::Framed<Sock, actix_http::h1::Codec>)> for UpgradeSvc {
    type Response = ();
    type Error = SvcErr;
    type Future = UpgradeFut;
    fn poll_ready(&self, _: &mut Context<'_>) -> Poll<Result<(), Self::Error>> {
        Poll::Ready(Ok(()))
    }
    fn call(&self, (req, framed): (Request, actix_codec::Framed<Sock, actix_http::h1::Codec>)) -> Self::Future {
        let rid = rid_of(&req).filter(|i| *i < self.0.handlers.len());
        let minor = if req.version() == actix_http::Version::HTTP_10 { 0 } else { 1 };
        {
            let mut lg = self.0.log.borrow_mut();
            lg.upgrades.push((rid, 0));
            lg.seen.push((rid, req.method().as_str().to_owned(), req.path().to_owned(), minor));
        }
        UpgradeFut { framed, rid, encoded: false }
    }
}

// ---------------------------------------------------------------------------------------------
// driver

pub struct SimResult {
    pub wire: Vec<u8>,
    /// "ok", "pending", "livelock", or "err:<kind>"
    pub done: String,
    pub shutdown_calls: usize,
    pub log: SvcLog,
    pub polls: usize,
    pub reads_left: usize,
}

pub fn simulate(
    cfg: &Config,
    handlers: Vec<Handler>,
    expects: Vec<ExpectAct>,
    req_bodies: Vec<Vec<u8>>,
    reads: Vec<ReadTok>,
    writes: Vec<WriteTok>,
) -> SimResult {
    let sock = Sock(Rc::new(RefCell::new(SockState {
        reads: reads.into(),
        writes: writes.into(),
        ..Default::default()
    })));
    let shared = Rc::new(Shared { handlers, expects, req_bodies, log: RefCell::new(SvcLog::default()), sock: sock.clone() });
    let cfg = cfg.clone();
    let sh2 = shared.clone();
    let (done, polls) = crate::common::block_on_system(async move {
        let sh_a = sh2.clone();
        let sh_b = sh2.clone();
        let sh_c = sh2.clone();
        let builder = HttpService::build()
            .keep_alive(if cfg.ka { KeepAlive::Timeout(Duration::from_secs(3600)) } else { KeepAlive::Disabled })
            .client_request_timeout(Duration::from_secs(3600))
            .client_disconnect_timeout(if cfg.dt { Duration::from_secs(3600) } else { Duration::ZERO })
            .h1_allow_half_closed(cfg.hc)
            .h1_write_buffer_size(cfg.wb)
            .expect(fn_factory(move || {
                let s = sh_a.clone();
                async move { Ok::<_, ()>(ExpectSvc(s)) }
            }));
        let svc_factory = fn_factory(move || {
            let s = sh_b.clone();
            async move { Ok::<_, ()>(Svc(s)) }
        });
        type ConnFut = Pin<Box<dyn Future<Output = Result<(), actix_http::error::DispatchError>>>>;
        let fut: ConnFut = if cfg.up {
            let factory = builder
                .upgrade(fn_factory(move || {
                    let s = sh_c.clone();
                    async move { Ok::<_, ()>(UpgradeSvc(s)) }
                }))
                .h1(svc_factory);
            let svc = factory.new_service(()).await.unwrap();
            Box::pin(svc.call((sh2.sock.clone(), None)))
        } else {
            let factory = builder.h1(svc_factory);
            let svc = factory.new_service(()).await.unwrap();
            Box::pin(svc.call((sh2.sock.clone(), None)))
        };
        let mut fut = fut;
        let flag = Arc::new(Flag(AtomicBool::new(false)));
        let waker = Waker::from(flag.clone());
        let mut cx = Context::from_waker(&waker);
        let mut polls = 0usize;
        let done = loop {
            flag.0.store(false, Ordering::SeqCst);
            polls += 1;
            match fut.as_mut().poll(&mut cx) {
                Poll::Ready(Ok(())) => break "ok".to_owned(),
                Poll::Ready(Err(e)) => {
                    use actix_http::error::DispatchError as D;
                    let k = match e {
                        D::Service(_) => "service",
                        D::Body(_) => "body",
                        D::Upgrade => "upgrade",
                        D::Io(_) => "io",
                        D::Parse(_) => "parse",
                        D::H2(_) => "h2",
                        D::SlowRequestTimeout => "slow",
                        D::DisconnectTimeout => "disconnect-timeout",
                        D::HandlerDroppedPayload => "dropped-payload",
                        D::InternalError => "internal",
                        _ => "other",
                    };
                    break format!("err:{k}");
                }
                Poll::Pending => {
                    if !flag.0.load(Ordering::SeqCst) {
                        break "pending".to_owned();
                    }
                    if polls > 5000 {
                        break "livelock".to_owned();
                    }
                }
            }
        };
        drop(fut);
        (done, polls)
    });
    let s = sock.0.borrow();
    let log = std::mem::take(&mut *shared.log.borrow_mut());
    SimResult {
        wire: s.written.clone(),
        done,
        shutdown_calls: s.shutdown_calls,
        log,
        polls,
        reads_left: s.reads.len(),
    }
}
