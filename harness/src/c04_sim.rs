//! C04 — scripted world for the wake-driven executor: a socket whose readiness is adversarial,
//! scripted handlers / response bodies / request-body consumers, and the executor that polls the
//! REAL `h1::Dispatcher` future only when its waker fired.
//!
//! Every blocking point is a *barrier* guarded by a per-source semaphore:
//!   source letters  r = socket read   w = socket write   f = socket flush   s = socket shutdown
//!                   h = handler       b = response body  c = consumer task (one scripted step)
//! `fire(src)` (an external event) adds one credit and wakes the stored waiter of that source, if
//! any.  A barrier is passed when a credit is available, otherwise the caller's waker is stored and
//! `Pending` is returned.  Nothing else ever wakes the connection task from outside; internal wakes
//! (payload channel, self-wake, timers) go through the same counting waker.
use std::{
    cell::RefCell,
    collections::VecDeque,
    future::Future,
    io,
    pin::Pin,
    rc::Rc,
    sync::{
        atomic::{AtomicBool, AtomicUsize, Ordering},
        Arc,
    },
    task::{Context, Poll, Wake, Waker},
    time::Duration,
};

use actix_http::{
    body::{BodySize, MessageBody},
    error::PayloadError,
    HttpService, KeepAlive, Payload, Request, Response, StatusCode,
};
use actix_service::{fn_service, Service as _, ServiceFactory as _};
use bytes::Bytes;
use futures_core::Stream as _;
use tokio::io::{AsyncRead, AsyncWrite, ReadBuf};

pub const SRC: &[u8; 7] = b"rwfshbc";
pub const R: usize = 0;
pub const W: usize = 1;
pub const F: usize = 2;
pub const S: usize = 3;
pub const H: usize = 4;
pub const B: usize = 5;
pub const C: usize = 6;

#[derive(Clone, Debug, PartialEq)]
pub enum ROp {
    Bytes(usize),
    Barrier,
    Eof,
    Reset,
    Silent,
}

#[derive(Clone, Debug, PartialEq)]
pub enum WOp {
    Accept(usize),
    Zero,
    Barrier,
}

#[derive(Clone, Debug, PartialEq)]
pub enum BStep {
    Chunk(usize),
    SelfPend,
    ExtPend,
    Err,
}

#[derive(Clone, Debug, PartialEq)]
pub enum RespKind {
    None,
    Zero,
    Sized(Vec<BStep>),
    Stream(Vec<BStep>),
}

#[derive(Clone, Debug, PartialEq)]
pub enum ReqBody {
    None,
    Sized(usize),
    Chunked(Vec<usize>),
    /// not a request at all: `head_len` bytes that httparse rejects at the first byte (400 path)
    Bad,
    /// `Connection: upgrade` + `Upgrade: websocket`: handed to the upgrade service
    Upgrade,
}

/// what the scripted upgrade service writes to the socket after the bytes it inherited
pub const UPGRADE_MARKER: &[u8] = b"UPGRADED";

#[derive(Clone, Debug)]
pub struct Req {
    pub head_len: usize,
    pub body: ReqBody,
    /// handler steps: p self-pend, q external pend, r read one item, a read to end, d drop payload,
    /// m move payload to the consumer task
    pub hsteps: Vec<u8>,
    pub resp: RespKind,
    /// consumer task steps (after `m`): r poll once, d drop
    pub csteps: Vec<u8>,
}

#[derive(Clone, Debug)]
pub struct Cfg {
    /// None = KeepAlive::Os (enabled, no timer); Some(0) = Disabled; Some(n) = Timeout(n s)
    pub ka: Option<u64>,
    pub disc: u64,
    pub head: u64,
    pub wbs: usize,
    pub quantum: usize,
    pub half_closed: bool,
}

#[derive(Clone, Debug)]
pub struct Case {
    pub cfg: Cfg,
    pub reqs: Vec<Req>,
    pub rops: Vec<ROp>,
    pub wops: Vec<WOp>,
    /// true = barrier, false = ready
    pub fops: Vec<bool>,
    pub sops: Vec<bool>,
    pub ev: Vec<usize>,
}

/// What the scripted parts observed; everything the oracle needs.
#[derive(Default, Debug)]
pub struct Log {
    pub accepted: Vec<u8>,
    /// the upgrade service was called
    pub upgraded: bool,
    pub shutdown_calls: usize,
    pub shutdown_done: bool,
    /// per request: handler called
    pub called: Vec<usize>,
    /// per request: handler future completed (returned a response)
    pub responded: Vec<usize>,
    /// per request: bytes of body the dispatcher pulled from the response body, and whether end was pulled
    pub pulled: Vec<(usize, usize, bool)>,
    /// per request: request-body bytes seen by the consumer, saw eof, saw error, dropped early
    pub consumed: Vec<(usize, usize, bool, bool, bool)>,
    pub wire_read: usize,
    pub read_eof_seen: bool,
    pub read_reset_seen: bool,
    pub at_silent: bool,
}

pub struct World {
    pub credit: [usize; 7],
    pub waiter: [Option<Waker>; 7],
    pub silent_waiter: Option<Waker>,
    pub wire: Vec<u8>,
    pub wire_pos: usize,
    pub rops: VecDeque<ROp>,
    pub wops: VecDeque<WOp>,
    pub fops: VecDeque<bool>,
    pub sops: VecDeque<bool>,
    pub quantum: usize,
    pub reqs: Vec<Req>,
    pub log: Log,
    /// payload moved out of the connection task + its script + request id
    pub consumer: Option<(Payload, VecDeque<u8>, usize)>,
    pub consumer_steps_left: usize,
    /// bytes accepted since the last completed flush
    pub dirty: bool,
    /// waker of the consumer task (a task of its own, polled only when this waker fired)
    pub cwaker: Option<Waker>,
    /// connection-task waker of a handler that waits (`w`) for the consumer task to finish
    pub consumer_done_waiter: Option<Waker>,
}

pub type Shared = Rc<RefCell<World>>;

impl World {
    /// pass a barrier of `src` or store the waiter
    fn barrier(&mut self, src: usize, cx: &mut Context<'_>) -> bool {
        if self.credit[src] > 0 {
            self.credit[src] -= 1;
            true
        } else {
            self.waiter[src] = Some(cx.waker().clone());
            false
        }
    }
    pub fn fire(&mut self, src: usize) {
        self.credit[src] += 1;
        if let Some(w) = self.waiter[src].take() {
            w.wake();
        }
    }
    pub fn waiters(&self) -> String {
        let mut s = String::new();
        for i in 0..7 {
            if self.waiter[i].is_some() {
                s.push(SRC[i] as char);
            }
        }
        if self.silent_waiter.is_some() {
            s.push('z');
        }
        if self.consumer_done_waiter.is_some() {
            s.push('j');
        }
        s
    }
    fn cons_entry(&mut self, rid: usize) -> &mut (usize, usize, bool, bool, bool) {
        if let Some(i) = self.log.consumed.iter().position(|e| e.0 == rid) {
            &mut self.log.consumed[i]
        } else {
            self.log.consumed.push((rid, 0, false, false, false));
            self.log.consumed.last_mut().unwrap()
        }
    }
}

// ---------------------------------------------------------------------------------------------
// socket

pub struct Sock(pub Shared);

impl AsyncRead for Sock {
    fn poll_read(self: Pin<&mut Self>, cx: &mut Context<'_>, buf: &mut ReadBuf<'_>) -> Poll<io::Result<()>> {
        let mut w = self.0.borrow_mut();
        loop {
            match w.rops.front().cloned() {
                // script exhausted: whatever is left of the wire is available, then EOF
                None if w.wire_pos < w.wire.len() => {
                    let left = w.wire.len() - w.wire_pos;
                    w.rops.push_back(ROp::Bytes(left));
                    continue;
                }
                None | Some(ROp::Eof) => {
                    w.log.read_eof_seen = true;
                    return Poll::Ready(Ok(()));
                }
                Some(ROp::Reset) => {
                    w.log.read_reset_seen = true;
                    return Poll::Ready(Err(io::Error::new(io::ErrorKind::ConnectionReset, "reset")));
                }
                Some(ROp::Silent) => {
                    w.silent_waiter = Some(cx.waker().clone());
                    w.log.at_silent = true;
                    return Poll::Pending;
                }
                Some(ROp::Barrier) => {
                    if w.barrier(R, cx) {
                        w.rops.pop_front();
                        continue;
                    }
                    return Poll::Pending;
                }
                Some(ROp::Bytes(k)) => {
                    let left = w.wire.len() - w.wire_pos;
                    if k == 0 || left == 0 {
                        w.rops.pop_front();
                        continue;
                    }
                    let n = k.min(left).min(w.quantum).min(buf.remaining());
                    assert!(n > 0, "dispatcher offered an empty read buffer");
                    let pos = w.wire_pos;
                    buf.put_slice(&w.wire[pos..pos + n]);
                    w.wire_pos += n;
                    w.log.wire_read += n;
                    if n == k {
                        w.rops.pop_front();
                    } else {
                        *w.rops.front_mut().unwrap() = ROp::Bytes(k - n);
                    }
                    return Poll::Ready(Ok(()));
                }
            }
        }
    }
}

impl AsyncWrite for Sock {
    fn poll_write(self: Pin<&mut Self>, cx: &mut Context<'_>, buf: &[u8]) -> Poll<io::Result<usize>> {
        let mut w = self.0.borrow_mut();
        loop {
            match w.wops.front().cloned() {
                None => {
                    w.log.accepted.extend_from_slice(buf);
                    w.dirty = true;
                    return Poll::Ready(Ok(buf.len()));
                }
                Some(WOp::Zero) => {
                    w.wops.pop_front();
                    return Poll::Ready(Ok(0));
                }
                Some(WOp::Barrier) => {
                    if w.barrier(W, cx) {
                        w.wops.pop_front();
                        continue;
                    }
                    return Poll::Pending;
                }
                Some(WOp::Accept(k)) => {
                    w.wops.pop_front();
                    let n = k.max(1).min(buf.len());
                    w.log.accepted.extend_from_slice(&buf[..n]);
                    w.dirty = true;
                    return Poll::Ready(Ok(n));
                }
            }
        }
    }

    fn poll_flush(self: Pin<&mut Self>, cx: &mut Context<'_>) -> Poll<io::Result<()>> {
        let mut w = self.0.borrow_mut();
        // nothing accepted since the last completed flush: ready at once, script untouched
        if !w.dirty {
            return Poll::Ready(Ok(()));
        }
        loop {
            match w.fops.front().cloned() {
                None => {
                    w.dirty = false;
                    return Poll::Ready(Ok(()));
                }
                Some(false) => {
                    w.fops.pop_front();
                    w.dirty = false;
                    return Poll::Ready(Ok(()));
                }
                Some(true) => {
                    if w.barrier(F, cx) {
                        w.fops.pop_front();
                        continue;
                    }
                    return Poll::Pending;
                }
            }
        }
    }

    fn poll_shutdown(self: Pin<&mut Self>, cx: &mut Context<'_>) -> Poll<io::Result<()>> {
        let mut w = self.0.borrow_mut();
        w.log.shutdown_calls += 1;
        loop {
            match w.sops.front().cloned() {
                None => {
                    w.log.shutdown_done = true;
                    return Poll::Ready(Ok(()));
                }
                Some(false) => {
                    w.sops.pop_front();
                    w.log.shutdown_done = true;
                    return Poll::Ready(Ok(()));
                }
                Some(true) => {
                    if w.barrier(S, cx) {
                        w.sops.pop_front();
                        continue;
                    }
                    return Poll::Pending;
                }
            }
        }
    }
}

// ---------------------------------------------------------------------------------------------
// response body

pub fn body_byte(rid: usize, off: usize) -> u8 {
    // never CR/LF so that the oracle's parser cannot be confused by content
    let v = ((rid * 37 + off * 7 + 1) % 200) as u8;
    b'0' + (v % 75)
}

pub struct ScriptBody {
    world: Shared,
    rid: usize,
    sized: Option<u64>,
    none: bool,
    steps: VecDeque<BStep>,
    off: usize,
}

impl MessageBody for ScriptBody {
    type Error = io::Error;

    fn size(&self) -> BodySize {
        if self.none {
            BodySize::None
        } else if let Some(n) = self.sized {
            BodySize::Sized(n)
        } else {
            BodySize::Stream
        }
    }

    fn poll_next(mut self: Pin<&mut Self>, cx: &mut Context<'_>) -> Poll<Option<Result<Bytes, io::Error>>> {
        let this = &mut *self;
        let mut w = this.world.borrow_mut();
        loop {
            match this.steps.front().cloned() {
                None => {
                    let rid = this.rid;
                    if let Some(e) = w.log.pulled.iter_mut().find(|e| e.0 == rid) {
                        e.2 = true;
                    }
                    return Poll::Ready(None);
                }
                Some(BStep::SelfPend) => {
                    this.steps.pop_front();
                    cx.waker().wake_by_ref();
                    return Poll::Pending;
                }
                Some(BStep::ExtPend) => {
                    if w.barrier(B, cx) {
                        this.steps.pop_front();
                        continue;
                    }
                    return Poll::Pending;
                }
                Some(BStep::Err) => {
                    this.steps.pop_front();
                    return Poll::Ready(Some(Err(io::Error::other("scripted body error"))));
                }
                Some(BStep::Chunk(n)) => {
                    this.steps.pop_front();
                    let data: Vec<u8> = (0..n).map(|i| body_byte(this.rid, this.off + i)).collect();
                    this.off += n;
                    let rid = this.rid;
                    if let Some(e) = w.log.pulled.iter_mut().find(|e| e.0 == rid) {
                        e.1 += n;
                    }
                    return Poll::Ready(Some(Ok(Bytes::from(data))));
                }
            }
        }
    }
}

// ---------------------------------------------------------------------------------------------
// handler

pub struct HandlerFut {
    world: Shared,
    rid: Option<usize>,
    req: Option<Request>,
    payload: Option<Payload>,
    steps: VecDeque<u8>,
}

fn poll_payload_once(pl: &mut Payload, cx: &mut Context<'_>) -> Poll<Option<Result<Bytes, PayloadError>>> {
    Pin::new(pl).poll_next(cx)
}

impl Future for HandlerFut {
    type Output = Result<Response<ScriptBody>, actix_http::Error>;

    fn poll(mut self: Pin<&mut Self>, cx: &mut Context<'_>) -> Poll<Self::Output> {
        let this = &mut *self;
        let Some(rid) = this.rid else {
            // unknown request: plain 404 with no body
            let body = ScriptBody { world: this.world.clone(), rid: 9999, sized: Some(0), none: false, steps: VecDeque::new(), off: 0 };
            return Poll::Ready(Ok(Response::with_body(StatusCode::NOT_FOUND, body)));
        };
        loop {
            let Some(step) = this.steps.front().cloned() else { break };
            match step {
                b'p' => {
                    this.steps.pop_front();
                    cx.waker().wake_by_ref();
                    return Poll::Pending;
                }
                b'q' => {
                    let mut w = this.world.borrow_mut();
                    if w.barrier(H, cx) {
                        this.steps.pop_front();
                        continue;
                    }
                    return Poll::Pending;
                }
                b'r' | b'a' => {
                    let Some(pl) = this.payload.as_mut() else {
                        this.steps.pop_front();
                        continue;
                    };
                    // NB: the world must not be borrowed while the payload is polled (it may wake)
                    match poll_payload_once(pl, cx) {
                        Poll::Pending => return Poll::Pending,
                        Poll::Ready(Some(Ok(b))) => {
                            let mut w = this.world.borrow_mut();
                            w.cons_entry(rid).1 += b.len();
                            if step == b'r' {
                                this.steps.pop_front();
                            }
                        }
                        Poll::Ready(None) => {
                            let mut w = this.world.borrow_mut();
                            w.cons_entry(rid).2 = true;
                            this.steps.pop_front();
                            // a finished stream must not be polled again
                            this.payload = None;
                        }
                        Poll::Ready(Some(Err(_))) => {
                            let mut w = this.world.borrow_mut();
                            w.cons_entry(rid).3 = true;
                            this.steps.pop_front();
                            this.payload = None;
                        }
                    }
                }
                b'd' => {
                    this.steps.pop_front();
                    if this.payload.take().is_some() {
                        let mut w = this.world.borrow_mut();
                        let e = w.cons_entry(rid);
                        if !e.2 && !e.3 {
                            e.4 = true;
                        }
                    }
                }
                b'm' => {
                    this.steps.pop_front();
                    if let Some(pl) = this.payload.take() {
                        let mut w = this.world.borrow_mut();
                        let cs: VecDeque<u8> = w.reqs[rid].csteps.iter().cloned().collect();
                        w.consumer_steps_left = cs.len();
                        // a freshly spawned task is runnable
                        let spawn_runnable = cs.front() == Some(&b'A');
                        w.consumer = Some((pl, cs, rid));
                        let cw = w.cwaker.clone();
                        drop(w);
                        if spawn_runnable {
                            if let Some(cw) = cw {
                                cw.wake();
                            }
                        }
                    }
                }
                // poll the payload once under the connection task's waker, never block
                b't' => {
                    this.steps.pop_front();
                    if let Some(pl) = this.payload.as_mut() {
                        match poll_payload_once(pl, cx) {
                            Poll::Pending => {}
                            Poll::Ready(Some(Ok(b))) => {
                                this.world.borrow_mut().cons_entry(rid).1 += b.len();
                            }
                            Poll::Ready(None) => {
                                this.world.borrow_mut().cons_entry(rid).2 = true;
                                this.payload = None;
                            }
                            Poll::Ready(Some(Err(_))) => {
                                this.world.borrow_mut().cons_entry(rid).3 = true;
                                this.payload = None;
                            }
                        }
                    }
                }
                // wait until the consumer task that owns the moved payload has finished
                b'w' => {
                    let mut w = this.world.borrow_mut();
                    if w.consumer.is_none() {
                        drop(w);
                        this.steps.pop_front();
                        continue;
                    }
                    w.consumer_done_waiter = Some(cx.waker().clone());
                    return Poll::Pending;
                }
                _ => {
                    this.steps.pop_front();
                }
            }
        }
        // respond
        let mut w = this.world.borrow_mut();
        w.log.responded.push(rid);
        w.log.pulled.push((rid, 0, false));
        let kind = w.reqs[rid].resp.clone();
        drop(w);
        let mk = |sized: Option<u64>, none: bool, steps: Vec<BStep>| ScriptBody {
            world: this.world.clone(),
            rid,
            sized,
            none,
            steps: steps.into_iter().collect(),
            off: 0,
        };
        let body = match kind {
            RespKind::None => mk(None, true, vec![]),
            RespKind::Zero => mk(Some(0), false, vec![]),
            RespKind::Sized(st) => {
                let total: usize = st.iter().map(|s| if let BStep::Chunk(n) = s { *n } else { 0 }).sum();
                mk(Some(total as u64), false, st)
            }
            RespKind::Stream(st) => mk(None, false, st),
        };
        // keep the request (and an untaken payload) alive until the future itself is dropped
        let _ = &this.req;
        Poll::Ready(Ok(Response::with_body(StatusCode::OK, body)))
    }
}

/// one scripted step of the task that owns a moved payload
pub fn consumer_step(world: &Shared, cw: &Waker) {
    let taken = {
        let mut w = world.borrow_mut();
        w.consumer.take()
    };
    let Some((mut pl, mut steps, rid)) = taken else { return };
    let step = steps.pop_front();
    let mut keep = true;
    match step {
        Some(b'r') => {
            let mut cx = Context::from_waker(cw);
            match poll_payload_once(&mut pl, &mut cx) {
                Poll::Ready(Some(Ok(b))) => world.borrow_mut().cons_entry(rid).1 += b.len(),
                Poll::Ready(None) => {
                    world.borrow_mut().cons_entry(rid).2 = true;
                    keep = false
                }
                Poll::Ready(Some(Err(_))) => {
                    world.borrow_mut().cons_entry(rid).3 = true;
                    keep = false
                }
                Poll::Pending => {}
            }
        }
        // wake-driven read-to-end: poll until Pending (stay on this step) or until the stream ends
        Some(b'A') => {
            let mut cx = Context::from_waker(cw);
            loop {
                match poll_payload_once(&mut pl, &mut cx) {
                    Poll::Ready(Some(Ok(b))) => world.borrow_mut().cons_entry(rid).1 += b.len(),
                    Poll::Ready(None) => {
                        world.borrow_mut().cons_entry(rid).2 = true;
                        keep = false;
                        break;
                    }
                    Poll::Ready(Some(Err(_))) => {
                        world.borrow_mut().cons_entry(rid).3 = true;
                        keep = false;
                        break;
                    }
                    Poll::Pending => {
                        steps.push_front(b'A');
                        break;
                    }
                }
            }
        }
        Some(b'd') | None => {
            let mut w = world.borrow_mut();
            let e = w.cons_entry(rid);
            if !e.2 && !e.3 {
                e.4 = true;
            }
            keep = false;
        }
        _ => {}
    }
    let mut w = world.borrow_mut();
    if keep {
        w.consumer_steps_left = steps.len();
        // a scripted step followed by the wake-driven one: the task simply goes on running
        let goes_on = step != Some(b'A') && steps.front() == Some(&b'A');
        w.consumer = Some((pl, steps, rid));
        if goes_on {
            drop(w);
            cw.wake_by_ref();
        }
    } else {
        w.consumer_steps_left = 0;
        let done = w.consumer_done_waiter.take();
        drop(w);
        drop(pl);
        // the task has finished: whoever joins it is woken
        if let Some(wk) = done {
            wk.wake();
        }
    }
}

fn consumer_parked(world: &Shared) -> bool {
    matches!(world.borrow().consumer.as_ref().and_then(|c| c.1.front().cloned()), Some(b'A'))
}

/// The consumer task is a task of its own: it runs when its waker has fired and it is parked on
/// a wake-driven step (`A`). Returns true if it ran.
fn run_consumer_if_woken(world: &Shared, cflag: &Flag, cw: &Waker) -> bool {
    if !cflag.woken.swap(false, Ordering::SeqCst) {
        return false;
    }
    if !consumer_parked(world) {
        return false;
    }
    consumer_step(world, cw);
    true
}

// ---------------------------------------------------------------------------------------------
// upgrade service: writes what it inherited + a marker, flushes, completes

pub struct UpgradeFut {
    io: Sock,
    buf: Vec<u8>,
    pos: usize,
}

impl Future for UpgradeFut {
    type Output = Result<(), actix_http::Error>;

    fn poll(mut self: Pin<&mut Self>, cx: &mut Context<'_>) -> Poll<Self::Output> {
        let this = &mut *self;
        while this.pos < this.buf.len() {
            match Pin::new(&mut this.io).poll_write(cx, &this.buf[this.pos..]) {
                Poll::Ready(Ok(0)) => return Poll::Ready(Err(PayloadError::Io(io::Error::new(io::ErrorKind::WriteZero, "")).into())),
                Poll::Ready(Ok(n)) => this.pos += n,
                Poll::Ready(Err(e)) => return Poll::Ready(Err(PayloadError::Io(e).into())),
                Poll::Pending => return Poll::Pending,
            }
        }
        Pin::new(&mut this.io).poll_flush(cx).map_err(|e| PayloadError::Io(e).into())
    }
}

// ---------------------------------------------------------------------------------------------
// wire

pub fn hexlen(n: usize) -> usize {
    format!("{:X}", n).len()
}

pub fn min_head_len(i: usize, body: &ReqBody) -> usize {
    build_head(i, body, 0).len()
}

fn build_head(i: usize, body: &ReqBody, pad: usize) -> Vec<u8> {
    let mut h = Vec::new();
    if matches!(body, ReqBody::Bad) {
        // `@` is not a token character: httparse fails on the very first byte
        h.push(b'@');
        h.extend(std::iter::repeat(b'@').take(pad));
        return h;
    }
    let m = if matches!(body, ReqBody::None | ReqBody::Upgrade) { "GET" } else { "POST" };
    h.extend_from_slice(format!("{} /{} HTTP/1.1\r\n", m, i).as_bytes());
    match body {
        ReqBody::None => {}
        ReqBody::Sized(n) => h.extend_from_slice(format!("content-length: {}\r\n", n).as_bytes()),
        ReqBody::Chunked(_) => h.extend_from_slice(b"transfer-encoding: chunked\r\n"),
        ReqBody::Upgrade => h.extend_from_slice(b"connection: upgrade\r\nupgrade: websocket\r\n"),
        ReqBody::Bad => {}
    }
    h.extend_from_slice(b"x: ");
    h.extend(std::iter::repeat(b'a').take(pad));
    h.extend_from_slice(b"\r\n\r\n");
    h
}

pub fn build_wire(reqs: &[Req]) -> Option<Vec<u8>> {
    let mut wire = Vec::new();
    for (i, r) in reqs.iter().enumerate() {
        let min = min_head_len(i, &r.body);
        if r.head_len < min {
            return None;
        }
        wire.extend(build_head(i, &r.body, r.head_len - min));
        match &r.body {
            ReqBody::None | ReqBody::Bad | ReqBody::Upgrade => {}
            ReqBody::Sized(n) => wire.extend((0..*n).map(|k| b'A' + (k % 23) as u8)),
            ReqBody::Chunked(cs) => {
                for c in cs {
                    wire.extend_from_slice(format!("{:X}\r\n", c).as_bytes());
                    wire.extend((0..*c).map(|k| b'a' + (k % 23) as u8));
                    wire.extend_from_slice(b"\r\n");
                }
                wire.extend_from_slice(b"0\r\n\r\n");
            }
        }
    }
    Some(wire)
}

// ---------------------------------------------------------------------------------------------
// executor

struct Flag {
    woken: AtomicBool,
    count: AtomicUsize,
}

impl Wake for Flag {
    fn wake(self: Arc<Self>) {
        self.wake_by_ref()
    }
    fn wake_by_ref(self: &Arc<Self>) {
        self.woken.store(true, Ordering::SeqCst);
        self.count.fetch_add(1, Ordering::SeqCst);
    }
}

#[derive(Debug, Clone, PartialEq)]
pub enum Outcome {
    DoneOk,
    DoneErr(String),
    /// Pending, nothing woke the task, no external event left, the peer is silent and the task
    /// holds the socket's read waker: legitimately waiting for the peer
    Idle,
    /// Pending, nothing woke the task, no external event left, virtual time exhausted
    Stalled,
    /// executor gave up (poll budget): live-lock
    Spin,
    /// stopped at the requested idle point (`run_case_probe`)
    ProbeStop,
}

pub struct RunResult {
    pub outcome: Outcome,
    pub trace: Vec<String>,
    pub log: Log,
    pub wire_len: usize,
    pub polls: usize,
    /// unfinished scripted work when the run ended
    pub leftover_waiters: String,
    /// `Some(what)` if a spurious poll in the final Idle/Stalled state made progress
    pub probe: Option<String>,
}

/// after this many consecutive polls that were re-triggered by a wake raised *during* the poll,
/// one external event is delivered anyway (other tasks get to run between polls of a real runtime)
pub const FAIR: usize = 4;
/// polls of the quiescence probe (re-polled while the task wakes itself)
pub const PROBE_POLLS: usize = 8;
const MAX_POLLS: usize = 20_000;
const TIME_STEP_MS: u64 = 250;
const TIME_STEPS: usize = 80;

fn err_kind(e: &actix_http::error::DispatchError) -> String {
    use actix_http::error::DispatchError as D;
    match e {
        D::Service(_) => "service".into(),
        D::Body(_) => "body".into(),
        D::Upgrade => "io:WriteZero".into(),
        D::Io(e) => format!("io:{:?}", e.kind()),
        D::Parse(_) => "parse".into(),
        D::H2(_) => "h2".into(),
        D::SlowRequestTimeout => "slow".into(),
        D::DisconnectTimeout => "disconnect-timeout".into(),
        D::HandlerDroppedPayload => "dropped-payload".into(),
        D::InternalError => "internal".into(),
        _ => "other".into(),
    }
}

pub fn run_case(case: &Case) -> Option<RunResult> {
    run_case_probe(case, None)
}

/// `probe_at = Some(k)`: stop at the k-th idle point (0-based) and poll the task once
/// spuriously there; `RunResult::probe` tells whether that poll made progress.
pub fn run_case_probe(case: &Case, probe_at: Option<usize>) -> Option<RunResult> {
    let wire = build_wire(&case.reqs)?;
    let wire_len = wire.len();
    let world: Shared = Rc::new(RefCell::new(World {
        credit: [0; 7],
        waiter: Default::default(),
        silent_waiter: None,
        wire,
        wire_pos: 0,
        rops: case.rops.iter().cloned().collect(),
        wops: case.wops.iter().cloned().collect(),
        fops: case.fops.iter().cloned().collect(),
        sops: case.sops.iter().cloned().collect(),
        quantum: case.cfg.quantum.clamp(1, 1024),
        reqs: case.reqs.clone(),
        log: Log::default(),
        consumer: None,
        consumer_steps_left: 0,
        dirty: false,
        cwaker: None,
        consumer_done_waiter: None,
    }));
    let cfg = case.cfg.clone();
    let mut ev: VecDeque<usize> = case.ev.iter().cloned().collect();
    let w2 = world.clone();

    let res = crate::common::block_on_system(async move {
        tokio::time::pause();
        let world = w2;
        let hw = world.clone();
        let svc = fn_service(move |mut req: Request| {
            let rid = req.path().trim_start_matches('/').parse::<usize>().ok().filter(|r| *r < hw.borrow().reqs.len());
            let steps: VecDeque<u8> = match rid {
                Some(r) => hw.borrow().reqs[r].hsteps.iter().cloned().collect(),
                None => VecDeque::new(),
            };
            if let Some(r) = rid {
                hw.borrow_mut().log.called.push(r);
            }
            let payload = req.take_payload();
            let payload = if matches!(payload, Payload::None) { None } else { Some(payload) };
            HandlerFut { world: hw.clone(), rid, req: Some(req), payload, steps }
        });
        let ka = match cfg.ka {
            None => KeepAlive::Os,
            Some(0) => KeepAlive::Disabled,
            Some(n) => KeepAlive::Timeout(Duration::from_secs(n)),
        };
        let factory = HttpService::build()
            .keep_alive(ka)
            .client_request_timeout(Duration::from_secs(cfg.head))
            .client_disconnect_timeout(Duration::from_secs(cfg.disc))
            .h1_allow_half_closed(cfg.half_closed)
            .h1_write_buffer_size(cfg.wbs.max(1))
            .upgrade(fn_service({
                let uw = world.clone();
                move |(_req, framed): (Request, actix_codec::Framed<Sock, actix_http::h1::Codec>)| {
                    uw.borrow_mut().log.upgraded = true;
                    // the upgraded transport inherits the dispatcher's unflushed response bytes
                    let parts = framed.into_parts();
                    let mut buf = parts.write_buf.to_vec();
                    buf.extend_from_slice(UPGRADE_MARKER);
                    UpgradeFut { io: parts.io, buf, pos: 0 }
                }
            }))
            .h1(svc);
        let service = factory.new_service(()).await.expect("service");
        let fut = service.call((Sock(world.clone()), None));
        let mut fut = Box::pin(fut);

        let flag = Arc::new(Flag { woken: AtomicBool::new(false), count: AtomicUsize::new(0) });
        let waker = Waker::from(flag.clone());
        let cflag = Arc::new(Flag { woken: AtomicBool::new(false), count: AtomicUsize::new(0) });
        let cwaker = Waker::from(cflag.clone());
        world.borrow_mut().cwaker = Some(cwaker.clone());

        let mut trace: Vec<String> = Vec::new();
        let mut polls = 0usize;
        let mut consecutive = 0usize;
        let mut idle_points = 0usize;
        let outcome;
        'run: loop {
            flag.woken.store(false, Ordering::SeqCst);
            polls += 1;
            if polls > MAX_POLLS {
                outcome = Outcome::Spin;
                break;
            }
            let mut cx = Context::from_waker(&waker);
            match fut.as_mut().poll(&mut cx) {
                Poll::Ready(Ok(())) => {
                    outcome = Outcome::DoneOk;
                    break;
                }
                Poll::Ready(Err(e)) => {
                    outcome = Outcome::DoneErr(err_kind(&e));
                    break;
                }
                Poll::Pending => {}
            }
            // the other task of the executor: the consumer runs if its own waker has fired
            if run_consumer_if_woken(&world, &cflag, &cwaker) {
                trace.push("C".into());
            }
            let woken = flag.woken.load(Ordering::SeqCst);
            if std::env::var_os("C04_DEBUG").is_some() {
                eprintln!("poll {} -> Pending woken={} waiters={} acc={}", polls, woken, world.borrow().waiters(), world.borrow().log.accepted.len());
            }
            if woken {
                consecutive += 1;
                if consecutive < FAIR {
                    continue;
                }
                // fairness: deliver one external event although the task is runnable
                consecutive = 0;
                deliver_one(&world, &mut ev, &cwaker, &mut trace, true);
                continue;
            }
            consecutive = 0;
            // idle point: the task is Pending and nothing has woken it
            trace.push(format!("I{}", world.borrow().waiters()));
            idle_points += 1;
            if probe_at == Some(idle_points - 1) {
                outcome = Outcome::ProbeStop;
                break 'run;
            }
            loop {
                if run_consumer_if_woken(&world, &cflag, &cwaker) {
                    trace.push("C".into());
                }
                if flag.woken.load(Ordering::SeqCst) {
                    continue 'run;
                }
                if deliver_one(&world, &mut ev, &cwaker, &mut trace, false) {
                    continue;
                }
                // no external event left: let virtual time pass
                let mut fired = false;
                for _ in 0..TIME_STEPS {
                    tokio::time::advance(Duration::from_millis(TIME_STEP_MS)).await;
                    for _ in 0..3 {
                        tokio::task::yield_now().await;
                    }
                    if flag.woken.load(Ordering::SeqCst) {
                        fired = true;
                        break;
                    }
                }
                if fired {
                    trace.push("t".into());
                    continue 'run;
                }
                let w = world.borrow();
                outcome = if w.silent_waiter.is_some() { Outcome::Idle } else { Outcome::Stalled };
                break 'run;
            }
        }
        let leftover = world.borrow().waiters();
        // quiescence probe: a task that is Pending with nothing left that could wake it must not
        // be able to make progress when polled spuriously (else it went to sleep on work it
        // could have done: a lost wake-up)
        let mut probe: Option<String> = None;
        if matches!(outcome, Outcome::Idle | Outcome::Stalled | Outcome::ProbeStop) {
            // Only what the peer can see counts as progress, and only on a side of the socket the
            // task is not already waiting on: with a write/flush/shutdown waker registered,
            // producing or even writing more is deliberately deferred (back-pressure), likewise
            // reading while the read waker is registered.
            let snap = |w: &World| {
                let ws = w.waiters();
                (
                    ws.contains('r') || ws.contains('z'),
                    ws.contains('w') || ws.contains('f') || ws.contains('s'),
                    w.log.accepted.len(),
                    (w.log.wire_read, w.log.read_eof_seen, w.log.read_reset_seen),
                    w.log.shutdown_calls > 0,
                )
            };
            let before = snap(&world.borrow());
            let mut ready = false;
            for _ in 0..PROBE_POLLS {
                flag.woken.store(false, Ordering::SeqCst);
                let mut cx = Context::from_waker(&waker);
                if fut.as_mut().poll(&mut cx).is_ready() {
                    ready = true;
                    break;
                }
                run_consumer_if_woken(&world, &cflag, &cwaker);
                if !flag.woken.load(Ordering::SeqCst) {
                    break;
                }
            }
            let after = snap(&world.borrow());
            if ready && !before.1 {
                probe = Some("completed".into());
            } else if !before.0 && (after.0 || before.3 != after.3) {
                probe = Some(format!("read side was not registered: read waiter {}->{}, input consumed {:?}->{:?}", before.0, after.0, before.3, after.3));
            } else if !before.1 && (after.1 || before.2 != after.2 || before.4 != after.4) {
                probe = Some(format!(
                    "write side was not registered: write waiter {}->{}, accepted {}->{}, shutdown started {}->{}",
                    before.1, after.1, before.2, after.2, before.4, after.4
                ));
            } else if !matches!(outcome, Outcome::ProbeStop) {
                flag.woken.store(false, Ordering::SeqCst);
                for _ in 0..TIME_STEPS {
                    tokio::time::advance(Duration::from_millis(TIME_STEP_MS)).await;
                    for _ in 0..3 {
                        tokio::task::yield_now().await;
                    }
                    if flag.woken.load(Ordering::SeqCst) {
                        probe = Some("armed-a-timer".into());
                        break;
                    }
                }
            }
        }
        drop(fut);
        (outcome, trace, polls, leftover, probe)
    });
    let (outcome, trace, polls, leftover_waiters, probe) = res;
    let mut w = world.borrow_mut();
    w.consumer = None;
    let log = std::mem::take(&mut w.log);
    Some(RunResult { outcome, trace, log, wire_len, polls, leftover_waiters, probe })
}

/// Deliver the next external event.  `forced` = fairness delivery while the task is runnable.
/// Returns false if there is nothing left to deliver.
fn deliver_one(world: &Shared, ev: &mut VecDeque<usize>, cwaker: &Waker, trace: &mut Vec<String>, forced: bool) -> bool {
    if let Some(src) = ev.pop_front() {
        trace.push(format!("{}{}", if forced { "!" } else { "" }, SRC[src] as char));
        if src == C {
            // a consumer parked on a wake-driven step runs only when its waker fires
            if !consumer_parked(world) {
                consumer_step(world, cwaker);
            }
        } else {
            world.borrow_mut().fire(src);
        }
        return true;
    }
    // script exhausted: serve whoever is waiting, in fixed order; then the consumer task
    let mut any = false;
    for src in 0..6 {
        let has = world.borrow().waiter[src].is_some();
        if has {
            trace.push(format!("{}{}", if forced { "!" } else { "" }, SRC[src] as char));
            world.borrow_mut().fire(src);
            any = true;
            if forced {
                return true;
            }
        }
    }
    if any {
        return true;
    }
    let has_consumer = world.borrow().consumer.is_some() && !consumer_parked(world);
    if has_consumer {
        trace.push(format!("{}c", if forced { "!" } else { "" }));
        consumer_step(world, cwaker);
        return true;
    }
    false
}
