//! C06 run-time helpers: a scripted in-memory transport, a scripted service, and a
//! virtual-time driver that polls the real `h1::Dispatcher` (obtained through
//! `HttpService::build()…h1(svc)` → `new_service(())` → `call((io, None))`) exactly when
//!   * a scripted event is due (bytes arrive, EOF, transport mode change, spurious wake), or
//!   * the connection's own waker fired (one of its three timers, the handler / body sleep,
//!     the graceful-shutdown signal, a self-wake).
//! The tokio clock is paused from the start of a fresh runtime, so all instants are exact
//! integer milliseconds relative to the creation of the service (`t = 0`).
use std::{
    cell::RefCell,
    collections::VecDeque,
    future::Future,
    io,
    pin::Pin,
    rc::Rc,
    sync::{
        atomic::{AtomicBool, Ordering},
        Arc, Mutex,
    },
    task::{Context, Poll, Wake, Waker},
    time::Duration,
};

use actix_http::{
    body::{BodySize, BoxBody, MessageBody},
    HttpService, KeepAlive, Request, Response,
};
use actix_service::{fn_service, Service as _, ServiceFactory as _};
use bytes::Bytes;
use tokio::{
    io::{AsyncRead, AsyncWrite, ReadBuf},
    time::{sleep_until, Instant, Sleep},
};

// ---------------------------------------------------------------------------------------------
// case description

#[derive(Clone, Copy, Debug, PartialEq, Eq)]
pub enum Ka {
    Off,
    Os,
    Ms(u64),
}

#[derive(Clone, Copy, Debug, PartialEq, Eq)]
pub enum BodyKind {
    /// `Sized(0)`
    Empty,
    /// `Sized(2)`, one chunk, ready at once
    Small,
    /// `Stream`: chunk, then Pending for `gap` ms, chunk, end
    Stream(u64),
    /// the handler resolves to `Err`: 500 error response with an empty body
    ErrEmpty,
    /// the handler resolves to `Err`: 500 error response with a 2-byte body
    ErrSmall,
}

#[derive(Clone, Debug, PartialEq, Eq)]
pub enum Ev {
    /// bytes of these abstract tokens arrive (G C a b P d X)
    Bytes(String),
    Eof,
    Wake,
    WriteBlock(bool),
    FlushBlock(bool),
    ShutdownReady(bool),
}

#[derive(Clone, Debug)]
pub struct Case {
    pub t_req: u64,
    pub ka: Ka,
    pub d_disc: u64,
    pub half_closed: bool,
    pub signal: Option<u64>,
    pub accept: u64,
    pub horizon: u64,
    pub sd_ready: bool,
    pub handlers: Vec<(u64, BodyKind)>,
    pub events: Vec<(u64, Ev)>,
}

pub fn token_bytes(c: char) -> Option<&'static [u8]> {
    Some(match c {
        'G' => b"GET /k HTTP/1.1\r\nhost: x\r\n\r\n",
        'C' => b"GET /c HTTP/1.1\r\nhost: x\r\nconnection: close\r\n\r\n",
        'a' => b"GET /k HT",
        'b' => b"TP/1.1\r\nhost: x\r\n\r\n",
        'P' => b"POST /p HTTP/1.1\r\nhost: x\r\ncontent-length: 4\r\n\r\n",
        'd' => b"body",
        'X' => b"\x01\x02 bad\r\n\r\n",
        _ => return None,
    })
}

pub fn parse_case(line: &str) -> Result<Case, String> {
    let mut c = Case {
        t_req: 0,
        ka: Ka::Off,
        d_disc: 0,
        half_closed: true,
        signal: None,
        accept: 0,
        horizon: 30_000,
        sd_ready: true,
        handlers: vec![],
        events: vec![],
    };
    for w in line.split_ascii_whitespace() {
        if let Some((k, v)) = w.split_once('=') {
            let num = || v.parse::<u64>().map_err(|_| format!("bad number in {w}"));
            match k {
                "T" => c.t_req = num()?,
                "K" => {
                    c.ka = match v {
                        "off" => Ka::Off,
                        "os" => Ka::Os,
                        _ => match num()? {
                            0 => Ka::Off,
                            n => Ka::Ms(n),
                        },
                    }
                }
                "D" => c.d_disc = num()?,
                "hc" => c.half_closed = v != "0",
                "S" => c.signal = Some(num()?),
                "A" => c.accept = num()?,
                "H" => c.horizon = num()?,
                "sd" => c.sd_ready = v != "p",
                "h" => {
                    for part in v.split(',') {
                        let (d, b) = part.split_once(':').ok_or_else(|| format!("bad handler {part}"))?;
                        let d = d.parse::<u64>().map_err(|_| format!("bad handler delay {part}"))?;
                        let b = match b.as_bytes().first() {
                            Some(b'e') => BodyKind::Empty,
                            Some(b's') => BodyKind::Small,
                            Some(b'x') => BodyKind::ErrEmpty,
                            Some(b'y') => BodyKind::ErrSmall,
                            Some(b't') => BodyKind::Stream(
                                b[1..].parse::<u64>().map_err(|_| format!("bad stream gap {part}"))?,
                            ),
                            _ => return Err(format!("bad body kind {part}")),
                        };
                        c.handlers.push((d, b));
                    }
                }
                _ => return Err(format!("unknown key {k}")),
            }
        } else if let Some((t, e)) = w.split_once(':') {
            let t = t.parse::<u64>().map_err(|_| format!("bad time in {w}"))?;
            let ev = match e {
                "E" => Ev::Eof,
                "w" => Ev::Wake,
                "wb" => Ev::WriteBlock(true),
                "wu" => Ev::WriteBlock(false),
                "fb" => Ev::FlushBlock(true),
                "fu" => Ev::FlushBlock(false),
                "sr" => Ev::ShutdownReady(true),
                "sp" => Ev::ShutdownReady(false),
                s if !s.is_empty() && s.chars().all(|ch| token_bytes(ch).is_some()) => Ev::Bytes(s.to_owned()),
                _ => return Err(format!("bad event {w}")),
            };
            c.events.push((t, ev));
        } else {
            return Err(format!("bad word {w}"));
        }
    }
    // events are applied in time order (stable)
    c.events.sort_by_key(|e| e.0);
    Ok(c)
}

// ---------------------------------------------------------------------------------------------
// observations

#[derive(Clone, Debug, PartialEq, Eq)]
pub enum Rec {
    /// handler called: (time, path letter k/c/p)
    Call(u64, char),
    /// response items written to the socket at `time`
    Head(u64, u16, bool),
    End(u64),
    /// poll_shutdown called (time, returned Ready)
    Shut(u64, bool),
    Done(u64, String),
    Hang,
    Livelock(u64),
}

pub fn show(recs: &[Rec]) -> String {
    let mut out: Vec<String> = Vec::new();
    for r in recs {
        let s = match r {
            Rec::Call(t, p) => format!("c{t}:{p}"),
            Rec::Head(t, st, close) => format!("h{t}:{st}{}", if *close { 'c' } else { 'k' }),
            Rec::End(t) => format!("e{t}"),
            Rec::Shut(t, r) => format!("s{t}{}", if *r { 'r' } else { 'p' }),
            Rec::Done(t, k) => format!("D{t}:{k}"),
            Rec::Hang => "HANG".to_owned(),
            Rec::Livelock(t) => format!("LIVELOCK{t}"),
        };
        // consecutive identical records (several polls at one instant) are one observation
        if out.last() != Some(&s) {
            out.push(s);
        }
    }
    out.join(" ")
}

/// incremental parser of the response byte stream → Head / End records
#[derive(Default)]
struct RespParser {
    buf: Vec<u8>,
    /// None = expecting a head; Some(Len(n)) / Some(Chunked)
    body: Option<BodyState>,
}

enum BodyState {
    Len(usize),
    Chunked,
}

fn find(h: &[u8], n: &[u8]) -> Option<usize> {
    h.windows(n.len()).position(|w| w == n)
}

impl RespParser {
    fn feed(&mut self, t: u64, bytes: &[u8], out: &mut Vec<Rec>) {
        self.buf.extend_from_slice(bytes);
        loop {
            match self.body {
                None => {
                    let Some(p) = find(&self.buf, b"\r\n\r\n") else { return };
                    let head = String::from_utf8_lossy(&self.buf[..p]).to_ascii_lowercase();
                    self.buf.drain(..p + 4);
                    let status: u16 = head.get(9..12).and_then(|s| s.parse().ok()).unwrap_or(0);
                    if status == 100 {
                        continue;
                    }
                    let mut close = false;
                    let mut len = None;
                    let mut chunked = false;
                    for l in head.split("\r\n").skip(1) {
                        if let Some((k, v)) = l.split_once(':') {
                            let v = v.trim();
                            match k.trim() {
                                "connection" => close = v.contains("close"),
                                "content-length" => len = v.parse::<usize>().ok(),
                                "transfer-encoding" => chunked = v.contains("chunked"),
                                _ => {}
                            }
                        }
                    }
                    out.push(Rec::Head(t, status, close));
                    self.body = Some(if chunked { BodyState::Chunked } else { BodyState::Len(len.unwrap_or(0)) });
                }
                Some(BodyState::Len(n)) => {
                    if self.buf.len() < n {
                        return;
                    }
                    self.buf.drain(..n);
                    out.push(Rec::End(t));
                    self.body = None;
                }
                Some(BodyState::Chunked) => {
                    let Some(p) = find(&self.buf, b"\r\n") else { return };
                    let sz = usize::from_str_radix(&String::from_utf8_lossy(&self.buf[..p]), 16).unwrap_or(0);
                    if self.buf.len() < p + 2 + sz + 2 {
                        return;
                    }
                    self.buf.drain(..p + 2 + sz + 2);
                    if sz == 0 {
                        out.push(Rec::End(t));
                        self.body = None;
                    }
                }
            }
        }
    }
}

// ---------------------------------------------------------------------------------------------
// shared world

struct World {
    base: Instant,
    inq: VecDeque<Vec<u8>>,
    eof: bool,
    write_blocked: bool,
    flush_blocked: bool,
    shutdown_ready: bool,
    parser: RespParser,
    recs: Vec<Rec>,
    calls: usize,
    handlers: Vec<(u64, BodyKind)>,
}

impl World {
    fn now(&self) -> u64 {
        (Instant::now() - self.base).as_millis() as u64
    }
}

type Shared = Rc<RefCell<World>>;

struct Sock(Shared);

impl AsyncRead for Sock {
    fn poll_read(self: Pin<&mut Self>, _: &mut Context<'_>, buf: &mut ReadBuf<'_>) -> Poll<io::Result<()>> {
        let mut w = self.0.borrow_mut();
        if let Some(mut chunk) = w.inq.pop_front() {
            let n = chunk.len().min(buf.remaining());
            buf.put_slice(&chunk[..n]);
            if n < chunk.len() {
                chunk.drain(..n);
                w.inq.push_front(chunk);
            }
            Poll::Ready(Ok(()))
        } else if w.eof {
            Poll::Ready(Ok(()))
        } else {
            // every scripted arrival is followed by a forced poll: no read waker is needed
            Poll::Pending
        }
    }
}

impl AsyncWrite for Sock {
    fn poll_write(self: Pin<&mut Self>, _: &mut Context<'_>, buf: &[u8]) -> Poll<io::Result<usize>> {
        let mut w = self.0.borrow_mut();
        if w.write_blocked {
            return Poll::Pending;
        }
        let t = w.now();
        let World { parser, recs, .. } = &mut *w;
        parser.feed(t, buf, recs);
        Poll::Ready(Ok(buf.len()))
    }
    fn poll_flush(self: Pin<&mut Self>, _: &mut Context<'_>) -> Poll<io::Result<()>> {
        if self.0.borrow().flush_blocked {
            Poll::Pending
        } else {
            Poll::Ready(Ok(()))
        }
    }
    fn poll_shutdown(self: Pin<&mut Self>, _: &mut Context<'_>) -> Poll<io::Result<()>> {
        let mut w = self.0.borrow_mut();
        let t = w.now();
        let r = w.shutdown_ready;
        w.recs.push(Rec::Shut(t, r));
        if r {
            Poll::Ready(Ok(()))
        } else {
            Poll::Pending
        }
    }
}

/// `Stream` body: "ab", Pending for `gap` ms (sleep created at the first Pending poll), "cd", end
struct GapBody {
    phase: u8,
    gap: u64,
    sleep: Option<Pin<Box<Sleep>>>,
}

impl MessageBody for GapBody {
    type Error = std::convert::Infallible;
    fn size(&self) -> BodySize {
        BodySize::Stream
    }
    fn poll_next(mut self: Pin<&mut Self>, cx: &mut Context<'_>) -> Poll<Option<Result<Bytes, Self::Error>>> {
        match self.phase {
            0 => {
                self.phase = 1;
                Poll::Ready(Some(Ok(Bytes::from_static(b"ab"))))
            }
            1 => {
                let gap = self.gap;
                if gap > 0 {
                    let sl = self
                        .sleep
                        .get_or_insert_with(|| Box::pin(sleep_until(Instant::now() + Duration::from_millis(gap))));
                    if sl.as_mut().poll(cx).is_pending() {
                        return Poll::Pending;
                    }
                }
                self.phase = 2;
                Poll::Ready(Some(Ok(Bytes::from_static(b"cd"))))
            }
            _ => Poll::Ready(None),
        }
    }
}

// ---------------------------------------------------------------------------------------------
// wakers / small futures

struct FlagWaker {
    flag: AtomicBool,
    outer: Mutex<Option<Waker>>,
}

impl Wake for FlagWaker {
    fn wake(self: Arc<Self>) {
        self.wake_by_ref()
    }
    fn wake_by_ref(self: &Arc<Self>) {
        self.flag.store(true, Ordering::SeqCst);
        if let Some(w) = self.outer.lock().unwrap().as_ref() {
            w.wake_by_ref();
        }
    }
}

struct YieldOnce(bool);
impl Future for YieldOnce {
    type Output = ();
    fn poll(mut self: Pin<&mut Self>, cx: &mut Context<'_>) -> Poll<()> {
        if self.0 {
            Poll::Ready(())
        } else {
            self.0 = true;
            cx.waker().wake_by_ref();
            Poll::Pending
        }
    }
}

struct WaitFlagOr<'a> {
    fw: &'a Arc<FlagWaker>,
    sleep: Pin<Box<Sleep>>,
}
impl Future for WaitFlagOr<'_> {
    type Output = ();
    fn poll(mut self: Pin<&mut Self>, cx: &mut Context<'_>) -> Poll<()> {
        *self.fw.outer.lock().unwrap() = Some(cx.waker().clone());
        if self.fw.flag.load(Ordering::SeqCst) {
            return Poll::Ready(());
        }
        self.sleep.as_mut().poll(cx)
    }
}

const MAX_POLLS_PER_INSTANT: usize = 64;

/// Run one case against the real dispatcher; returns the observation records.
pub fn run_case(case: &Case) -> Vec<Rec> {
    let rt = actix_rt::System::with_tokio_rt(|| {
        tokio::runtime::Builder::new_current_thread()
            .enable_all()
            .start_paused(true)
            .build()
            .unwrap()
    });
    let case = case.clone();
    rt.block_on(async move { drive(case).await })
}

async fn drive(case: Case) -> Vec<Rec> {
    let base = Instant::now();
    let world: Shared = Rc::new(RefCell::new(World {
        base,
        inq: VecDeque::new(),
        eof: false,
        write_blocked: false,
        flush_blocked: false,
        shutdown_ready: case.sd_ready,
        parser: RespParser::default(),
        recs: vec![],
        calls: 0,
        handlers: case.handlers.clone(),
    }));

    let w2 = world.clone();
    let svc = fn_service(move |req: Request| {
        let w = w2.clone();
        async move {
            let (delay, body) = {
                let mut wm = w.borrow_mut();
                let i = wm.calls;
                wm.calls += 1;
                let t = wm.now();
                let p = req.path().chars().nth(1).unwrap_or('?');
                wm.recs.push(Rec::Call(t, p));
                if wm.handlers.is_empty() {
                    (0, BodyKind::Empty)
                } else {
                    wm.handlers[i.min(wm.handlers.len() - 1)]
                }
            };
            if delay > 0 {
                sleep_until(Instant::now() + Duration::from_millis(delay)).await;
            }
            drop(req);
            let res: Response<BoxBody> = match body {
                BodyKind::Empty => Response::ok(),
                BodyKind::Small => Response::ok().set_body(BoxBody::new(Bytes::from_static(b"ok"))),
                BodyKind::Stream(gap) => Response::ok().set_body(BoxBody::new(GapBody { phase: 0, gap, sleep: None })),
                // service errors go through `send_error_response`
                BodyKind::ErrEmpty => return Err(Response::internal_server_error()),
                BodyKind::ErrSmall => {
                    return Err(Response::internal_server_error().set_body(BoxBody::new(Bytes::from_static(b"er"))))
                }
            };
            Ok::<_, Response<BoxBody>>(res)
        }
    });

    let mut b = HttpService::build()
        .client_request_timeout(Duration::from_millis(case.t_req))
        .client_disconnect_timeout(Duration::from_millis(case.d_disc))
        .h1_allow_half_closed(case.half_closed);
    b = match case.ka {
        Ka::Off => b.keep_alive(KeepAlive::Disabled),
        Ka::Os => b.keep_alive(KeepAlive::Os),
        Ka::Ms(n) => b.keep_alive(Duration::from_millis(n)),
    };
    if let Some(s) = case.signal {
        b = b.graceful_shutdown_signal(move || sleep_until(base + Duration::from_millis(s)));
    }
    let factory = b.h1(svc);
    let service = factory.new_service(()).await.expect("new_service");
    // let the DateService task run its first tick: cached clock := paused now (t = 0)
    YieldOnce(false).await;

    let fw = Arc::new(FlagWaker { flag: AtomicBool::new(false), outer: Mutex::new(None) });
    let waker = Waker::from(fw.clone());

    // the connection is accepted (dispatcher created and first polled) at `accept`
    if case.accept > 0 {
        sleep_until(base + Duration::from_millis(case.accept)).await;
        YieldOnce(false).await;
    }
    let mut conn = Box::pin(service.call((Sock(world.clone()), None)));
    fw.flag.store(true, Ordering::SeqCst);

    let mut idx = 0usize;
    loop {
        let next_t = case.events.get(idx).map(|e| e.0.max(case.accept)).unwrap_or(u64::MAX).min(case.horizon);
        WaitFlagOr { fw: &fw, sleep: Box::pin(sleep_until(base + Duration::from_millis(next_t))) }.await;
        // timers that expire at this very instant (date tick, signal, handler sleeps) run first
        YieldOnce(false).await;
        let now = world.borrow().now();
        if now >= case.horizon {
            world.borrow_mut().recs.push(Rec::Hang);
            break;
        }
        while idx < case.events.len() && case.events[idx].0.max(case.accept) <= now {
            let mut w = world.borrow_mut();
            match &case.events[idx].1 {
                Ev::Bytes(s) => {
                    let mut v = Vec::new();
                    for ch in s.chars() {
                        v.extend_from_slice(token_bytes(ch).unwrap());
                    }
                    w.inq.push_back(v);
                }
                Ev::Eof => w.eof = true,
                Ev::Wake => {}
                Ev::WriteBlock(x) => w.write_blocked = *x,
                Ev::FlushBlock(x) => w.flush_blocked = *x,
                Ev::ShutdownReady(x) => w.shutdown_ready = *x,
            }
            idx += 1;
            fw.flag.store(true, Ordering::SeqCst);
        }
        let mut n = 0;
        let mut finished = false;
        while fw.flag.swap(false, Ordering::SeqCst) {
            n += 1;
            if n > MAX_POLLS_PER_INSTANT {
                world.borrow_mut().recs.push(Rec::Livelock(now));
                finished = true;
                break;
            }
            let mut cx = Context::from_waker(&waker);
            if let Poll::Ready(r) = conn.as_mut().poll(&mut cx) {
                let kind = match r {
                    Ok(()) => "ok".to_owned(),
                    Err(e) => format!("err:{}", err_kind(&e)),
                };
                world.borrow_mut().recs.push(Rec::Done(now, kind));
                finished = true;
                break;
            }
        }
        if finished {
            break;
        }
    }
    drop(conn);
    let recs = std::mem::take(&mut world.borrow_mut().recs);
    recs
}

fn err_kind(e: &actix_http::error::DispatchError) -> &'static str {
    use actix_http::error::DispatchError as E;
    match e {
        E::DisconnectTimeout => "disconnect-timeout",
        E::SlowRequestTimeout => "slow-request",
        E::Io(_) => "io",
        E::Parse(_) => "parse",
        E::Body(_) => "body",
        E::Upgrade => "upgrade",
        E::InternalError => "internal",
        E::Service(_) => "service",
        _ => "other",
    }
}
