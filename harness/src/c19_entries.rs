//! C19 entry points: the real code, driven through its public API.
use std::{
    collections::HashMap,
    pin::Pin,
    str::FromStr,
    sync::OnceLock,
    task::{Context, Poll},
};

use actix_codec::Decoder as _;
use actix_http::{h1, ws, HttpMessage as _};
use actix_web::{
    http::header::{self, Header as _, HeaderMap, HeaderName, HeaderValue},
    test::TestRequest,
    web, App, FromRequest as _, HttpRequest, HttpResponse,
};
use bytes::{Bytes, BytesMut};
use futures_core::Stream;
use futures_util::StreamExt as _;
use serde::Deserialize;

use super::{
    c19_sock::{drive, drive_sync, Driven, Sock},
    Case, Out,
};
use crate::common::{block_on_system, hex};

pub fn dispatch(c: &Case<'_>) -> Out {
    match c.entry {
        // ---- entries with a panic-explicit Lean model
        "chunk" => body(c, b"POST / HTTP/1.1\r\ntransfer-encoding: chunked\r\n\r\n".to_vec()),
        "len" => {
            let n = c.kv("n").unwrap_or("1");
            body(c, format!("POST / HTTP/1.1\r\ncontent-length: {n}\r\n\r\n").into_bytes())
        }
        "chunkf" => {
            let mut o = body(c, b"POST / HTTP/1.1\r\ntransfer-encoding: chunked\r\n\r\n".to_vec());
            if o.hang.is_none() {
                o.output = "nopanic".to_owned();
            }
            o
        }
        "cl" => content_length(c),
        "ws" => ws_parse(c),
        "range" => range_hdr(c),
        "rpath" => rpath(c),
        "frange" => frange(c),
        "infom" => conninfo(c, true),
        "cdm" => content_disposition_m(c),
        // ---- pure fuzz entries
        "info" => conninfo(c, false),
        "app" => app(c),
        "h1cli" => h1_client(c),
        "wscodec" => ws_codec(c),
        "mp" => multipart(c),
        "router" => router(c),
        "files" => files(c),
        "query" => query(c),
        "form" => form(c),
        "pathde" => pathde(c),
        "hdr" => typed_header(c),
        "cd" => content_disposition(c),
        "cookie" => cookie(c),
        "fullurl" => full_url(c),
        _ => Out::new("bad-entry"),
    }
}

// ------------------------------------------------------------------------------------------
// modelled: chunked / length body decoder through h1::Codec

fn body(c: &Case<'_>, head: Vec<u8>) -> Out {
    let segs = c.segs();
    super::block_on_reused(async move {
        let mut codec = h1::Codec::default();
        let mut buf = BytesMut::from(&head[..]);
        match codec.decode(&mut buf) {
            Ok(Some(h1::Message::Item(_))) => {}
            _ => return Out::new("head-fail"),
        }
        let mut delivered = 0usize;
        let total_rest = |from: usize| segs[from..].iter().map(|s| s.len()).sum::<usize>();
        for (i, seg) in segs.iter().enumerate() {
            buf.extend_from_slice(seg);
            let budget = buf.len() * 2 + 16;
            let mut iters = 0usize;
            loop {
                iters += 1;
                if iters > budget {
                    return Out::new("HANG").hang("body decode loop exceeded 2*len+16 iterations");
                }
                match codec.decode(&mut buf) {
                    Ok(Some(h1::Message::Chunk(Some(b)))) => delivered += b.len(),
                    Ok(Some(h1::Message::Chunk(None))) => {
                        let left = buf.len() + total_rest(i + 1);
                        return Out::new(format!("ok n={delivered} eof=1 left={left}")).tag("body:eof").nt(true);
                    }
                    Ok(Some(h1::Message::Item(_))) => return Out::new("unexpected-item"),
                    Ok(None) => break,
                    Err(_) => return Out::new("err").tag("body:err").nt(delivered > 0),
                }
            }
        }
        Out::new(format!("ok n={delivered} eof=0 left={}", buf.len())).tag("body:more").nt(delivered > 0)
    })
}

fn content_length(c: &Case<'_>) -> Out {
    let mut head = b"GET / HTTP/1.1\r\nContent-Length: ".to_vec();
    head.extend_from_slice(&c.bytes);
    head.extend_from_slice(b"\r\n\r\n");
    super::block_on_reused(async move {
        let mut codec = h1::Codec::default();
        let mut buf = BytesMut::from(&head[..]);
        match codec.decode(&mut buf) {
            Ok(Some(h1::Message::Item(_))) => match codec.message_type() {
                h1::MessageType::None => Out::new("ok0").tag("cl:ok0").nt(true),
                h1::MessageType::Payload => Out::new("okN").tag("cl:okN").nt(true),
                h1::MessageType::Stream => Out::new("stream"),
            },
            Ok(Some(_)) => Out::new("chunk?"),
            Ok(None) => Out::new("partial"),
            Err(_) => Out::new("err").tag("cl:err"),
        }
    })
}

// ------------------------------------------------------------------------------------------
// modelled: ws Parser::parse (+ parse_close_payload)

fn op_name(op: ws::OpCode) -> &'static str {
    match op {
        ws::OpCode::Continue => "cont",
        ws::OpCode::Text => "text",
        ws::OpCode::Binary => "bin",
        ws::OpCode::Close => "close",
        ws::OpCode::Ping => "ping",
        ws::OpCode::Pong => "pong",
        ws::OpCode::Bad => "bad",
    }
}

fn ws_err(e: &ws::ProtocolError) -> &'static str {
    match e {
        ws::ProtocolError::UnmaskedFrame => "UnmaskedFrame",
        ws::ProtocolError::MaskedFrame => "MaskedFrame",
        ws::ProtocolError::InvalidOpcode(_) => "InvalidOpcode",
        ws::ProtocolError::InvalidLength(_) => "InvalidLength",
        ws::ProtocolError::BadOpCode => "BadOpCode",
        ws::ProtocolError::Overflow => "Overflow",
        ws::ProtocolError::ContinuationNotStarted => "ContinuationNotStarted",
        ws::ProtocolError::ContinuationStarted => "ContinuationStarted",
        ws::ProtocolError::ContinuationFragment(_) => "ContinuationFragment",
        ws::ProtocolError::Io(_) => "Io",
    }
}

fn ws_parse(c: &Case<'_>) -> Out {
    let server = c.kv("role") == Some("s");
    let max = c.kv_u64("max", 65536) as usize;
    let mut buf = BytesMut::from(&c.bytes[..]);
    match ws::Parser::parse(&mut buf, server, max) {
        Ok(None) => Out::new("none").tag("ws:none"),
        Err(e) => Out::new(format!("err:{}", ws_err(&e))).tag(format!("ws:err:{}", ws_err(&e))),
        Ok(Some((fin, op, pl))) => {
            let close = if op == ws::OpCode::Close {
                match &pl {
                    None => " cc=-".to_owned(),
                    Some(p) => match ws::Parser::parse_close_payload(p) {
                        Some(r) => format!(" cc={},{}", u16::from(r.code), r.description.is_some() as u8),
                        None => " cc=-".to_owned(),
                    },
                }
            } else {
                String::new()
            };
            let pls = pl.as_ref().map(|p| p.len().to_string()).unwrap_or_else(|| "-".into());
            Out::new(format!("ok fin={} op={} pl={} rest={}{}", fin as u8, op_name(op), pls, buf.len(), close))
                .tag(format!("ws:ok:{}", op_name(op)))
                .nt(true)
        }
    }
}

// ------------------------------------------------------------------------------------------
// modelled: actix-web `Range` typed header + ByteRangeSpec::to_satisfiable_range

fn hv(bytes: &[u8]) -> Option<HeaderValue> {
    HeaderValue::from_bytes(bytes).ok()
}

fn range_hdr(c: &Case<'_>) -> Out {
    let fl = c.kv_u64("fl", 1000);
    let Some(v) = hv(&c.bytes) else { return Out::new("badhv").tag("range:badhv") };
    let req = TestRequest::default().insert_header((header::RANGE, v)).to_http_request();
    match header::Range::parse(&req) {
        Err(_) => Out::new("err").tag("range:err"),
        Ok(header::Range::Unregistered(u, r)) => {
            Out::new(format!("unreg {} {}", hex(u.as_bytes()), hex(r.as_bytes()))).tag("range:unreg").nt(true)
        }
        Ok(header::Range::Bytes(specs)) => {
            let sp: Vec<String> = specs
                .iter()
                .map(|s| match s {
                    header::ByteRangeSpec::FromTo(a, b) => format!("{a}-{b}"),
                    header::ByteRangeSpec::From(a) => format!("{a}-"),
                    header::ByteRangeSpec::Last(n) => format!("-{n}"),
                })
                .collect();
            let sat: Vec<String> = specs
                .iter()
                .map(|s| match s.to_satisfiable_range(fl) {
                    Some((a, b)) => format!("{a}-{b}"),
                    None => "x".to_owned(),
                })
                .collect();
            Out::new(format!("bytes {} sat={}", sp.join(","), sat.join(","))).tag("range:bytes").nt(true)
        }
    }
}

// ------------------------------------------------------------------------------------------
// modelled: actix-router u16 offsets.  path = "/" + 'x'*l1 + "/" + 'x'*l2 …; prefix("/{a}"),
// prefix("/{b}") … applied in turn (as nested scopes do).

fn rdefs() -> &'static Vec<actix_router::ResourceDef> {
    static R: OnceLock<Vec<actix_router::ResourceDef>> = OnceLock::new();
    R.get_or_init(|| ["/{a}", "/{b}", "/{c}", "/{d}"].iter().map(|p| actix_router::ResourceDef::prefix(*p)).collect())
}

fn rpath(c: &Case<'_>) -> Out {
    let lens: Vec<usize> = c.kv("lens").unwrap_or("").split(',').filter_map(|x| x.parse().ok()).collect();
    // `pre=4,10`: static prefixes ("/ppp", "/ppppppppp") consumed first, as nested scopes do
    let pre: Vec<usize> = c.kv("pre").unwrap_or("").split(',').filter_map(|x| x.parse().ok()).filter(|n| *n >= 2).collect();
    let mut s = String::new();
    let mut prefixes: Vec<String> = Vec::new();
    for n in &pre {
        let mut p = String::from("/");
        for _ in 1..*n {
            p.push('p');
        }
        s.push_str(&p);
        prefixes.push(p);
    }
    for l in &lens {
        s.push('/');
        for _ in 0..*l {
            s.push('x');
        }
    }
    let k = (c.kv_u64("k", 4) as usize).min(4);
    let mut path = actix_router::Path::new(s.as_str());
    for p in &prefixes {
        if !actix_router::ResourceDef::prefix(p.as_str()).capture_match_info(&mut path) {
            return Out::new("static-miss");
        }
    }
    let mut matched = 0usize;
    for rd in rdefs().iter().take(k) {
        if rd.capture_match_info(&mut path) {
            matched += 1;
        } else {
            break;
        }
    }
    let g: Vec<String> = ["a", "b", "c", "d"]
        .iter()
        .map(|n| path.get(n).map(|v| v.len().to_string()).unwrap_or_else(|| "-".into()))
        .collect();
    let it: usize = path.iter().map(|(_, v)| v.len()).sum();
    let un = path.unprocessed().len();
    Out::new(format!("ok m={matched} g={} it={it} un={un}", g.join(","))).tag(format!("rpath:m{matched}")).nt(matched > 0)
}

// ------------------------------------------------------------------------------------------
// modelled: actix-files NamedFile range arithmetic

pub fn files_dir() -> &'static std::path::PathBuf {
    static D: OnceLock<std::path::PathBuf> = OnceLock::new();
    D.get_or_init(|| {
        // remove the directories of earlier runs whose process is gone
        if let Ok(rd) = std::fs::read_dir(std::env::temp_dir()) {
            for e in rd.flatten() {
                if let Some(pid) = e.file_name().to_str().and_then(|n| n.strip_prefix("vh-c19-")).and_then(|p| p.parse::<u32>().ok()) {
                    if !std::path::Path::new(&format!("/proc/{pid}")).exists() {
                        let _ = std::fs::remove_dir_all(e.path());
                    }
                }
            }
        }
        let d = std::env::temp_dir().join(format!("vh-c19-{}", std::process::id()));
        let _ = std::fs::create_dir_all(d.join("dir"));
        let _ = std::fs::write(d.join("size0"), b"");
        let _ = std::fs::write(d.join("size1"), b"a");
        let _ = std::fs::write(d.join("size10"), b"0123456789");
        let _ = std::fs::write(d.join("size1000"), vec![b'z'; 1000]);
        let _ = std::fs::write(d.join("a.txt"), b"hello file");
        let _ = std::fs::write(d.join("sp ace.txt"), b"space");
        let _ = std::fs::write(d.join(".hidden"), b"hidden");
        let _ = std::fs::write(d.join("dir").join("index.html"), b"<html></html>");
        d
    })
}

fn frange(c: &Case<'_>) -> Out {
    let size = c.kv_u64("size", 10);
    let file = files_dir().join(format!("size{size}"));
    let Some(v) = hv(&c.bytes) else { return Out::new("badhv").tag("frange:badhv") };
    let req = TestRequest::default().insert_header((header::RANGE, v)).to_http_request();
    let nf = match actix_files::NamedFile::open(&file) {
        Ok(f) => f,
        Err(_) => return Out::new("nofile"),
    };
    let res = nf.into_response(&req);
    let st = res.status().as_u16();
    let cr = res
        .headers()
        .get(header::CONTENT_RANGE)
        .map(|v| format!(" cr={}", hex(v.as_bytes())))
        .unwrap_or_default();
    let len = match actix_web::body::MessageBody::size(res.body()) {
        actix_web::body::BodySize::Sized(n) => format!(" len={n}"),
        actix_web::body::BodySize::None => " len=none".to_owned(),
        actix_web::body::BodySize::Stream => " len=stream".to_owned(),
    };
    Out::new(format!("{st}{cr}{len}")).tag(format!("frange:{st}")).nt(st == 206)
}

// ------------------------------------------------------------------------------------------
// ConnectionInfo (modelled: prints the result; fuzz: nopanic)

fn conninfo(c: &Case<'_>, modelled: bool) -> Out {
    let mut req = TestRequest::default();
    let mut bad = false;
    let mut add = |req: TestRequest, name: &'static str, key: &str| -> TestRequest {
        match c.kv_bytes(key) {
            None => req,
            Some(b) => match hv(&b) {
                Some(v) => req.append_header((HeaderName::from_static(name), v)),
                None => {
                    bad = true;
                    req
                }
            },
        }
    };
    req = add(req, "forwarded", "f");
    req = add(req, "forwarded", "f2");
    req = add(req, "x-forwarded-for", "xf");
    req = add(req, "x-forwarded-proto", "xp");
    req = add(req, "x-forwarded-host", "xh");
    req = add(req, "host", "h");
    if bad {
        return Out::new(if modelled { "badhv" } else { "nopanic" }).tag("info:badhv");
    }
    let req = req.to_http_request();
    let ci = req.connection_info();
    let host = ci.host().to_owned();
    let scheme = ci.scheme().to_owned();
    let realip = ci.realip_remote_addr().map(|s| s.to_owned());
    let nt = realip.is_some() || scheme != "http" || host != "localhost:8080";
    if modelled {
        Out::new(format!(
            "host={} scheme={} realip={}",
            hex(host.as_bytes()),
            hex(scheme.as_bytes()),
            realip.map(|r| hex(r.as_bytes())).unwrap_or_else(|| "~".into())
        ))
        .tag("info:ok")
        .nt(nt)
    } else {
        Out::nopanic().tag("info:ok").nt(nt)
    }
}

// ------------------------------------------------------------------------------------------
// modelled: ContentDisposition::from_raw (inputs without `*`: extended parameters go through the
// unmodelled `parse_extended_value`)

fn content_disposition_m(c: &Case<'_>) -> Out {
    if c.bytes.contains(&b'*') {
        return Out::new("unmodelled").tag("cdm:ext");
    }
    let Some(v) = hv(&c.bytes) else { return Out::new("badhv").tag("cdm:badhv") };
    match header::ContentDisposition::from_raw(&v) {
        Err(_) => Out::new("err").tag("cdm:err"),
        Ok(cd) => {
            let t = match &cd.disposition {
                header::DispositionType::Inline => "inline".to_owned(),
                header::DispositionType::Attachment => "attachment".to_owned(),
                header::DispositionType::FormData => "form-data".to_owned(),
                header::DispositionType::Ext(s) => format!("ext:{}", hex(s.as_bytes())),
            };
            let ps: Vec<String> = cd
                .parameters
                .iter()
                .map(|p| match p {
                    header::DispositionParam::Name(v) => format!("N:{}", hex(v.as_bytes())),
                    header::DispositionParam::Filename(v) => format!("F:{}", hex(v.as_bytes())),
                    header::DispositionParam::Unknown(n, v) => format!("U:{}:{}", hex(n.as_bytes()), hex(v.as_bytes())),
                    _ => "E".to_owned(),
                })
                .collect();
            let ps = if ps.is_empty() { "-".to_owned() } else { ps.join(",") };
            Out::new(format!("ok t={t} p={ps}")).tag("cdm:ok").nt(true)
        }
    }
}

include!("c19_entries_fuzz.rs");
