// (included into c19_entries.rs) — pure fuzz entry points: output is always `nopanic`.

// ------------------------------------------------------------------------------------------
// typed headers

fn touch<T: std::fmt::Display>(r: Result<T, actix_web::error::ParseError>) -> bool {
    match r {
        Ok(v) => {
            let _ = v.to_string();
            true
        }
        Err(_) => false,
    }
}

fn parse_typed(name: &str, req: &HttpRequest) -> Option<bool> {
    use header::*;
    Some(match name {
        "ContentDisposition" => touch(ContentDisposition::parse(req)),
        "Range" => match Range::parse(req) {
            Ok(r) => {
                let _ = r.to_string();
                if let Range::Bytes(specs) = &r {
                    for s in specs {
                        for fl in [0u64, 1, 10, u64::MAX] {
                            let _ = s.to_satisfiable_range(fl);
                        }
                    }
                }
                true
            }
            Err(_) => false,
        },
        "Accept" => match Accept::parse(req) {
            Ok(a) => {
                let _ = a.to_string();
                let _ = a.ranked();
                let _ = a.preference();
                true
            }
            Err(_) => false,
        },
        "AcceptCharset" => touch(AcceptCharset::parse(req)),
        "AcceptEncoding" => match AcceptEncoding::parse(req) {
            Ok(a) => {
                let _ = a.to_string();
                let _ = a.ranked();
                let _ = a.preference();
                let sup = [Encoding::gzip(), Encoding::brotli(), Encoding::identity()];
                let _ = a.negotiate(sup.iter());
                true
            }
            Err(_) => false,
        },
        "AcceptLanguage" => match AcceptLanguage::parse(req) {
            Ok(a) => {
                let _ = a.to_string();
                let _ = a.ranked();
                let _ = a.preference();
                true
            }
            Err(_) => false,
        },
        "IfMatch" => touch(IfMatch::parse(req)),
        "IfNoneMatch" => touch(IfNoneMatch::parse(req)),
        "IfRange" => touch(IfRange::parse(req)),
        "IfModifiedSince" => touch(IfModifiedSince::parse(req)),
        "IfUnmodifiedSince" => touch(IfUnmodifiedSince::parse(req)),
        "Date" => touch(Date::parse(req)),
        "ETag" => touch(ETag::parse(req)),
        "ContentType" => touch(ContentType::parse(req)),
        "ContentRange" => touch(ContentRange::parse(req)),
        "CacheControl" => touch(CacheControl::parse(req)),
        "Allow" => touch(Allow::parse(req)),
        "ContentLanguage" => touch(ContentLanguage::parse(req)),
        "LastModified" => touch(LastModified::parse(req)),
        "Expires" => touch(Expires::parse(req)),
        "ContentLength" => ContentLength::parse(req).map(|c| c.0).is_ok(),
        _ => return None,
    })
}

pub const TYPED: &[(&str, &str)] = &[
    ("ContentDisposition", "content-disposition"),
    ("Range", "range"),
    ("Accept", "accept"),
    ("AcceptCharset", "accept-charset"),
    ("AcceptEncoding", "accept-encoding"),
    ("AcceptLanguage", "accept-language"),
    ("IfMatch", "if-match"),
    ("IfNoneMatch", "if-none-match"),
    ("IfRange", "if-range"),
    ("IfModifiedSince", "if-modified-since"),
    ("IfUnmodifiedSince", "if-unmodified-since"),
    ("Date", "date"),
    ("ETag", "etag"),
    ("ContentType", "content-type"),
    ("ContentRange", "content-range"),
    ("CacheControl", "cache-control"),
    ("Allow", "allow"),
    ("ContentLanguage", "content-language"),
    ("LastModified", "last-modified"),
    ("Expires", "expires"),
    ("ContentLength", "content-length"),
];

fn typed_header(c: &Case<'_>) -> Out {
    let name = c.kv("h").unwrap_or("");
    let Some((_, wire)) = TYPED.iter().find(|(n, _)| *n == name) else { return Out::new("bad-header-name") };
    let Some(v) = hv(&c.bytes) else { return Out::nopanic().tag("hdr:badhv") };
    let mut tr = TestRequest::default().append_header((HeaderName::from_static(wire), v.clone()));
    if c.kv("dup") == Some("1") {
        tr = tr.append_header((HeaderName::from_static(wire), v));
    }
    let req = tr.to_http_request();
    let ok = parse_typed(name, &req).unwrap_or(false);
    Out::nopanic().tag(format!("hdr:{name}:{}", if ok { "ok" } else { "err" })).nt(ok)
}

fn parse_all_typed(req: &HttpRequest) -> usize {
    TYPED.iter().filter(|(n, _)| parse_typed(n, req) == Some(true)).count()
}

fn content_disposition(c: &Case<'_>) -> Out {
    let Some(v) = hv(&c.bytes) else { return Out::nopanic().tag("cd:badhv") };
    match header::ContentDisposition::from_raw(&v) {
        Ok(cd) => {
            let _ = cd.to_string();
            let _ = (cd.get_name(), cd.get_filename(), cd.get_filename_ext().is_some(), cd.is_form_data());
            Out::nopanic().tag("cd:ok").nt(true)
        }
        Err(_) => Out::nopanic().tag("cd:err"),
    }
}

fn cookie(c: &Case<'_>) -> Out {
    let Some(v) = hv(&c.bytes) else { return Out::nopanic().tag("cookie:badhv") };
    let req = TestRequest::default().append_header((header::COOKIE, v)).to_http_request();
    let n = req.cookies().map(|c| c.len()).unwrap_or(0);
    let m = req.cookies_raw().map(|c| c.len()).unwrap_or(0);
    let _ = req.cookie("a").map(|c| c.value().len());
    Out::nopanic().tag(format!("cookie:{}", if n + m > 0 { "some" } else { "none" })).nt(n + m > 0)
}

// ------------------------------------------------------------------------------------------
// serde extractors

#[derive(Debug, Deserialize)]
#[allow(dead_code)]
enum En {
    #[serde(rename = "x")]
    X,
    #[serde(rename = "y")]
    Y,
}

#[derive(Debug, Deserialize)]
#[allow(dead_code)]
struct Q {
    a: Option<u32>,
    b: Option<String>,
    c: Option<i64>,
    d: Option<bool>,
    e: Option<En>,
    f: Option<f64>,
    g: Option<char>,
    h: Option<u8>,
}

#[derive(Debug, Deserialize)]
#[allow(dead_code)]
struct QReq {
    a: u32,
    b: String,
}

#[derive(Debug, Deserialize)]
#[allow(dead_code)]
struct P2 {
    a: u32,
    b: String,
}

fn query_str(s: &str) -> usize {
    let mut ok = 0;
    ok += web::Query::<Q>::from_query(s).is_ok() as usize;
    ok += web::Query::<QReq>::from_query(s).is_ok() as usize;
    ok += web::Query::<HashMap<String, String>>::from_query(s).is_ok() as usize;
    ok += web::Query::<Vec<(String, String)>>::from_query(s).is_ok() as usize;
    ok += web::Query::<Vec<(String, i8)>>::from_query(s).is_ok() as usize;
    ok
}

fn query(c: &Case<'_>) -> Out {
    // the query string of a request is `&str` (validated by http::Uri); lossy keeps the bytes flowing
    let s = String::from_utf8_lossy(&c.bytes).into_owned();
    let ok = query_str(&s);
    Out::nopanic().tag(format!("query:ok{ok}")).nt(ok > 0)
}

fn form(c: &Case<'_>) -> Out {
    let ct = c.kv_bytes("ct").unwrap_or_else(|| b"application/x-www-form-urlencoded".to_vec());
    let Some(ctv) = hv(&ct) else { return Out::nopanic().tag("form:badhv") };
    let body = c.bytes.clone();
    let len = body.len();
    block_on_system(async move {
        let (req, mut pl) = TestRequest::post()
            .insert_header((header::CONTENT_TYPE, ctv))
            .insert_header((header::CONTENT_LENGTH, len))
            .set_payload(body)
            .to_http_parts();
        let fut = async {
            let a = web::Form::<Q>::from_request(&req, &mut pl).await.is_ok();
            a
        };
        match drive(fut, 10_000, 5, 20).await {
            Driven::Done(ok) => Out::nopanic().tag(format!("form:{}", if ok { "ok" } else { "err" })).nt(ok),
            Driven::Livelock => Out::nopanic().hang("livelock in Form extractor"),
            Driven::Stalled => Out::nopanic().hang("stalled in Form extractor"),
        }
    })
}

fn pathde_on(path: &actix_router::Path<&str>) -> usize {
    let mut ok = 0;
    ok += path.load::<(u8, String)>().is_ok() as usize;
    ok += path.load::<P2>().is_ok() as usize;
    ok += path.load::<(i32, f32)>().is_ok() as usize;
    ok += path.load::<(String, char)>().is_ok() as usize;
    ok += path.load::<String>().is_ok() as usize;
    ok += path.load::<Vec<String>>().is_ok() as usize;
    ok += path.load::<(En, bool)>().is_ok() as usize;
    ok += path.load::<HashMap<String, String>>().is_ok() as usize;
    ok += path.load::<(u64, u64, u64)>().is_ok() as usize;
    ok
}

fn pathde_defs() -> &'static Vec<actix_router::ResourceDef> {
    static R: OnceLock<Vec<actix_router::ResourceDef>> = OnceLock::new();
    R.get_or_init(|| {
        vec![
            actix_router::ResourceDef::new("/{a}/{b}"),
            actix_router::ResourceDef::new("/{a}/{b}/{c}"),
            actix_router::ResourceDef::new("/{a}"),
            actix_router::ResourceDef::new("/{a}/{tail}*"),
            actix_router::ResourceDef::prefix("/{a}"),
            actix_router::ResourceDef::new("/{a:\\d+}-{b:.*}"),
            actix_router::ResourceDef::new(["/u/{a}/{b}", "/v/{b}/{a}"]),
            actix_router::ResourceDef::new("/static"),
            actix_router::ResourceDef::prefix("/pre"),
        ]
    })
}

fn pathde(c: &Case<'_>) -> Out {
    let s = String::from_utf8_lossy(&c.bytes).into_owned();
    let mut ok = 0;
    let mut matched = 0;
    for rd in pathde_defs() {
        let mut p = actix_router::Path::new(s.as_str());
        if rd.capture_match_info(&mut p) {
            matched += 1;
            ok += pathde_on(&p);
            let _ = p.iter().map(|(k, v)| k.len() + v.len()).sum::<usize>();
            let _ = p.unprocessed().len();
        }
    }
    Out::nopanic().tag(format!("pathde:m{}:ok{}", matched.min(3), ok.min(3))).nt(matched > 0)
}

// ------------------------------------------------------------------------------------------
// router: Url / Path / ResourceDef / Quoter / Router on arbitrary bytes

fn router(c: &Case<'_>) -> Out {
    let mut tags = Vec::new();
    let mut nt = false;
    // Quoter on raw bytes
    for (safe, prot) in [(&b""[..], &b"%/+"[..]), (b"", b""), (b"", b"%")] {
        let q = actix_router::Quoter::new(safe, prot);
        if q.requote(&c.bytes).is_some() {
            nt = true;
        }
    }
    // &str paths
    if let Ok(s) = std::str::from_utf8(&c.bytes) {
        for rd in pathde_defs() {
            let mut p = actix_router::Path::new(s);
            let _ = rd.is_match(s);
            let _ = rd.find_match(s);
            if rd.capture_match_info(&mut p) {
                nt = true;
                let _ = p.iter().count();
                // nested: apply the prefix defs again on the rest
                for rd2 in rdefs() {
                    if !rd2.capture_match_info(&mut p) {
                        break;
                    }
                }
                let _ = p.iter().map(|(_, v)| v.len()).sum::<usize>();
                let _ = p.unprocessed();
            }
        }
        tags.push("router:utf8".to_owned());
    }
    // Uri → Url → Path<Url>
    if let Ok(uri) = http::Uri::try_from(&c.bytes[..]) {
        tags.push("router:uri".to_owned());
        let url = actix_router::Url::new(uri.clone());
        let _ = url.path().len();
        let mut p = actix_router::Path::new(url);
        for rd in pathde_defs() {
            p.reset();
            if rd.capture_match_info(&mut p) {
                nt = true;
                let _ = p.load::<(String, String)>().is_ok();
                let _ = p.load::<P2>().is_ok();
                let _ = p.iter().count();
                for rd2 in rdefs() {
                    if !rd2.capture_match_info(&mut p) {
                        break;
                    }
                }
                let _ = p.iter().map(|(_, v)| v.len()).sum::<usize>();
            }
        }
        let q = actix_router::Quoter::new(b"", b"%/+");
        let _ = actix_router::Url::new_with_quoter(uri, &q).path().len();
    }
    let mut o = Out::nopanic().nt(nt);
    o.tags = tags;
    o
}

// ------------------------------------------------------------------------------------------
// h1 client codec (awc's response path)

fn h1_client(c: &Case<'_>) -> Out {
    let segs = c.segs();
    super::block_on_reused(async move {
        let mut codec = h1::ClientCodec::default();
        let mut buf = BytesMut::new();
        let mut it = segs.iter();
        let mut head = None;
        for seg in it.by_ref() {
            buf.extend_from_slice(seg);
            match codec.decode(&mut buf) {
                Ok(Some(h)) => {
                    head = Some(h);
                    break;
                }
                Ok(None) => {}
                Err(_) => return Out::nopanic().tag("h1cli:head-err"),
            }
        }
        let Some(h) = head else { return Out::nopanic().tag("h1cli:partial") };
        let st = h.status.as_u16();
        if codec.message_type() == h1::MessageType::None {
            return Out::nopanic().tag(format!("h1cli:{}xx:nobody", st / 100)).nt(true);
        }
        let mut pc = codec.into_payload_codec();
        let mut n = 0usize;
        let mut rest: Vec<&Vec<u8>> = it.collect();
        let empty = Vec::new();
        rest.insert(0, &empty);
        for seg in rest {
            buf.extend_from_slice(seg);
            let budget = buf.len() * 2 + 16;
            let mut iters = 0;
            loop {
                iters += 1;
                if iters > budget {
                    return Out::nopanic().hang("client payload decode loop");
                }
                match pc.decode(&mut buf) {
                    Ok(Some(Some(b))) => n += b.len(),
                    Ok(Some(None)) => return Out::nopanic().tag(format!("h1cli:{}xx:eof", st / 100)).nt(true),
                    Ok(None) => break,
                    Err(_) => return Out::nopanic().tag("h1cli:body-err").nt(true),
                }
            }
        }
        let _ = pc.decode_eof(&mut buf);
        Out::nopanic().tag(format!("h1cli:{}xx:more", st / 100)).nt(n > 0)
    })
}

// ------------------------------------------------------------------------------------------
// ws Codec (both roles)

fn ws_codec(c: &Case<'_>) -> Out {
    let server = c.kv("role") == Some("s");
    let max = c.kv_u64("max", 65536) as usize;
    let mut codec = ws::Codec::new().max_size(max);
    if !server {
        codec = codec.client_mode();
    }
    let mut buf = BytesMut::new();
    let mut frames = 0usize;
    for seg in c.segs() {
        buf.extend_from_slice(&seg);
        let budget = buf.len() + 16;
        let mut iters = 0;
        loop {
            iters += 1;
            if iters > budget {
                return Out::nopanic().hang("ws codec decode loop");
            }
            match codec.decode(&mut buf) {
                Ok(Some(f)) => {
                    frames += 1;
                    if let ws::Frame::Close(Some(r)) = &f {
                        let _ = (u16::from(r.code), r.description.as_ref().map(|d| d.len()));
                    }
                }
                Ok(None) => break,
                Err(e) => return Out::nopanic().tag(format!("wscodec:err:{}", ws_err(&e))).nt(frames > 0),
            }
        }
    }
    Out::nopanic().tag(format!("wscodec:frames{}", frames.min(3))).nt(frames > 0)
}

// ------------------------------------------------------------------------------------------
// multipart

struct Chunks {
    chunks: std::collections::VecDeque<Vec<u8>>,
    pend: usize,
    left: usize,
}

impl Stream for Chunks {
    type Item = Result<Bytes, actix_web::error::PayloadError>;
    fn poll_next(mut self: Pin<&mut Self>, cx: &mut Context<'_>) -> Poll<Option<Self::Item>> {
        if self.left > 0 {
            self.left -= 1;
            cx.waker().wake_by_ref();
            return Poll::Pending;
        }
        self.left = self.pend;
        match self.chunks.pop_front() {
            Some(c) => Poll::Ready(Some(Ok(Bytes::from(c)))),
            None => Poll::Ready(None),
        }
    }
}

async fn drain_multipart(mut mp: actix_multipart::Multipart) -> (usize, usize, bool) {
    let mut fields = 0;
    let mut bytes = 0;
    let mut err = false;
    while let Some(item) = mp.next().await {
        match item {
            Ok(mut field) => {
                fields += 1;
                let _ = field.content_disposition().map(|cd| cd.to_string());
                let _ = (field.name().map(str::len), field.content_type().map(|m| m.to_string()));
                while let Some(ch) = field.next().await {
                    match ch {
                        Ok(b) => bytes += b.len(),
                        Err(_) => {
                            err = true;
                            break;
                        }
                    }
                }
            }
            Err(_) => {
                err = true;
                break;
            }
        }
    }
    (fields, bytes, err)
}

fn multipart(c: &Case<'_>) -> Out {
    let ct = c.kv_bytes("b").unwrap_or_else(|| b"multipart/form-data; boundary=XB".to_vec());
    let Some(ctv) = hv(&ct) else { return Out::nopanic().tag("mp:badhv") };
    let pend = c.kv_u64("pend", 0) as usize;
    let mut headers = HeaderMap::new();
    headers.insert(header::CONTENT_TYPE, ctv);
    let chunks = Chunks { chunks: c.segs().into_iter().filter(|s| !s.is_empty()).collect(), pend, left: 0 };
    let total = c.bytes.len();
    let mp = actix_multipart::Multipart::new(&headers, chunks);
    match drive_sync(drain_multipart(mp), total * 8 * (pend + 1) + 10_000) {
        Driven::Done((f, b, e)) => Out::nopanic()
            .tag(format!("mp:fields{}:{}", f.min(3), if e { "err" } else { "end" }))
            .nt(f > 0 || b > 0),
        Driven::Livelock => Out::nopanic().hang("livelock: multipart kept waking itself past the poll budget"),
        Driven::Stalled => Out::nopanic().hang("stalled: multipart returned Pending with no wake-up after the body stream ended"),
    }
}

// ------------------------------------------------------------------------------------------
// actix-files service

fn files(c: &Case<'_>) -> Out {
    let Ok(uri_s) = std::str::from_utf8(&c.bytes) else { return Out::nopanic().tag("files:non-utf8") };
    if http::Uri::from_str(uri_s).is_err() {
        return Out::nopanic().tag("files:bad-uri");
    }
    let mut tr = TestRequest::with_uri(uri_s);
    for (key, name) in [("r", "range"), ("im", "if-match"), ("inm", "if-none-match"), ("ims", "if-modified-since"), ("ius", "if-unmodified-since"), ("ir", "if-range"), ("ae", "accept-encoding")] {
        if let Some(b) = c.kv_bytes(key) {
            match hv(&b) {
                Some(v) => tr = tr.append_header((HeaderName::from_static(name), v)),
                None => return Out::nopanic().tag("files:badhv"),
            }
        }
    }
    if c.kv("m") == Some("head") {
        tr = tr.method(actix_web::http::Method::HEAD);
    }
    let listing = c.kv("ls") == Some("1");
    block_on_system(async move {
        let fut = async move {
            let mut f = actix_files::Files::new("/", files_dir()).index_file("index.html").prefer_utf8(true);
            if listing {
                f = f.show_files_listing().use_hidden_files();
            }
            let app = actix_web::test::init_service(App::new().service(f)).await;
            let res = actix_service::Service::call(&app, tr.to_request()).await;
            match res {
                Ok(res) => {
                    let st = res.status().as_u16();
                    let body = actix_web::body::to_bytes(res.into_body()).await;
                    (st, body.map(|b| b.len()).unwrap_or(usize::MAX))
                }
                Err(_) => (0, 0),
            }
        };
        match drive(fut, 50_000, 3, 2000).await {
            Driven::Done((st, _)) => Out::nopanic().tag(format!("files:{st}")).nt(st == 200 || st == 206 || st == 304 || st == 416),
            Driven::Livelock => Out::nopanic().hang("livelock in Files service"),
            Driven::Stalled => Out::nopanic().hang("stalled in Files service"),
        }
    })
}

// ------------------------------------------------------------------------------------------
// the whole stack: actix-web App behind HttpService::h1 on an in-memory socket

fn touch_request(req: &HttpRequest) -> usize {
    {
        let ci = req.connection_info();
        let _ = (ci.host().len(), ci.scheme().len(), ci.realip_remote_addr().map(str::len));
    }
    let _ = req.cookies().map(|c| c.len());
    let _ = req.cookies_raw().map(|c| c.len());
    let n = parse_all_typed(req);
    let _ = query_str(req.query_string());
    let _ = req.match_info().iter().map(|(k, v)| k.len() + v.len()).sum::<usize>();
    let _ = (req.content_type().len(), req.mime_type().is_ok(), req.encoding().is_ok(), req.chunked().is_ok());
    n
}

async fn h_all(req: HttpRequest, body: web::Bytes) -> HttpResponse {
    let n = touch_request(&req);
    HttpResponse::Ok().insert_header(("x-typed", n.to_string())).body(body)
}

async fn h_path(req: HttpRequest, p: web::Path<P2>) -> HttpResponse {
    touch_request(&req);
    HttpResponse::Ok().body(format!("{}:{}", p.a, p.b))
}

async fn h_tail(p: web::Path<String>) -> HttpResponse {
    HttpResponse::Ok().body(p.into_inner())
}

async fn h_query(q: web::Query<Q>) -> HttpResponse {
    HttpResponse::Ok().body(format!("{:?}", q.into_inner()))
}

async fn h_form(f: web::Form<Q>) -> HttpResponse {
    HttpResponse::Ok().body(format!("{:?}", f.into_inner()))
}

async fn h_json(j: web::Json<serde_json::Value>) -> HttpResponse {
    HttpResponse::Ok().body(j.into_inner().to_string())
}

async fn h_mp(mp: actix_multipart::Multipart) -> HttpResponse {
    let (f, b, e) = drain_multipart(mp).await;
    HttpResponse::Ok().body(format!("{f}:{b}:{e}"))
}

async fn h_scope(req: HttpRequest, p: web::Path<(String, String)>) -> HttpResponse {
    touch_request(&req);
    let (a, b) = p.into_inner();
    HttpResponse::Ok().body(format!("{a}|{b}"))
}

fn app(c: &Case<'_>) -> Out {
    let segs = c.segs();
    let pend = c.kv("pend") != Some("0");
    let raw = c.bytes.clone();
    block_on_system(async move {
        let sock = Sock::new(segs, pend);
        let s2 = sock.clone();
        let fut = async move {
            let factory = actix_http::HttpService::build()
                .keep_alive(std::time::Duration::from_millis(40))
                .client_request_timeout(std::time::Duration::from_millis(40))
                .client_disconnect_timeout(std::time::Duration::from_millis(40))
                .h1(actix_service::map_config(
                    App::new()
                        .service(web::resource("/p/{a}/{b}").to(h_path))
                        .service(web::resource("/t/{tail}*").to(h_tail))
                        .service(web::resource("/q").to(h_query))
                        .service(web::resource("/form").to(h_form))
                        .service(web::resource("/json").to(h_json))
                        .service(web::resource("/mp").to(h_mp))
                        .service(web::scope("/s/{sc}").service(web::resource("/{x}").to(h_scope)))
                        .service(actix_files::Files::new("/files", files_dir()).index_file("index.html"))
                        .default_service(web::to(h_all)),
                    |_| actix_web::dev::AppConfig::default(),
                ));
            let svc = actix_service::ServiceFactory::new_service(&factory, ()).await.map_err(|_| ())?;
            actix_service::Service::call(&svc, (s2, None)).await.map_err(|_| ())
        };
        // (timer rounds: generous, the file routes wait for the blocking thread pool)
        let r = drive(fut, 100_000, 25, 400).await;
        let st = sock.0.borrow();
        // status codes of all responses on the wire
        let mut tags = Vec::new();
        let w = &st.written;
        let mut i = 0;
        let mut n200 = 0;
        while i + 12 <= w.len() {
            if &w[i..i + 7] == b"HTTP/1." && (i == 0 || w[i - 1] == b'\n') {
                let code = String::from_utf8_lossy(&w[i + 9..i + 12]).into_owned();
                if code == "200" {
                    n200 += 1;
                }
                if tags.len() < 4 {
                    tags.push(format!("app:{code}"));
                }
                i += 12;
            } else {
                i += 1;
            }
        }
        if tags.is_empty() {
            tags.push("app:no-response".to_owned());
        }
        let mut o = Out::nopanic().nt(n200 > 0);
        o.tags = tags;
        if st.reads > 200_000 {
            o = o.hang("livelock: more than 200000 socket reads");
        }
        match r {
            Driven::Done(_) => o,
            Driven::Livelock => o.hang("livelock: connection future exceeded 100000 polls"),
            Driven::Stalled => {
                let what = if raw.windows(3).any(|w| w == b"/mp") { "stalled (multipart route)" } else { "stalled" };
                o.hang(format!("{what}: connection future Pending without wake-up after peer EOF and all timers"))
            }
        }
    })
}

// ------------------------------------------------------------------------------------------
// HttpRequest::full_url (documented to panic on a malformed host)

fn full_url(c: &Case<'_>) -> Out {
    let Some(v) = hv(&c.bytes) else { return Out::nopanic().tag("fullurl:badhv") };
    let name = match c.kv("via") {
        Some("xfh") => "x-forwarded-host",
        Some("xfp") => "x-forwarded-proto",
        Some("fwd") => "forwarded",
        _ => "host",
    };
    let req = TestRequest::default().append_header((HeaderName::from_static(name), v)).to_http_request();
    let u = req.full_url();
    Out::nopanic().tag("fullurl:ok").nt(u.as_str().len() > 0)
}
