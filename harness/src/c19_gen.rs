//! C19 case generator: structured mutations of valid messages + random bytes, whole and fragmented.
use crate::common::{hex, Ctx, Rng};

/// which modelled entries are switched on (each needs its Lean model in `Drv/C19.lean`)
const MODELLED_RANGE: bool = true;
const MODELLED_RPATH: bool = true;
const MODELLED_FRANGE: bool = true;
const MODELLED_INFO: bool = true;
const MODELLED_CD: bool = true;

const EXTREMES: &[u64] = &[0, 1, 2, 9, 10, 15, 16, 125, 126, 127, 255, 256, 65535, 65536, 1 << 31, (1 << 31) + 1, 1 << 32, 1 << 63, (1 << 63) - 1, u64::MAX - 1, u64::MAX];
const INJECT: &[&[u8]] = &[b"\r", b"\n", b"\r\n", b"\0", b"\xff", b"\xc3\xa9", b"\xe2\x82\xac", b"\xf0\x9f\x98\x80", b"\xc0\xaf", b"\xed\xa0\x80", b"%", b"%2", b"%zz", b"%00", b"%2F", b"%ff", b"\"", b"\\", b";", b",", b"=", b" ", b"\t", b"*", b"'", b"+", b"-", b":", b"[", b"]", b"{", b"}", b"/", b"//", b"..", b"?", b"#", b"&"];
const HUGE_DIGITS: &[&str] = &[
    "18446744073709551615", "18446744073709551616", "99999999999999999999999999999999", "00000000000000000000000000000001",
    "9223372036854775808", "4294967296", "-1", "+1", "0x10", "1e9", "١٢٣",
];

fn seg_spec(rng: &mut Rng, len: usize) -> String {
    match rng.below(6) {
        0 | 1 => "-".to_owned(),
        2 => {
            if len <= 600 {
                "1*".to_owned()
            } else {
                "-".to_owned()
            }
        }
        3 => format!("{}", rng.below(len + 1)),
        4 => {
            let a = rng.below(len + 1);
            let b = rng.below(len - a + 1);
            format!("{a},{b}")
        }
        _ => {
            let k = rng.range(2, 6);
            let mut v = Vec::new();
            let mut left = len;
            for _ in 0..k {
                let c = rng.below(left.min(40) + 1);
                v.push(c.to_string());
                left -= c;
            }
            v.join(",")
        }
    }
}

/// one structured mutation
fn mutate_once(rng: &mut Rng, v: &mut Vec<u8>) {
    match rng.below(12) {
        0 => {
            if !v.is_empty() {
                let i = rng.below(v.len());
                v[i] ^= 1 << rng.below(8);
            }
        }
        1 => {
            let n = rng.below(v.len() + 1);
            v.truncate(n);
        }
        2 => {
            let i = rng.below(v.len() + 1);
            let inj = rng.pick(INJECT).to_vec();
            v.splice(i..i, inj);
        }
        3 => {
            // duplicate a slice
            if !v.is_empty() {
                let a = rng.below(v.len());
                let b = (a + rng.range(1, 40)).min(v.len());
                let s = v[a..b].to_vec();
                let at = rng.below(v.len() + 1);
                v.splice(at..at, s);
            }
        }
        4 => {
            // replace a run of decimal digits by an extreme
            if let Some(a) = (0..v.len()).filter(|&i| v[i].is_ascii_digit()).nth(rng.below(8)) {
                let mut b = a;
                while b < v.len() && v[b].is_ascii_digit() {
                    b += 1;
                }
                let rep = if rng.chance(1, 2) { rng.pick(EXTREMES).to_string() } else { rng.pick(HUGE_DIGITS).to_string() };
                v.splice(a..b, rep.into_bytes());
            }
        }
        5 => {
            // delete a range
            if !v.is_empty() {
                let a = rng.below(v.len());
                let b = (a + rng.range(1, 10)).min(v.len());
                v.drain(a..b);
            }
        }
        6 => {
            // oversize: repeat one byte many times
            let i = rng.below(v.len() + 1);
            let b = if v.is_empty() { b'a' } else { v[i.min(v.len() - 1)] };
            let n = *rng.pick(&[64usize, 300, 1100, 9000]);
            v.splice(i..i, std::iter::repeat(b).take(n));
        }
        7 => {
            if !v.is_empty() {
                let i = rng.below(v.len());
                v[i] = rng.next() as u8;
            }
        }
        8 => {
            // swap two bytes
            if v.len() >= 2 {
                let i = rng.below(v.len());
                let j = rng.below(v.len());
                v.swap(i, j);
            }
        }
        9 => {
            // replace a run of hex digits (chunk sizes) by an extreme in hex
            if let Some(a) = (0..v.len()).find(|&i| v[i].is_ascii_hexdigit() && rng.chance(1, 3)) {
                let mut b = a;
                while b < v.len() && v[b].is_ascii_hexdigit() {
                    b += 1;
                }
                let rep = format!("{:x}", rng.pick(EXTREMES));
                v.splice(a..b, rep.into_bytes());
            }
        }
        10 => {
            let i = rng.below(v.len() + 1);
            let n = rng.range(1, 6);
            let r = rng.bytes(n);
            v.splice(i..i, r);
        }
        _ => {
            // upper/lower-case flip of a letter
            if let Some(i) = (0..v.len()).filter(|&i| v[i].is_ascii_alphabetic()).nth(rng.below(10)) {
                v[i] ^= 0x20;
            }
        }
    }
}

fn mutate(rng: &mut Rng, seed: &[u8]) -> Vec<u8> {
    let mut v = seed.to_vec();
    for _ in 0..rng.range(1, 3) {
        mutate_once(rng, &mut v);
    }
    if v.len() > 70_000 {
        v.truncate(70_000);
    }
    v
}

/// header-value safe variant (no CR/LF, no other control bytes except TAB, no DEL)
fn hv_safe(mut v: Vec<u8>) -> Vec<u8> {
    for b in v.iter_mut() {
        if (*b < 32 && *b != 9) || *b == 127 {
            *b = b'?';
        }
    }
    v
}

fn no_crlf(mut v: Vec<u8>) -> Vec<u8> {
    for b in v.iter_mut() {
        if *b == 10 || *b == 13 {
            *b = b' ';
        }
    }
    v
}

// ------------------------------------------------------------------------------------------

fn ws_frame(op_fin: u8, masked: bool, len_field: u64, enc: u8, payload: &[u8]) -> Vec<u8> {
    let mut f = vec![op_fin];
    let m = if masked { 0x80 } else { 0 };
    match enc {
        0 => f.push(m | (len_field.min(125) as u8)),
        1 => {
            f.push(m | 126);
            f.extend_from_slice(&(len_field as u16).to_be_bytes());
        }
        _ => {
            f.push(m | 127);
            f.extend_from_slice(&len_field.to_be_bytes());
        }
    }
    if masked {
        f.extend_from_slice(&[1, 2, 3, 4]);
    }
    f.extend_from_slice(payload);
    f
}

const H1_SEEDS: &[&[u8]] = &[
    b"GET / HTTP/1.1\r\nHost: example.com\r\n\r\n",
    b"GET /q?a=1&b=x&d=true&f=1.5 HTTP/1.1\r\nHost: h\r\nAccept: text/html;q=0.8, */*;q=0.1\r\nAccept-Encoding: gzip, br;q=0.5\r\nAccept-Language: en-US, de;q=0.7\r\nCookie: a=b; c=%20d\r\nIf-None-Match: \"abc\", W/\"d\"\r\nIf-Modified-Since: Wed, 21 Oct 2015 07:28:00 GMT\r\nRange: bytes=0-4,-2\r\nForwarded: for=\"[2001:db8::1]:80\";proto=https;host=x.y\r\nX-Forwarded-For: 1.2.3.4, 5.6.7.8\r\n\r\n",
    b"POST /echo HTTP/1.1\r\nHost: h\r\nContent-Length: 11\r\nContent-Type: text/plain; charset=utf-8\r\n\r\nhello world",
    b"POST /echo HTTP/1.1\r\nHost: h\r\nTransfer-Encoding: chunked\r\n\r\n4;ext=1\r\ndata\r\n6\r\n line2\r\n0\r\n\r\n",
    b"GET /p/12/name HTTP/1.1\r\nHost: h\r\n\r\nGET /t/a/b/c HTTP/1.1\r\nHost: h\r\nConnection: close\r\n\r\n",
    b"POST /form HTTP/1.1\r\nHost: h\r\nContent-Type: application/x-www-form-urlencoded\r\nContent-Length: 19\r\n\r\na=1&b=x%20y&d=false",
    b"POST /json HTTP/1.1\r\nHost: h\r\nContent-Type: application/json\r\nContent-Length: 17\r\n\r\n{\"a\":[1,2,{\"b\":3}]}",
    b"POST /mp HTTP/1.1\r\nHost: h\r\nContent-Type: multipart/form-data; boundary=XB\r\nContent-Length: 96\r\n\r\n--XB\r\nContent-Disposition: form-data; name=\"f\"; filename=\"a.txt\"\r\n\r\nfile data\r\n--XB--\r\n",
    b"GET /files/a.txt HTTP/1.1\r\nHost: h\r\nRange: bytes=2-5\r\nIf-Range: \"x\"\r\n\r\n",
    b"GET /files/size0 HTTP/1.1\r\nHost: h\r\nRange: bytes=0-0\r\n\r\n",
    b"GET /s/scope/leaf?x=1 HTTP/1.1\r\nHost: h\r\nExpect: 100-continue\r\nContent-Length: 3\r\n\r\nabc",
    b"GET /ws HTTP/1.1\r\nHost: h\r\nUpgrade: websocket\r\nConnection: upgrade\r\nSec-WebSocket-Key: dGhlIHNhbXBsZSBub25jZQ==\r\nSec-WebSocket-Version: 13\r\n\r\n\x81\x85\x01\x02\x03\x04abcde",
    b"HEAD /files/dir/ HTTP/1.0\r\nConnection: keep-alive\r\n\r\n",
    b"POST /echo HTTP/1.1\r\nHost: h\r\nContent-Encoding: gzip\r\nContent-Length: 25\r\n\r\n\x1f\x8b\x08\x00\x00\x00\x00\x00\x00\x03\xcbH\xcd\xc9\xc9\x07\x00\x86\xa6\x106\x05\x00\x00\x00",
    b"OPTIONS * HTTP/1.1\r\nHost: h\r\n\r\n",
    b"CONNECT example.com:443 HTTP/1.1\r\nHost: example.com:443\r\n\r\nraw",
    b"GET http://abs.example/p/1/x?y HTTP/1.1\r\nHost: other\r\nContent-Disposition: form-data; name=x; filename*=UTF-8''%e2%82%ac\r\n\r\n",
];

const H1_RESP_SEEDS: &[&[u8]] = &[
    b"HTTP/1.1 200 OK\r\nContent-Length: 5\r\n\r\nhello",
    b"HTTP/1.1 200 OK\r\nTransfer-Encoding: chunked\r\n\r\n5\r\nhello\r\n0\r\n\r\n",
    b"HTTP/1.0 200 OK\r\n\r\nuntil eof",
    b"HTTP/1.1 204 No Content\r\nConnection: close\r\n\r\n",
    b"HTTP/1.1 101 Switching Protocols\r\nUpgrade: websocket\r\nConnection: upgrade\r\n\r\n\x81\x02hi",
    b"HTTP/1.1 100 Continue\r\n\r\nHTTP/1.1 200 OK\r\nContent-Length: 0\r\n\r\n",
    b"HTTP/1.1 301 Moved\r\nLocation : /x\r\nContent-Length: 18446744073709551615\r\n\r\nabc",
];

const MP_SEEDS: &[&[u8]] = &[
    b"--XB\r\nContent-Disposition: form-data; name=\"a\"\r\n\r\nvalue\r\n--XB\r\nContent-Disposition: form-data; name=\"f\"; filename=\"x.bin\"\r\nContent-Type: application/octet-stream\r\n\r\n\x00\x01\x02data\r\n--XB--\r\n",
    b"preamble\r\n--XB\r\nContent-Disposition: form-data; name=a\r\nContent-Length: 3\r\n\r\nabc\r\n--XB--\r\nepilogue",
    b"--XB\r\nContent-Type: multipart/mixed; boundary=IN\r\nContent-Disposition: form-data; name=n\r\n\r\n--IN\r\n\r\nx\r\n--IN--\r\n--XB--\r\n",
    b"--XB\r\n\r\ndata\r\n--X",
    b"--XB\r\nContent-Disposition: form-data; name=\"a\"\r\n\r\ndata\r\n--XB--",
];

const MP_CTS: &[&[u8]] = &[
    b"multipart/form-data; boundary=XB",
    b"multipart/form-data; boundary=\"XB\"",
    b"multipart/mixed; boundary=XB; charset=utf-8",
    b"multipart/form-data",
    b"multipart/form-data; boundary=",
    b"text/plain; boundary=XB",
    b"multipart/form-data; boundary=----WebKitFormBoundary7MA4YWxkTrZu0gW",
];

const PATH_SEEDS: &[&[u8]] = &[
    b"/", b"/a/b", b"/12/name", b"/a/b/c", b"/u/1/2", b"/v/x/y", b"/static", b"/pre/fix/more", b"/123-abc", b"/a%2Fb/c%20d",
    b"/%E2%82%AC/%ff", b"/a//b", b"/a/./../b", b"/x?y=1#z", b"http://h/a/b?q", b"*", b"/a/b/", b"//", b"/\xe2\x82\xac/b", b"/a+b/%2B",
];

const QUERY_SEEDS: &[&[u8]] = &[
    b"a=1&b=hello&c=-5&d=true&e=x&f=1.5&g=c&h=255", b"a=1&b=x", b"a=&b=", b"a=1&a=2&b=%20", b"b=%E2%82%AC&g=%E2%82%AC", b"a=4294967296&b=1",
    b"h=256", b"f=nan&f=inf", b"d=TRUE", b"e=z", b"a[0]=1&b[x]=2", b"=&=&&", b"a=1;b=2", b"c=-9223372036854775808", b"%", b"a=%",
];

const TYPED_SEEDS: &[(&str, &[&[u8]])] = &[
    ("ContentDisposition", &[b"form-data; name=\"f\"; filename=\"a b.txt\"", b"attachment; filename*=UTF-8'en'%e2%82%ac%20rates; filename=\"x\"", b"inline", b"form-data; name=x; dummy=3", b"attachment; filename=\"a\\\"b\\\\c\"; x*=iso-8859-1''%A3"]),
    ("Range", &[b"bytes=0-499", b"bytes=500-", b"bytes=-500", b"bytes=0-0,-1", b"bytes= 1-100 , 101-xxx,  200- ", b"custom=1-2", b"bytes=1-2,3-4,5-"]),
    ("Accept", &[b"text/html, application/xhtml+xml;q=0.9, */*;q=0.8", b"audio/*; q=0.2, audio/basic", b"text/plain; charset=utf-8; q=0.001"]),
    ("AcceptCharset", &[b"utf-8, iso-8859-1;q=0.5, *;q=0.1"]),
    ("AcceptEncoding", &[b"gzip, deflate, br;q=0.9, *;q=0", b"identity;q=0, *", b"zstd;q=1.000"]),
    ("AcceptLanguage", &[b"en-US, en;q=0.9, de-CH-1996;q=0.8, *;q=0.1", b"zh-Hant-TW"]),
    ("IfMatch", &[b"\"xyzzy\", W/\"r2d2\", \"\"", b"*"]),
    ("IfNoneMatch", &[b"W/\"67ab43\", \"54ed21\"", b"*"]),
    ("IfRange", &[b"\"etag\"", b"Wed, 21 Oct 2015 07:28:00 GMT", b"W/\"x\""]),
    ("IfModifiedSince", &[b"Wed, 21 Oct 2015 07:28:00 GMT", b"Sunday, 06-Nov-94 08:49:37 GMT", b"Sun Nov  6 08:49:37 1994"]),
    ("IfUnmodifiedSince", &[b"Thu, 01 Jan 1970 00:00:00 GMT", b"Fri, 31 Dec 9999 23:59:59 GMT"]),
    ("Date", &[b"Tue, 15 Nov 1994 08:12:31 GMT", b"Tue, 29 Feb 2000 24:00:60 GMT"]),
    ("ETag", &[b"\"abc\"", b"W/\"\"", b"\"a\"b\""]),
    ("ContentType", &[b"text/html; charset=utf-8", b"multipart/form-data; boundary=x", b"application/vnd.api+json"]),
    ("ContentRange", &[b"bytes 0-499/1234", b"bytes */1234", b"bytes 0-499/*", b"seconds 1-2", b"bytes 500-0/1"]),
    ("CacheControl", &[b"no-cache, max-age=31536000, private=\"x\", s-maxage=4294967296, foo=bar"]),
    ("Allow", &[b"GET, HEAD, PUT", b"get, ,FOO"]),
    ("ContentLanguage", &[b"en-US, de", b"x-private"]),
    ("LastModified", &[b"Wed, 21 Oct 2015 07:28:00 GMT"]),
    ("Expires", &[b"0", b"Thu, 01 Dec 1994 16:00:00 GMT"]),
];

const COOKIE_SEEDS: &[&[u8]] = &[b"a=b; c=d", b"a=%20%zz; =x; y", b"a=\"q u o\"; b=c=d", b"a=\xe2\x82\xac", b";;;", b"a=b;a=c; Path=/; HttpOnly"];

const FWD_SEEDS: &[&[u8]] = &[
    b"for=192.0.2.60; proto=https; by=203.0.113.43; host=rust-lang.org",
    b"for=\"[2001:db8:cafe::17]:4711\"",
    b"For=1.2.3.4, for=5.6.7.8;Proto=\"HTTPS\"",
    b"for=_hidden;host=\"a.b\";proto=http",
    b"  for = 1.1.1.1:80 ; host = x ",
    b"for=[::1", b"for=\"\"", b"=x;=;;,,", b"proto==;host=\"", b"for=a:b:c",
];

const CHUNK_SEEDS: &[&[u8]] = &[
    b"4\r\ndata\r\n0\r\n\r\n", b"4;ext=val\r\ndata\r\n5 \r\nline2\r\n0\r\n\r\nGET /", b"a\r\n0123456789\r\nA\r\n0123456789\r\n0\r\nTrailer: x\r\n\r\n",
    b"0\r\n\r\n", b"ffffffffffffffff\r\nxx", b"10000000000000000\r\n", b"fffffffffffffffff\r\n", b"1\r\nab", b"\r\n\r\n", b"1;\x01\r\na\r\n0\r\n\r\n", b"1\t \t;x\r\nq\r\n0\r\n\r\n",
    b"7FFFFFFFFFFFFFFF\r\nabc", b"8000000000000000\r\nabc", b"000000000000000000000000000000004\r\nabcd\r\n0\r\n\r\n",
];

/// Does the chunked stream reach a chunk-size line with *no* hex digit (e.g. `\r\n\r\n`, `;x\r\n`)
/// before any other error?  The code at the pinned commit treats that as size 0 (DESIGN §6 F12);
/// work-stream C01 turns it into an error.  Accept/reject of exactly this class is C01's
/// business, so such inputs run as the fuzz-only entry `chunkf` (panic/hang oracle only).
fn has_empty_size(b: &[u8]) -> bool {
    #[derive(PartialEq)]
    enum S { Size, Lws, Ext, SizeLf, BodyCr, BodyLf }
    let mut st = S::Size;
    let mut digits = 0usize;
    let mut size: u64 = 0;
    let mut i = 0usize;
    while i < b.len() {
        let c = b[i];
        match st {
            S::Size => match c {
                b'0'..=b'9' | b'a'..=b'f' | b'A'..=b'F' => {
                    let d = (c as char).to_digit(16).unwrap() as u64;
                    match size.checked_mul(16) {
                        Some(n) => size = n + d,
                        None => return false,
                    }
                    digits += 1;
                }
                b'\t' | b' ' | b';' | b'\r' => {
                    if digits == 0 {
                        return true;
                    }
                    st = match c { b';' => S::Ext, b'\r' => S::SizeLf, _ => S::Lws };
                }
                _ => return false,
            },
            S::Lws => match c {
                b'\t' | b' ' => {}
                b';' => st = S::Ext,
                b'\r' => st = S::SizeLf,
                _ => return false,
            },
            S::Ext => match c {
                b'\r' => st = S::SizeLf,
                0x00..=0x08 | 0x0a..=0x1f | 0x7f => return false,
                _ => {}
            },
            S::SizeLf => {
                if c != b'\n' || size == 0 {
                    return false; // error, or last-chunk: the rest is not chunk-size syntax
                }
                let rem = (b.len() - i - 1) as u64;
                if size > rem {
                    return false;
                }
                i += size as usize;
                st = S::BodyCr;
            }
            S::BodyCr => {
                if c != b'\r' {
                    return false;
                }
                st = S::BodyLf;
            }
            S::BodyLf => {
                if c != b'\n' {
                    return false;
                }
                st = S::Size;
                digits = 0;
                size = 0;
            }
        }
        i += 1;
    }
    false
}

/// (since work-stream C01's `SizeDigit` fix the empty chunk-size line is an error in the code and
/// in the model, so these inputs are compared like all others; `has_empty_size` only tags them)
const DIVERT_EMPTY_SIZE: bool = false;

fn push(cases: &mut Vec<String>, s: String) {
    if !DIVERT_EMPTY_SIZE {
        cases.push(s);
        return;
    }
    if let Some(rest) = s.strip_prefix("chunk ") {
        if let Some(h) = rest.split(' ').last() {
            if crate::common::unhex(h).map(|b| has_empty_size(&b)).unwrap_or(false) {
                cases.push(format!("chunkf {rest}"));
                return;
            }
        }
    }
    cases.push(s);
}

pub fn gen(ctx: &Ctx) -> Vec<String> {
    let mut rng = Rng::new(ctx.seed);
    let mut cases: Vec<String> = Vec::new();
    let b = |n: usize| ctx.budget(n);

    // ------------------------------------------------------------------ chunked / length bodies (modelled)
    for s in CHUNK_SEEDS {
        push(&mut cases, format!("chunk seg=- {}", hex(s)));
        push(&mut cases, format!("chunk seg=1* {}", hex(s)));
        for cut in 0..=s.len() {
            push(&mut cases, format!("chunk seg=- {}", hex(&s[..cut])));
            push(&mut cases, format!("chunk seg={cut} {}", hex(s)));
        }
    }
    for &e in EXTREMES {
        for tail in [&b"\r\nabc"[..], b"\r\n", b";x\r\nabc\r\n0\r\n\r\n", b""] {
            let mut v = format!("{e:x}").into_bytes();
            v.extend_from_slice(tail);
            push(&mut cases, format!("chunk seg=- {}", hex(&v)));
            let mut w = format!("{e:X}0").into_bytes();
            w.extend_from_slice(tail);
            push(&mut cases, format!("chunk seg=1* {}", hex(&w)));
        }
        if e >= 1 {
            for body in [&b""[..], b"a", b"abcdefghij"] {
                push(&mut cases, format!("len n={e} seg=- {}", hex(body)));
                push(&mut cases, format!("len n={e} seg=1* {}", hex(body)));
                push(&mut cases, format!("len n={e} seg=3,2 {}", hex(body)));
            }
        }
    }
    for _ in 0..b(2500) {
        let s = { let sd = rng.pick(CHUNK_SEEDS).to_vec(); mutate(&mut rng, &sd) };
        let sp = seg_spec(&mut rng, s.len());
        push(&mut cases, format!("chunk seg={sp} {}", hex(&s)));
    }
    for _ in 0..b(300) {
        let n = rng.range(0, 40);
        let s = rng.bytes(n);
        let sp = seg_spec(&mut rng, s.len());
        push(&mut cases, format!("chunk seg={sp} {}", hex(&s)));
        let l = rng.range(1, 50);
        push(&mut cases, format!("len n={l} seg={sp} {}", hex(&s)));
    }

    // ------------------------------------------------------------------ Content-Length values (modelled)
    for &e in EXTREMES {
        for f in ["{}", " {} ", "+{}", "{}0", "0{}", "-{}", "{} 1", "\t{}\t"] {
            push(&mut cases, format!("cl {}", hex(f.replace("{}", &e.to_string()).as_bytes())));
        }
    }
    for d in HUGE_DIGITS {
        push(&mut cases, format!("cl {}", hex(d.as_bytes())));
    }
    for s in [&b""[..], b" ", b"+", b"-", b"1,2", b"1 2", b"0x1", b"\xff", b"1\x00", b"\x7f", b"12\x0b", "٣".as_bytes()] {
        push(&mut cases, format!("cl {}", hex(s)));
    }
    for _ in 0..b(800) {
        let seed = rng.pick(EXTREMES).to_string().into_bytes();
        let v = no_crlf(mutate(&mut rng, &seed));
        push(&mut cases, format!("cl {}", hex(&v)));
    }

    // ------------------------------------------------------------------ ws Parser::parse (modelled) + Codec (fuzz)
    let maxes = [0u64, 1, 125, 126, 1024, 65535, 65536, 1 << 20];
    let ops = [0x81u8, 0x82, 0x80, 0x01, 0x02, 0x00, 0x88, 0x89, 0x8a, 0x08, 0x09, 0x83, 0x8f, 0xc1, 0xf2];
    let mut ws_seeds: Vec<Vec<u8>> = Vec::new();
    for &op in &ops {
        for &len in EXTREMES {
            for enc in 0..3u8 {
                for masked in [false, true] {
                    let pl_len = (len.min(300)) as usize;
                    let pl = vec![b'p'; pl_len];
                    ws_seeds.push(ws_frame(op, masked, len, enc, &pl));
                }
            }
        }
    }
    // close payloads
    for pl in [&b""[..], b"\x03", b"\x03\xe8", b"\x03\xe8bye", b"\xff\xff\xff\xfe", b"\x00\x00"] {
        ws_seeds.push(ws_frame(0x88, false, pl.len() as u64, 0, pl));
        ws_seeds.push(ws_frame(0x88, true, pl.len() as u64, 0, pl));
    }
    for (i, f) in ws_seeds.iter().enumerate() {
        let role = if f.len() > 1 && f[1] & 0x80 != 0 { "s" } else { "c" };
        let max = maxes[i % maxes.len()];
        push(&mut cases, format!("ws role={role} max={max} {}", hex(f)));
        if i % 7 == 0 {
            let other = if role == "s" { "c" } else { "s" };
            push(&mut cases, format!("ws role={other} max={max} {}", hex(f)));
        }
        if i % 3 == 0 {
            // truncation at every offset of the header
            for cut in 0..f.len().min(16) {
                push(&mut cases, format!("ws role={role} max={max} {}", hex(&f[..cut])));
            }
        }
        if i % 5 == 0 {
            let mut two = f.clone();
            two.extend_from_slice(&ws_seeds[(i * 31 + 7) % ws_seeds.len()]);
            let sp = seg_spec(&mut rng, two.len());
            push(&mut cases, format!("wscodec role={role} max={max} seg={sp} {}", hex(&two)));
        }
    }
    for _ in 0..b(2500) {
        let f = { let i = rng.below(ws_seeds.len()); mutate(&mut rng, &ws_seeds[i]) };
        let role = if rng.chance(1, 2) { "s" } else { "c" };
        let max = *rng.pick(&maxes);
        push(&mut cases, format!("ws role={role} max={max} {}", hex(&f)));
        if rng.chance(1, 3) {
            let sp = seg_spec(&mut rng, f.len());
            push(&mut cases, format!("wscodec role={role} max={max} seg={sp} {}", hex(&f)));
        }
    }
    for _ in 0..b(500) {
        let n = rng.range(0, 24);
        let f = rng.bytes(n);
        let role = if rng.chance(1, 2) { "s" } else { "c" };
        push(&mut cases, format!("ws role={role} max={} {}", rng.pick(&maxes), hex(&f)));
        // a stream of several valid small frames
        let mut st = Vec::new();
        for _ in 0..rng.range(1, 6) {
            let pn = rng.below(8);
            let pl = rng.bytes(pn);
            st.extend_from_slice(&ws_frame(*rng.pick(&ops), role == "s", pl.len() as u64, 0, &pl));
        }
        let sp = seg_spec(&mut rng, st.len());
        push(&mut cases, format!("wscodec role={role} max=65536 seg={sp} {}", hex(&st)));
    }

    // ------------------------------------------------------------------ Range header (modelled) and files range (modelled)
    let range_seeds: Vec<&[u8]> = vec![
        b"bytes=0-499", b"bytes=500-", b"bytes=-500", b"bytes=-0", b"bytes=0-0,-1", b"bytes= 1-100 , 101-xxx,  200- ", b"custom=1-2", b"bytes=", b"bytes",
        b"=", b"bytes=-", b"bytes=1-2,3-4,5-", b"bytes=+1-+2", b"bytes=5-4", b"bytes=--5", b"bytes=1--2", b"x=", b"=y", b"bytes=18446744073709551615-18446744073709551615",
        b"bytes=0-18446744073709551616", b"bytes=-18446744073709551615", b"bytes= - 5", b"bytes=\t7-\t", b"Bytes=0-1", b"bytes=0-1=2", b"bytes=9-,,,", b"", b"bytes=-5", b"bytes=-5-",
    ];
    let fls = [0u64, 1, 2, 10, 1000, u64::MAX];
    for s in &range_seeds {
        for &fl in &fls {
            if MODELLED_RANGE {
                push(&mut cases, format!("range fl={fl} {}", hex(s)));
            }
        }
        for size in [0u64, 1, 10, 1000] {
            if MODELLED_FRANGE {
                push(&mut cases, format!("frange size={size} {}", hex(s)));
            }
        }
    }
    for _ in 0..b(2500) {
        let s = { let sd = rng.pick(&range_seeds).to_vec(); let m = mutate(&mut rng, &sd); hv_safe_mostly(&mut rng, m) };
        if MODELLED_RANGE {
            push(&mut cases, format!("range fl={} {}", rng.pick(&fls), hex(&s)));
        }
        if MODELLED_FRANGE && rng.chance(1, 2) {
            push(&mut cases, format!("frange size={} {}", rng.pick(&[0u64, 1, 10, 1000]), hex(&s)));
        }
    }

    // ------------------------------------------------------------------ router u16 offsets (modelled)
    if MODELLED_RPATH {
        let shapes: &[&[usize]] = &[
            &[1], &[3, 4], &[1, 1, 1, 1, 1], &[65533], &[65534], &[65535], &[65536], &[65537], &[70000], &[131071], &[131072, 5],
            &[40000, 30000], &[40000, 25534], &[40000, 25535], &[32767, 32767, 5], &[32767, 32766, 1], &[10, 65530], &[65530, 10], &[65534, 1], &[20000, 20000, 20000, 20000],
            &[60000, 5000, 500, 30, 5], &[5, 65536, 5], &[1, 65534], &[2, 65533, 2],
        ];
        for sh in shapes {
            for k in 1..=4 {
                let l: Vec<String> = sh.iter().map(|x| x.to_string()).collect();
                push(&mut cases, format!("rpath lens={} k={k} -", l.join(",")));
            }
        }
        // a static prefix (scope) consumed first, then dynamic steps: totals straddling
        // 65535/65536 and captures ending just before / after absolute offset 65535
        for &p in &[2usize, 3, 4, 5, 8, 100, 1000, 30000] {
            for total in [65_533usize, 65_534, 65_535, 65_536, 65_537, 65_535 + p - 1, 65_535 + p, 65_535 + p + 1, 65_535 + 2 * p] {
                // one segment filling the rest
                if total > p + 1 {
                    let l = total - p - 1;
                    push(&mut cases, format!("rpath pre={p} lens={l} k=1 -"));
                    // two segments: the first capture ends near the limit, a short one follows
                    if l > 12 {
                        push(&mut cases, format!("rpath pre={p} lens={},10 k=2 -", l - 11));
                        push(&mut cases, format!("rpath pre={p} lens=10,{} k=2 -", l - 11));
                    }
                }
            }
            // two static prefixes
            push(&mut cases, format!("rpath pre={p},{p} lens={} k=2 -", 65_536 - 2 * p.min(30000) - 1));
            push(&mut cases, format!("rpath pre={p},7 lens={},3 k=3 -", 65_530usize.saturating_sub(p)));
            push(&mut cases, format!("rpath pre={p} lens=5,6 k=2 -"));
        }
        for _ in 0..b(200) {
            let np = rng.range(1, 2);
            let pre: Vec<usize> = (0..np).map(|_| *rng.pick(&[2usize, 4, 5, 16, 300, 5000, 30000])).collect();
            let psum: usize = pre.iter().sum();
            let target = rng.range(65_500, 65_600 + psum.min(200));
            let n = rng.range(1, 3);
            let mut lens: Vec<usize> = Vec::new();
            let mut used = psum;
            for i in 0..n {
                let l = if i + 1 == n { target.saturating_sub(used + 1).max(1) } else { rng.range(1, 40) };
                used += l + 1;
                lens.push(l);
            }
            if rng.chance(1, 2) {
                lens.reverse();
            }
            let pl: Vec<String> = pre.iter().map(|x| x.to_string()).collect();
            let ll: Vec<String> = lens.iter().map(|x| x.to_string()).collect();
            push(&mut cases, format!("rpath pre={} lens={} k={} -", pl.join(","), ll.join(","), rng.range(1, 4)));
        }
        for _ in 0..b(150) {
            let n = rng.range(1, 5);
            let l: Vec<String> = (0..n)
                .map(|_| match rng.below(4) {
                    0 => rng.range(1, 20),
                    1 => rng.range(1, 70000),
                    2 => rng.range(65500, 65560),
                    _ => rng.range(20000, 45000),
                })
                .map(|x| x.to_string())
                .collect();
            push(&mut cases, format!("rpath lens={} k={} -", l.join(","), rng.range(1, 4)));
        }
    }

    // ------------------------------------------------------------------ ConnectionInfo (modelled + fuzz), full_url
    let entry = if MODELLED_INFO { "infom" } else { "info" };
    for s in FWD_SEEDS {
        push(&mut cases, format!("{entry} f={} -", hex(s)));
        push(&mut cases, format!("{entry} f={} f2={} h={} -", hex(s), hex(FWD_SEEDS[0]), hex(b"host.example:8080")));
        push(&mut cases, format!("{entry} xf={} xp={} xh={} -", hex(s), hex(s), hex(s)));
        for cut in 0..s.len() {
            push(&mut cases, format!("{entry} f={} -", hex(&s[..cut])));
        }
    }
    push(&mut cases, format!("{entry} -"));
    for _ in 0..b(1500) {
        let mut line = entry.to_owned();
        for key in ["f", "f2", "xf", "xp", "xh", "h"] {
            if rng.chance(1, 2) {
                let v = { let sd = rng.pick(FWD_SEEDS).to_vec(); let m = mutate(&mut rng, &sd); hv_safe_mostly(&mut rng, m) };
                line.push_str(&format!(" {key}={}", hex(&v)));
            }
        }
        line.push_str(" -");
        push(&mut cases, line);
    }
    for s in [&b"example.com"[..], b"a b", b"[::1]:80", b"h:99999", b"", b"\xff", b"a/b?c#d", b"%zz", b"xn--", b"user@host"] {
        for via in ["host", "xfh", "xfp"] {
            push(&mut cases, format!("fullurl via={via} {}", hex(s)));
        }
    }

    // ------------------------------------------------------------------ typed headers, content-disposition, cookies
    for (name, seeds) in TYPED_SEEDS {
        for s in seeds.iter() {
            push(&mut cases, format!("hdr h={name} {}", hex(s)));
            push(&mut cases, format!("hdr h={name} dup=1 {}", hex(s)));
            for cut in 0..s.len() {
                push(&mut cases, format!("hdr h={name} {}", hex(&s[..cut])));
            }
            for _ in 0..b(25) {
                let v = { let m = mutate(&mut rng, s); hv_safe_mostly(&mut rng, m) };
                push(&mut cases, format!("hdr h={name} {}", hex(&v)));
            }
        }
        // every header against every other header's seeds (cross pollination) and random bytes
        for _ in 0..b(12) {
            let (_, other) = rng.pick(TYPED_SEEDS);
            let v = { let sd = rng.pick(other).to_vec(); let m = mutate(&mut rng, &sd); hv_safe_mostly(&mut rng, m) };
            push(&mut cases, format!("hdr h={name} {}", hex(&v)));
            let n = rng.range(0, 30);
            let r = hv_safe(rng.bytes(n));
            push(&mut cases, format!("hdr h={name} {}", hex(&r)));
        }
    }
    const CD_SEEDS: &[&[u8]] = &[
        b"form-data; name=\"f\"; filename=\"a b.txt\"", b"inline", b"form-data; name=x; dummy=3", b"attachment; filename=\"a\\\"b\\\\c\"; x=y",
        b"Form-Data ; NAME = \"\xe2\x82\xac\" ;FileName=tok;", b"attachment;filename=\"\";;", b"x; a=\"unterminated", b"; name=x", b"a; =v", b"a; n=", b"a; n=\"q\"junk; m=2",
        b"\xc2\xa0 inline \xe2\x80\x83; \xe3\x80\x80name\xc2\xa0=\xc2\xa0v\xc2\xa0", b"form-data; name=\"a\\\xe2\x82\xac\"",
    ];
    let cd_entry = if MODELLED_CD { "cdm" } else { "cd" };
    for s in TYPED_SEEDS[0].1.iter().chain(CD_SEEDS.iter()) {
        for cut in 0..=s.len() {
            push(&mut cases, format!("{cd_entry} {}", hex(&s[..cut])));
        }
        for _ in 0..b(120) {
            let v = { let m = mutate(&mut rng, s); hv_safe_mostly(&mut rng, m) };
            push(&mut cases, format!("{cd_entry} {}", hex(&v)));
        }
    }
    for s in COOKIE_SEEDS {
        push(&mut cases, format!("cookie {}", hex(s)));
        for _ in 0..b(40) {
            let v = { let m = mutate(&mut rng, s); hv_safe_mostly(&mut rng, m) };
            push(&mut cases, format!("cookie {}", hex(&v)));
        }
    }

    // ------------------------------------------------------------------ router / path / query / form
    for s in PATH_SEEDS {
        push(&mut cases, format!("router {}", hex(s)));
        push(&mut cases, format!("pathde {}", hex(s)));
        for _ in 0..b(40) {
            let v = mutate(&mut rng, s);
            push(&mut cases, format!("router {}", hex(&v)));
            push(&mut cases, format!("pathde {}", hex(&v)));
        }
    }
    for _ in 0..b(200) {
        let n = rng.range(0, 20);
        let mut v = vec![b'/'];
        v.extend(rng.bytes(n));
        push(&mut cases, format!("router {}", hex(&v)));
    }
    for s in QUERY_SEEDS {
        push(&mut cases, format!("query {}", hex(s)));
        push(&mut cases, format!("form {}", hex(s)));
        for _ in 0..b(30) {
            let v = mutate(&mut rng, s);
            push(&mut cases, format!("query {}", hex(&v)));
            if rng.chance(1, 3) {
                const FORM_CTS: &[&[u8]] = &[b"application/x-www-form-urlencoded", b"application/x-www-form-urlencoded; charset=iso-8859-1", b"application/x-www-form-urlencoded; charset=utf-16", b"application/x-www-form-urlencoded; charset=bogus", b"text/plain"];
                let ct = rng.pick(FORM_CTS);
                push(&mut cases, format!("form ct={} {}", hex(ct), hex(&v)));
            }
        }
    }

    // ------------------------------------------------------------------ files service
    let file_uris: &[&[u8]] = &[b"/a.txt", b"/size0", b"/size10", b"/size1000", b"/dir/", b"/dir", b"/sp%20ace.txt", b"/.hidden", b"/../etc/passwd", b"/%2e%2e/x", b"/a.txt/", b"/nope", b"/", b"/a.txt?x=1", b"/%00", b"/a%5Cb", b"/%E2%82%AC"];
    for u in file_uris {
        push(&mut cases, format!("files {}", hex(u)));
        push(&mut cases, format!("files ls=1 m=head {}", hex(u)));
        for r in [&b"bytes=0-4"[..], b"bytes=-5", b"bytes=5-", b"bytes=0-0,2-3", b"bytes=99999-", b"x"] {
            push(&mut cases, format!("files r={} {}", hex(r), hex(u)));
        }
    }
    for _ in 0..b(250) {
        let u = { let sd = rng.pick(file_uris).to_vec(); mutate(&mut rng, &sd) };
        let mut line = "files".to_owned();
        for (key, seeds) in [("r", 1usize), ("im", 6), ("inm", 7), ("ims", 9), ("ius", 10), ("ir", 8), ("ae", 4)] {
            if rng.chance(1, 4) {
                let v = hv_safe({ let sd = rng.pick(TYPED_SEEDS[seeds].1).to_vec(); mutate(&mut rng, &sd) });
                line.push_str(&format!(" {key}={}", hex(&v)));
            }
        }
        push(&mut cases, format!("{line} {}", hex(&u)));
    }

    // ------------------------------------------------------------------ multipart
    for s in MP_SEEDS {
        for ct in MP_CTS {
            push(&mut cases, format!("mp b={} seg=- {}", hex(ct), hex(s)));
        }
        for cut in 0..=s.len() {
            // truncation at every offset, whole and split in two at the cut
            push(&mut cases, format!("mp seg=- pend=0 {}", hex(&s[..cut])));
            push(&mut cases, format!("mp seg={cut} pend=2 {}", hex(s)));
        }
        push(&mut cases, format!("mp seg=1* pend=1 {}", hex(s)));
    }
    for _ in 0..b(1200) {
        let s = { let sd = rng.pick(MP_SEEDS).to_vec(); mutate(&mut rng, &sd) };
        let sp = seg_spec(&mut rng, s.len());
        let ct = if rng.chance(1, 5) { hv_safe({ let sd = rng.pick(MP_CTS).to_vec(); mutate(&mut rng, &sd) }) } else { MP_CTS[0].to_vec() };
        push(&mut cases, format!("mp b={} seg={sp} pend={} {}", hex(&ct), rng.below(3), hex(&s)));
    }

    // ------------------------------------------------------------------ h1 client codec
    for s in H1_RESP_SEEDS {
        push(&mut cases, format!("h1cli seg=- {}", hex(s)));
        push(&mut cases, format!("h1cli seg=1* {}", hex(s)));
        for cut in 0..=s.len() {
            push(&mut cases, format!("h1cli seg={cut} {}", hex(s)));
            push(&mut cases, format!("h1cli seg=- {}", hex(&s[..cut])));
        }
    }
    for _ in 0..b(2000) {
        let s = { let sd = rng.pick(H1_RESP_SEEDS).to_vec(); mutate(&mut rng, &sd) };
        let sp = seg_spec(&mut rng, s.len());
        push(&mut cases, format!("h1cli seg={sp} {}", hex(&s)));
    }
    for _ in 0..b(200) {
        let n = rng.range(0, 60);
        let s = rng.bytes(n);
        push(&mut cases, format!("h1cli seg=- {}", hex(&s)));
    }

    // ------------------------------------------------------------------ the whole stack over a socket
    for s in H1_SEEDS {
        push(&mut cases, format!("app seg=- {}", hex(s)));
        push(&mut cases, format!("app seg=1* {}", hex(s)));
        let step = if s.len() > 120 { 7 } else { 1 };
        for cut in (0..=s.len()).step_by(step) {
            push(&mut cases, format!("app seg=- pend=0 {}", hex(&s[..cut])));
            push(&mut cases, format!("app seg={cut} {}", hex(s)));
        }
    }
    for _ in 0..b(1500) {
        let mut s = { let sd = rng.pick(H1_SEEDS).to_vec(); mutate(&mut rng, &sd) };
        if rng.chance(1, 6) {
            // pipeline a second (valid) request behind it
            s.extend_from_slice(*rng.pick(H1_SEEDS));
        }
        let sp = seg_spec(&mut rng, s.len());
        push(&mut cases, format!("app seg={sp} {}", hex(&s)));
    }
    for _ in 0..b(150) {
        let n = rng.range(0, 80);
        let s = rng.bytes(n);
        push(&mut cases, format!("app seg=- {}", hex(&s)));
    }
    // request line with every path/query seed (raw bytes through the h1 server path)
    for p in PATH_SEEDS.iter().chain(QUERY_SEEDS.iter()) {
        let mut s = b"GET ".to_vec();
        if !p.starts_with(b"/") && !p.starts_with(b"http") && *p != b"*" {
            s.extend_from_slice(b"/q?");
        }
        s.extend_from_slice(p);
        s.extend_from_slice(b" HTTP/1.1\r\nHost: h\r\n\r\n");
        push(&mut cases, format!("app seg=- {}", hex(&s)));
    }
    // oversized heads
    for n in [8000usize, 70_000, 131_000, 140_000] {
        let mut s = b"GET /".to_vec();
        s.extend(std::iter::repeat(b'a').take(n));
        s.extend_from_slice(b" HTTP/1.1\r\nHost: h\r\n\r\n");
        push(&mut cases, format!("app seg=- pend=0 {}", hex(&s)));
        let mut h = b"GET / HTTP/1.1\r\nHost: h\r\nX-Big: ".to_vec();
        h.extend(std::iter::repeat(b'v').take(n));
        h.extend_from_slice(b"\r\n\r\n");
        push(&mut cases, format!("app seg=- pend=0 {}", hex(&h)));
    }
    // header *names* at and beyond http's 64 KiB limit (request and response side)
    for n in [65_534usize, 65_535, 65_536, 70_000] {
        let mut h = b"GET / HTTP/1.1\r\n".to_vec();
        h.extend(std::iter::repeat(b'a').take(n));
        h.extend_from_slice(b": x\r\n\r\n");
        push(&mut cases, format!("app seg=- pend=0 {}", hex(&h)));
        let mut r = b"HTTP/1.1 200 OK\r\n".to_vec();
        r.extend(std::iter::repeat(b'a').take(n));
        r.extend_from_slice(b": x\r\ncontent-length: 0\r\n\r\n");
        push(&mut cases, format!("h1cli seg=- {}", hex(&r)));
    }
    let mut many = b"GET / HTTP/1.1\r\n".to_vec();
    for i in 0..120 {
        many.extend_from_slice(format!("X-H{i}: v\r\n").as_bytes());
    }
    many.extend_from_slice(b"\r\n");
    push(&mut cases, format!("app seg=- {}", hex(&many)));

    cases
}

/// mostly header-value-safe (9 of 10), sometimes raw (exercises the `badhv` paths)
fn hv_safe_mostly(rng: &mut Rng, v: Vec<u8>) -> Vec<u8> {
    if rng.chance(9, 10) {
        hv_safe(v)
    } else {
        v
    }
}
