//! C19: minimal scripted in-memory socket + a wake-counting future driver with a poll budget.
//!
//! `Sock` hands the peer's bytes to the server segment by segment (optionally returning
//! `Pending` + self-wake between segments, so that the dispatcher runs on every fragment), then
//! reports EOF.  Everything written by the server is collected.  `drive` polls a future by hand
//! and tells apart: completed / livelock (poll budget exhausted) / stalled (Pending, nobody woke
//! us, even after letting timers run).
use std::{
    cell::RefCell,
    collections::VecDeque,
    future::Future,
    io,
    pin::Pin,
    rc::Rc,
    sync::{
        atomic::{AtomicBool, Ordering},
        Arc,
    },
    task::{Context, Poll, Wake, Waker},
    time::Duration,
};

use tokio::io::{AsyncRead, AsyncWrite, ReadBuf};

#[derive(Default)]
pub struct SockState {
    pub segs: VecDeque<Vec<u8>>,
    pub pend_between: bool,
    pended: bool,
    pub written: Vec<u8>,
    pub reads: usize,
    pub shutdown: bool,
}

#[derive(Clone)]
pub struct Sock(pub Rc<RefCell<SockState>>);

impl Sock {
    pub fn new(segs: Vec<Vec<u8>>, pend_between: bool) -> Sock {
        Sock(Rc::new(RefCell::new(SockState {
            segs: segs.into_iter().filter(|s| !s.is_empty()).collect(),
            pend_between,
            ..Default::default()
        })))
    }
}

impl AsyncRead for Sock {
    fn poll_read(self: Pin<&mut Self>, cx: &mut Context<'_>, buf: &mut ReadBuf<'_>) -> Poll<io::Result<()>> {
        let mut s = self.0.borrow_mut();
        s.reads += 1;
        if s.reads > 200_000 {
            return Poll::Ready(Err(io::Error::new(io::ErrorKind::Other, "read budget")));
        }
        if s.segs.is_empty() {
            // EOF
            return Poll::Ready(Ok(()));
        }
        if s.pend_between && !s.pended {
            s.pended = true;
            cx.waker().wake_by_ref();
            return Poll::Pending;
        }
        s.pended = false;
        let mut seg = s.segs.pop_front().unwrap();
        let n = seg.len().min(buf.remaining());
        buf.put_slice(&seg[..n]);
        if n < seg.len() {
            seg.drain(..n);
            s.segs.push_front(seg);
            s.pended = true; // rest of the same segment is available at once
        }
        Poll::Ready(Ok(()))
    }
}

impl AsyncWrite for Sock {
    fn poll_write(self: Pin<&mut Self>, _: &mut Context<'_>, buf: &[u8]) -> Poll<io::Result<usize>> {
        let mut s = self.0.borrow_mut();
        if s.written.len() < (4 << 20) {
            s.written.extend_from_slice(buf);
        }
        Poll::Ready(Ok(buf.len()))
    }
    fn poll_flush(self: Pin<&mut Self>, _: &mut Context<'_>) -> Poll<io::Result<()>> {
        Poll::Ready(Ok(()))
    }
    fn poll_shutdown(self: Pin<&mut Self>, _: &mut Context<'_>) -> Poll<io::Result<()>> {
        self.0.borrow_mut().shutdown = true;
        Poll::Ready(Ok(()))
    }
}

struct Flag(AtomicBool);
impl Wake for Flag {
    fn wake(self: Arc<Self>) {
        self.0.store(true, Ordering::SeqCst);
    }
    fn wake_by_ref(self: &Arc<Self>) {
        self.0.store(true, Ordering::SeqCst);
    }
}

pub enum Driven<T> {
    Done(T),
    /// poll budget exhausted while the future kept waking itself
    Livelock,
    /// Pending and nobody holds a wake-up for us (after `timer_rounds` sleeps of `timer_ms`)
    Stalled,
}

/// Poll `fut` by hand (must be called inside a tokio/actix runtime when the future uses timers).
pub async fn drive<F: Future>(fut: F, max_polls: usize, timer_ms: u64, timer_rounds: usize) -> Driven<F::Output> {
    let mut fut = Box::pin(fut);
    let flag = Arc::new(Flag(AtomicBool::new(false)));
    let waker = Waker::from(flag.clone());
    let mut cx = Context::from_waker(&waker);
    let mut polls = 0usize;
    let mut rounds = 0usize;
    loop {
        flag.0.store(false, Ordering::SeqCst);
        polls += 1;
        match fut.as_mut().poll(&mut cx) {
            Poll::Ready(v) => return Driven::Done(v),
            Poll::Pending => {
                if polls > max_polls {
                    return Driven::Livelock;
                }
                if !flag.0.load(Ordering::SeqCst) {
                    if rounds >= timer_rounds {
                        return Driven::Stalled;
                    }
                    rounds += 1;
                    // let the runtime's time driver fire whatever timers the future registered
                    tokio::time::sleep(Duration::from_millis(timer_ms)).await;
                }
            }
        }
    }
}

/// Same, for futures that use no timers at all: a Pending without a wake is a stall at once.
pub fn drive_sync<F: Future>(fut: F, max_polls: usize) -> Driven<F::Output> {
    let mut fut = Box::pin(fut);
    let flag = Arc::new(Flag(AtomicBool::new(false)));
    let waker = Waker::from(flag.clone());
    let mut cx = Context::from_waker(&waker);
    let mut polls = 0usize;
    loop {
        flag.0.store(false, Ordering::SeqCst);
        polls += 1;
        match fut.as_mut().poll(&mut cx) {
            Poll::Ready(v) => return Driven::Done(v),
            Poll::Pending => {
                if polls > max_polls {
                    return Driven::Livelock;
                }
                if !flag.0.load(Ordering::SeqCst) {
                    return Driven::Stalled;
                }
            }
        }
    }
}
