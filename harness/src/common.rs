//! Shared pieces of the correspondence harness: PRNG, hex, case runner, report files.
use std::{
    collections::{BTreeMap, HashSet},
    fs,
    hash::{Hash, Hasher},
    io::Write,
    panic::{catch_unwind, AssertUnwindSafe},
    path::PathBuf,
    sync::{
        atomic::{AtomicUsize, Ordering},
        Mutex,
    },
};

#[derive(Clone, Copy, PartialEq, Eq, Debug)]
pub enum Tier {
    Quick,
    Thorough,
    /// targeted burst after a disagreement: 10x the quick budget, different stream
    Burst,
}

#[derive(Clone, Debug)]
pub struct Ctx {
    pub tier: Tier,
    pub seed: u64,
    pub out: PathBuf,
}

impl Ctx {
    /// scale a quick-tier budget
    pub fn budget(&self, quick: usize) -> usize {
        match self.tier {
            Tier::Quick => quick,
            Tier::Thorough => quick * 12,
            Tier::Burst => quick * 10,
        }
    }
}

/// splitmix64: every random choice of a run derives from one seed.
#[derive(Clone)]
pub struct Rng(pub u64);

impl Rng {
    pub fn new(seed: u64) -> Self {
        Rng(seed ^ 0x9E37_79B9_7F4A_7C15)
    }
    pub fn next(&mut self) -> u64 {
        self.0 = self.0.wrapping_add(0x9E37_79B9_7F4A_7C15);
        let mut z = self.0;
        z = (z ^ (z >> 30)).wrapping_mul(0xBF58_476D_1CE4_E5B9);
        z = (z ^ (z >> 27)).wrapping_mul(0x94D0_49BB_1331_11EB);
        z ^ (z >> 31)
    }
    pub fn below(&mut self, n: usize) -> usize {
        if n == 0 {
            0
        } else {
            (self.next() % n as u64) as usize
        }
    }
    pub fn range(&mut self, lo: usize, hi_incl: usize) -> usize {
        lo + self.below(hi_incl - lo + 1)
    }
    pub fn chance(&mut self, num: usize, den: usize) -> bool {
        self.below(den) < num
    }
    pub fn pick<'a, T>(&mut self, xs: &'a [T]) -> &'a T {
        &xs[self.below(xs.len())]
    }
    pub fn bytes(&mut self, n: usize) -> Vec<u8> {
        (0..n).map(|_| self.next() as u8).collect()
    }
}

pub fn hex(bs: &[u8]) -> String {
    if bs.is_empty() {
        return "-".to_owned();
    }
    let mut s = String::with_capacity(bs.len() * 2);
    for b in bs {
        s.push_str(&format!("{:02x}", b));
    }
    s
}

pub fn hex0(bs: &[u8]) -> String {
    let mut s = String::with_capacity(bs.len() * 2);
    for b in bs {
        s.push_str(&format!("{:02x}", b));
    }
    s
}

pub fn unhex(s: &str) -> Option<Vec<u8>> {
    if s == "-" {
        return Some(vec![]);
    }
    if s.len() % 2 != 0 {
        return None;
    }
    (0..s.len() / 2)
        .map(|i| u8::from_str_radix(&s[2 * i..2 * i + 2], 16).ok())
        .collect()
}

/// `key=value` lookup among space separated words
pub fn kv<'a>(line: &'a str, key: &str) -> Option<&'a str> {
    line.split_ascii_whitespace()
        .find_map(|w| w.strip_prefix(key).and_then(|r| r.strip_prefix('=')))
}

/// Result of running one case against the real code.
#[derive(Clone, Debug, Default)]
pub struct CaseResult {
    /// canonical observable output, compared byte-for-byte with the Lean model's output line
    pub output: String,
    /// spec-level verdict on the implementation's own output, independent of the model:
    /// `None` = property holds on this case; `Some((signature, detail))` = it does not
    pub fail: Option<(String, String)>,
    /// reached a non-error / non-trivial branch (by the property's stated rule)
    pub nontrivial: bool,
    /// branch / kind tags for the distribution histogram
    pub tags: Vec<String>,
}

impl CaseResult {
    pub fn ok(output: String) -> Self {
        CaseResult { output, fail: None, nontrivial: true, tags: vec![] }
    }
    pub fn tag(mut self, t: &str) -> Self {
        self.tags.push(t.to_owned());
        self
    }
    pub fn fail(mut self, sig: &str, detail: String) -> Self {
        if self.fail.is_none() {
            self.fail = Some((sig.to_owned(), detail.replace('\n', " ")));
        }
        self
    }
}

fn panic_msg(e: Box<dyn std::any::Any + Send>) -> String {
    if let Some(s) = e.downcast_ref::<&str>() {
        s.to_string()
    } else if let Some(s) = e.downcast_ref::<String>() {
        s.clone()
    } else {
        "?".to_owned()
    }
}

/// Run one case under `catch_unwind`; a panic is an output (`PANIC`) and an oracle failure.
pub fn guarded(input: &str, f: &(dyn Fn(&str) -> CaseResult + Sync)) -> CaseResult {
    match catch_unwind(AssertUnwindSafe(|| f(input))) {
        Ok(r) => r,
        Err(e) => {
            let msg = panic_msg(e).replace('\n', " ");
            CaseResult {
                output: "PANIC".to_owned(),
                fail: Some(("panic".to_owned(), msg)),
                nontrivial: true,
                tags: vec!["panic".to_owned()],
            }
        }
    }
}

/// Run all cases (in parallel, order preserved). `wrap` lets async properties install a runtime
/// per worker thread.
pub fn run_cases(
    cases: &[String],
    threads: usize,
    f: &(dyn Fn(&str) -> CaseResult + Sync),
) -> Vec<CaseResult> {
    let n = cases.len();
    let results: Vec<Mutex<Option<CaseResult>>> = (0..n).map(|_| Mutex::new(None)).collect();
    let next = AtomicUsize::new(0);
    let threads = threads.max(1).min(n.max(1));
    std::thread::scope(|s| {
        for _ in 0..threads {
            s.spawn(|| loop {
                let i = next.fetch_add(1, Ordering::SeqCst);
                if i >= n {
                    break;
                }
                let r = guarded(&cases[i], f);
                *results[i].lock().unwrap() = Some(r);
            });
        }
    });
    results.into_iter().map(|m| m.into_inner().unwrap().unwrap()).collect()
}

fn hash_str(s: &str) -> u64 {
    let mut h = std::collections::hash_map::DefaultHasher::new();
    s.hash(&mut h);
    h.finish()
}

/// Write cases.txt / impl.txt / oracle.txt / stats.json into `ctx.out`.
pub fn write_report(ctx: &Ctx, prop: &str, rule: &str, cases: &[String], results: &[CaseResult]) {
    fs::create_dir_all(&ctx.out).unwrap();
    let mut fc = fs::File::create(ctx.out.join("cases.txt")).unwrap();
    let mut fi = fs::File::create(ctx.out.join("impl.txt")).unwrap();
    let mut fo = fs::File::create(ctx.out.join("oracle.txt")).unwrap();
    let mut distinct: HashSet<u64> = HashSet::new();
    let mut hist: BTreeMap<String, usize> = BTreeMap::new();
    let mut fails = 0usize;
    for (c, r) in cases.iter().zip(results) {
        writeln!(fc, "{}", c).unwrap();
        writeln!(fi, "{}", r.output).unwrap();
        match &r.fail {
            None => writeln!(fo, "ok").unwrap(),
            Some((sig, d)) => {
                fails += 1;
                writeln!(fo, "FAIL {} {}", sig, d).unwrap()
            }
        }
        if r.nontrivial {
            distinct.insert(hash_str(c) ^ hash_str(&r.output).rotate_left(17));
        }
        for t in &r.tags {
            *hist.entry(t.clone()).or_insert(0) += 1;
        }
    }
    let samples: Vec<serde_json::Value> = cases
        .iter()
        .zip(results)
        .filter(|(_, r)| r.nontrivial)
        .step_by((cases.len() / 3).max(1))
        .take(3)
        .map(|(c, r)| {
            let cut = |s: &str| if s.len() > 400 { format!("{}…", &s[..400]) } else { s.to_owned() };
            serde_json::json!({"case": cut(c), "impl": cut(&r.output)})
        })
        .collect();
    let stats = serde_json::json!({
        "property": prop,
        "evaluations": cases.len(),
        "distinct_nontrivial": distinct.len(),
        "rule": rule,
        "oracle_failures": fails,
        "histogram": hist,
        "samples": samples,
        "seed": ctx.seed,
    });
    fs::write(ctx.out.join("stats.json"), serde_json::to_string_pretty(&stats).unwrap()).unwrap();
}

/// Block on a future inside a fresh single-threaded actix System (needed by everything that
/// touches `ServiceConfig`/`DateService`).
pub fn block_on_system<F: std::future::Future>(f: F) -> F::Output {
    actix_rt::System::new().block_on(f)
}
