//! `vh <prop> --tier quick|thorough|burst --seed N --out DIR [--cases FILE] [--only-cases]`
//!
//! Generates the case stream for a property (corpus file first, if given), runs every case
//! against the real actix-web code in-process, and writes cases.txt / impl.txt / oracle.txt /
//! stats.json. The Lean model driver is run on cases.txt by `/verif/check`.
mod common;
mod props;

use common::{Ctx, Tier};

fn main() {
    let args: Vec<String> = std::env::args().collect();
    if args.len() < 2 {
        eprintln!("usage: vh <prop> [--tier T] [--seed N] [--out DIR] [--cases FILE] [--only-cases]");
        std::process::exit(2);
    }
    let prop = args[1].to_lowercase();
    let mut tier = Tier::Quick;
    let mut seed = 1u64;
    let mut out = std::path::PathBuf::from("out");
    let mut cases_file: Option<String> = None;
    let mut only = false;
    let mut i = 2;
    while i < args.len() {
        match args[i].as_str() {
            "--tier" => {
                tier = match args[i + 1].as_str() {
                    "thorough" => Tier::Thorough,
                    "burst" => Tier::Burst,
                    _ => Tier::Quick,
                };
                i += 1;
            }
            "--seed" => {
                seed = args[i + 1].parse().unwrap_or(1);
                i += 1;
            }
            "--out" => {
                out = args[i + 1].clone().into();
                i += 1;
            }
            "--cases" => {
                cases_file = Some(args[i + 1].clone());
                i += 1;
            }
            "--only-cases" => only = true,
            _ => {}
        }
        i += 1;
    }
    // keep panics of the code under test out of the log; they are reported as outputs
    std::panic::set_hook(Box::new(|_| {}));
    let ctx = Ctx { tier, seed, out };
    let mut cases: Vec<String> = Vec::new();
    if let Some(f) = cases_file {
        for l in std::fs::read_to_string(&f).unwrap_or_default().lines() {
            let l = l.trim_end();
            if !l.is_empty() && !l.starts_with('#') {
                cases.push(l.to_owned());
            }
        }
    }
    let Some(p) = props::lookup(&prop) else {
        eprintln!("unknown property {prop}");
        std::process::exit(2);
    };
    if !only {
        cases.extend((p.gen)(&ctx));
    }
    let threads = std::thread::available_parallelism().map(|n| n.get()).unwrap_or(4);
    let results = common::run_cases(&cases, if p.parallel { threads } else { 1 }, &*p.run);
    common::write_report(&ctx, &prop, p.rule, &cases, &results);
}
