//! C01 — HTTP/1 request framing is unambiguous and independent of TCP segmentation.
//!
//! Two correspondence levels, both through public API only:
//!  * `codec`: `actix_http::h1::Codec` driven exactly like the dispatcher's decode loop
//!    (append segment, decode while progress, stop for ever after the first error);
//!  * `conn`: `HttpService::build().h1(recording service)` over a scripted in-memory socket
//!    (`crate::c01_sock`), polled by a wake-driven loop until it completes or goes quiescent.
//!
//! Case line:  `<codec|conn> s=<seg-spec> [e=<0|1>] [wp=<0|1>] [rb=<0|1|2>] [x=<fnv64 of expected output>] [cls=<label>] <stream-hex>`
//!             (`e=1`: the peer closes after the last segment; `wp=1`: every other `poll_write` is `Pending`)
//! seg-spec:   `w` whole · `b1` one byte per read · `a2` family of *all* 2-cuts (output = whole
//!             result + `A2:ok` / `A2:<first differing offset>`) · `c<o1>.<o2>…` explicit cut offsets
//!             (a repeated offset is an empty read).
//! Output:     one `M:<method>:<target-hex>:<ver>:<hdrs>:<n|p|s>:<body>:<state>` token per request the
//!             decoder / the service saw, then `R400|R431|RIO` (reject) or `Th<buffered>` / `Tb` (waiting
//!             for a head / inside a body); conn level adds `S:<statuses written>` and `C<0|1>`.
use std::{
    cell::RefCell,
    future::Future,
    pin::Pin,
    rc::Rc,
    sync::{
        atomic::{AtomicBool, Ordering},
        Arc,
    },
    task::{Context, Poll, Wake, Waker},
};

use actix_codec::Decoder as _;
use actix_http::{
    body::{BodyStream, BoxBody},
    h1, HttpMessage as _, HttpService, Request, Response,
};
use actix_service::{fn_service, Service as _, ServiceFactory as _};
use bytes::{Bytes, BytesMut};
use futures_util::StreamExt as _;

use super::Prop;
use crate::common::{block_on_system, hex, hex0, kv, unhex, CaseResult, Ctx, Rng, Tier};

#[path = "../c01_sock.rs"]
mod c01_sock;
use c01_sock::{ScriptSock, SockLog, Step};

const RULE: &str = "cases = byte streams produced by the harness's own encoder from abstract request pipelines \
(1-6 requests; GET/HEAD/POST/PUT/DELETE/OPTIONS/CONNECT/custom; HTTP/1.0 and 1.1; no body / Content-Length / chunked with \
sizes 0..70000, extensions, BWS, hex case; header case/OWS variation; upgrade), optionally with one malformed-framing \
class injected at a random position and well-formed requests after it, each delivered under every segmentation family \
(whole, ALL 2-cuts, 1-byte reads, random k-cuts with empty reads); level `codec` drives h1::Codec directly, level `conn` \
drives HttpService::h1 with a recording service over a scripted socket (Pending between reads, optional EOF); \
non-trivial = at least one request was delivered or a reject was produced; distinct = distinct (case, output) hashes";

pub const MAX_BUFFER_SIZE: usize = 131_072;

// ------------------------------------------------------------------------------------------
// canonical form

#[derive(Clone, Debug, PartialEq, Eq)]
pub struct Msg {
    pub method: String,
    pub target: Vec<u8>,
    pub ver: u8,
    pub hdrs: Vec<(String, Vec<u8>)>,
    /// n = no body, p = payload (length / chunked), s = stream (upgrade / CONNECT)
    pub kind: char,
    pub body: Vec<u8>,
    /// c = complete, p = still expecting bytes, i = Incomplete error, e = EncodingCorrupted, o = other error
    pub done: char,
}

pub fn fnv64(bs: &[u8]) -> u64 {
    let mut h: u64 = 0xcbf2_9ce4_8422_2325;
    for b in bs {
        h ^= *b as u64;
        h = h.wrapping_mul(0x0000_0100_0000_01b3);
    }
    h
}

fn show_body(b: &[u8]) -> String {
    if b.is_empty() {
        "-".into()
    } else if b.len() <= 24 {
        hex0(b)
    } else {
        format!("#{}.{:016x}", b.len(), fnv64(b))
    }
}

fn show_hdrs(h: &[(String, Vec<u8>)]) -> String {
    if h.is_empty() {
        return "-".into();
    }
    let mut v: Vec<&(String, Vec<u8>)> = h.iter().collect();
    v.sort_by(|a, b| a.0.cmp(&b.0)); // stable: values of one name stay in arrival order
    v.iter().map(|(n, val)| format!("{}={}", n, hex0(val))).collect::<Vec<_>>().join(",")
}

impl Msg {
    pub fn show(&self) -> String {
        format!(
            "M:{}:{}:{}:{}:{}:{}:{}",
            self.method,
            hex0(&self.target),
            if self.ver == 1 { "1.1" } else { "1.0" },
            show_hdrs(&self.hdrs),
            self.kind,
            show_body(&self.body),
            self.done
        )
    }
}

#[derive(Clone, Debug, PartialEq, Eq)]
pub enum End {
    Reject(u16),
    /// payload decoder error (`ParseError::Io` at codec level)
    RejectIo,
    TailHead(usize),
    TailBody,
    /// the decode loop kept yielding messages without consuming input
    Livelock,
}

impl End {
    fn show(&self) -> String {
        match self {
            End::Reject(s) => format!("R{}", s),
            End::RejectIo => "RIO".into(),
            End::TailHead(n) => format!("Th{}", n),
            End::TailBody => "Tb".into(),
            End::Livelock => "LIVELOCK".into(),
        }
    }
    fn is_reject(&self) -> bool {
        matches!(self, End::Reject(_) | End::RejectIo)
    }
}

fn show_run(msgs: &[Msg], end: &End) -> String {
    let mut v: Vec<String> = msgs.iter().map(|m| m.show()).collect();
    v.push(end.show());
    v.join(" ")
}

// ------------------------------------------------------------------------------------------
// segmentation specs

#[derive(Clone, Debug)]
enum Spec {
    Whole,
    Bytes1,
    All2,
    Cuts(Vec<usize>),
}

fn parse_spec(s: &str) -> Option<Spec> {
    match s {
        "w" => Some(Spec::Whole),
        "b1" => Some(Spec::Bytes1),
        "a2" => Some(Spec::All2),
        _ => {
            let r = s.strip_prefix('c')?;
            let mut v = Vec::new();
            for p in r.split('.') {
                v.push(p.parse::<usize>().ok()?);
            }
            Some(Spec::Cuts(v))
        }
    }
}

/// split `stream` at the given offsets (clamped, made monotone): k cuts ⇒ k+1 segments
fn split_at(stream: &[u8], cuts: &[usize]) -> Vec<Vec<u8>> {
    let mut segs = Vec::new();
    let mut prev = 0usize;
    for &c in cuts {
        let c = c.min(stream.len()).max(prev);
        segs.push(stream[prev..c].to_vec());
        prev = c;
    }
    segs.push(stream[prev..].to_vec());
    segs
}

fn segments(stream: &[u8], spec: &Spec) -> Vec<Vec<u8>> {
    match spec {
        Spec::Whole | Spec::All2 => vec![stream.to_vec()],
        Spec::Bytes1 => stream.iter().map(|b| vec![*b]).collect(),
        Spec::Cuts(c) => split_at(stream, c),
    }
}

// ------------------------------------------------------------------------------------------
// level 1: the real h1::Codec

fn req_to_msg(req: &Request, kind: char) -> Msg {
    let mut hdrs: Vec<(String, Vec<u8>)> = Vec::new();
    for (n, v) in req.headers().iter() {
        hdrs.push((n.as_str().to_owned(), v.as_bytes().to_vec()));
    }
    Msg {
        method: req.method().as_str().to_owned(),
        target: req.uri().to_string().into_bytes(),
        ver: if req.version() == actix_http::Version::HTTP_11 { 1 } else { 0 },
        hdrs,
        kind,
        body: Vec::new(),
        done: if kind == 'n' { 'c' } else { 'p' },
    }
}

/// Drive the codec the way `InnerDispatcher::poll_request` does. Must run inside a System.
fn run_codec(segs: &[Vec<u8>]) -> (Vec<Msg>, End) {
    let mut codec = h1::Codec::default();
    let mut buf = BytesMut::new();
    let mut msgs: Vec<Msg> = Vec::new();
    for seg in segs {
        buf.extend_from_slice(seg);
        // every message consumes a byte or empties the payload slot: more than this many
        // iterations for one read means the decoder yields without progress
        let mut budget = 2 * buf.len() + 16;
        loop {
            if budget == 0 {
                return (msgs, End::Livelock);
            }
            budget -= 1;
            match codec.decode(&mut buf) {
                Ok(Some(h1::Message::Item(req))) => {
                    let kind = match codec.message_type() {
                        h1::MessageType::None => 'n',
                        h1::MessageType::Payload => 'p',
                        h1::MessageType::Stream => 's',
                    };
                    msgs.push(req_to_msg(&req, kind));
                }
                Ok(Some(h1::Message::Chunk(Some(b)))) => {
                    if let Some(m) = msgs.last_mut() {
                        m.body.extend_from_slice(&b);
                    }
                }
                Ok(Some(h1::Message::Chunk(None))) => {
                    if let Some(m) = msgs.last_mut() {
                        m.done = 'c';
                    }
                }
                Ok(None) => break,
                Err(e) => {
                    let end = match e {
                        actix_http::error::ParseError::TooLarge => End::Reject(431),
                        actix_http::error::ParseError::Io(_) => End::RejectIo,
                        _ => End::Reject(400),
                    };
                    return (msgs, end);
                }
            }
        }
    }
    let in_body = msgs.last().map(|m| m.done == 'p').unwrap_or(false);
    let end = if in_body { End::TailBody } else { End::TailHead(buf.len()) };
    (msgs, end)
}

// ------------------------------------------------------------------------------------------
// level 2: HttpService::h1 + recording service over the scripted socket

struct Flag(AtomicBool);
impl Wake for Flag {
    fn wake(self: Arc<Self>) {
        self.0.store(true, Ordering::SeqCst);
    }
    fn wake_by_ref(self: &Arc<Self>) {
        self.0.store(true, Ordering::SeqCst);
    }
}

#[derive(Clone, Debug, PartialEq, Eq)]
struct ConnRun {
    calls: Vec<Msg>,
    statuses: Vec<u16>,
    closed: bool,
    livelock: bool,
    junk: bool,
}

impl ConnRun {
    fn show(&self) -> String {
        let mut v: Vec<String> = self.calls.iter().map(|m| m.show()).collect();
        v.push(format!(
            "S:{}",
            if self.statuses.is_empty() {
                "-".to_owned()
            } else {
                self.statuses.iter().map(|s| s.to_string()).collect::<Vec<_>>().join(",")
            }
        ));
        v.push(format!("C{}", self.closed as u8));
        if self.livelock {
            v.push("LIVELOCK".into());
        }
        if self.junk {
            v.push("JUNK".into());
        }
        v.join(" ")
    }
}

/// statuses of the responses found in the bytes the server wrote (own small parser): the i-th
/// response answers the i-th request the service saw (`methods[i]`; a response to HEAD has no
/// body whatever its headers say); bodies are delimited by content-length or chunked framing
fn parse_statuses(w: &[u8], methods: &[String]) -> (Vec<u16>, bool) {
    let mut out = Vec::new();
    let mut p = 0usize;
    while p < w.len() {
        let rest = &w[p..];
        let Some(e) = find(rest, b"\r\n\r\n") else { return (out, true) };
        let head = &rest[..e];
        if head.len() < 12 || !head.starts_with(b"HTTP/1.") {
            return (out, true);
        }
        let Ok(st) = std::str::from_utf8(&head[9..12]).unwrap_or("x").parse::<u16>() else { return (out, true) };
        let is_head = methods.get(out.len()).map(|m| m == "HEAD").unwrap_or(false);
        out.push(st);
        let mut cl = 0usize;
        let mut chunked = false;
        for line in head.split(|b| *b == b'\n') {
            let l = String::from_utf8_lossy(line).to_ascii_lowercase();
            if let Some(v) = l.strip_prefix("content-length:") {
                cl = v.trim().parse().unwrap_or(0);
            }
            if let Some(v) = l.strip_prefix("transfer-encoding:") {
                chunked = v.trim() == "chunked";
            }
        }
        p += e + 4;
        if is_head {
            continue;
        }
        if chunked {
            loop {
                let Some(le) = find(&w[p.min(w.len())..], b"\r\n") else { return (out, true) };
                let Ok(n) = usize::from_str_radix(std::str::from_utf8(&w[p..p + le]).unwrap_or("x"), 16) else {
                    return (out, true);
                };
                p += le + 2 + n + 2;
                if p > w.len() {
                    return (out, true);
                }
                if n == 0 {
                    break;
                }
            }
        } else {
            p += cl;
        }
    }
    (out, p != w.len())
}

fn find(h: &[u8], n: &[u8]) -> Option<usize> {
    if h.len() < n.len() {
        return None;
    }
    (0..=h.len() - n.len()).find(|&i| &h[i..i + n.len()] == n)
}

fn run_conn(segs: &[Vec<u8>], eof: bool, wp: bool, rb: u8) -> ConnRun {
    block_on_system(async move {
        let calls: Rc<RefCell<Vec<Msg>>> = Rc::new(RefCell::new(Vec::new()));
        let calls2 = calls.clone();
        let svc = HttpService::build()
            .h1(fn_service(move |mut req: Request| {
                let calls = calls2.clone();
                async move {
                    let mut pl = req.take_payload();
                    let idx = {
                        let mut c = calls.borrow_mut();
                        // the service cannot see the codec's n/p/s classification
                        let mut m = req_to_msg(&req, '?');
                        m.done = 'p';
                        c.push(m);
                        c.len() - 1
                    };
                    let mut done = 'c';
                    while let Some(item) = pl.next().await {
                        match item {
                            Ok(b) => calls.borrow_mut()[idx].body.extend_from_slice(&b),
                            Err(e) => {
                                done = match e {
                                    actix_http::error::PayloadError::Incomplete(_) => 'i',
                                    actix_http::error::PayloadError::EncodingCorrupted => 'e',
                                    _ => 'o',
                                };
                                break;
                            }
                        }
                    }
                    calls.borrow_mut()[idx].done = done;
                    // rb=0: empty body (response completes inside send_response);
                    // rb=1: sized non-empty body, rb=2: streamed body where the protocol allows it
                    // (both go through State::SendPayload and end in poll_response)
                    // (an upgrade / CONNECT exchange has no chunked framing: its streamed body would be close-delimited)
                    let stream_ok = req.version() == actix_http::Version::HTTP_11
                        && req.method() != actix_http::Method::HEAD
                        && !req.upgrade();
                    let res: Response<BoxBody> = match rb {
                        0 => Response::ok().map_into_boxed_body(),
                        2 if stream_ok => Response::ok().set_body(BoxBody::new(BodyStream::new(futures_util::stream::iter(vec![
                            Ok::<_, actix_http::Error>(Bytes::from_static(b"01234")),
                            Ok(Bytes::from_static(b"56789")),
                        ])))),
                        _ => Response::ok().set_body(BoxBody::new(Bytes::from_static(b"0123456789"))),
                    };
                    Ok::<_, actix_http::Error>(res)
                }
            }))
            .new_service(())
            .await
            .expect("service");
        let mut steps: Vec<Step> = Vec::new();
        for (i, s) in segs.iter().enumerate() {
            if i > 0 {
                steps.push(Step::Pending);
            }
            steps.push(Step::Data(s.clone()));
        }
        if eof {
            steps.push(Step::Pending);
            steps.push(Step::Eof);
        }
        let log = Rc::new(RefCell::new(SockLog::default()));
        let sock = ScriptSock::new(steps, wp, log.clone());
        let mut fut: Pin<Box<dyn Future<Output = _>>> = Box::pin(svc.call((sock, None)));
        let flag = Arc::new(Flag(AtomicBool::new(true)));
        let waker = Waker::from(flag.clone());
        let mut cx = Context::from_waker(&waker);
        let mut polls = 0usize;
        let mut completed = false;
        let mut livelock = false;
        loop {
            if !flag.0.swap(false, Ordering::SeqCst) {
                break; // quiescent: nobody asked to be polled again
            }
            polls += 1;
            if polls > 400_000 {
                livelock = true;
                break;
            }
            if let Poll::Ready(_r) = fut.as_mut().poll(&mut cx) {
                completed = true;
                break;
            }
        }
        drop(fut);
        let l = log.borrow();
        let calls = calls.borrow().clone();
        let methods: Vec<String> = calls.iter().map(|m| m.method.clone()).collect();
        let (statuses, junk) = parse_statuses(&l.written, &methods);
        ConnRun { calls, statuses, closed: completed || l.shutdown, livelock, junk }
    })
}

// ------------------------------------------------------------------------------------------
// independent reference: a strict RFC 7230 §3.3 / §4.1 request-stream parser (whole stream,
// sequential), with the documented tolerances (BWS after chunk-size, lax chunk-ext bytes,
// no trailers, actix's HTTP/1.0-POST and upgrade rules).

fn is_tchar(b: u8) -> bool {
    b.is_ascii_alphanumeric() || b"!#$%&'*+-.^_`|~".contains(&b)
}

fn trim_ows(v: &[u8]) -> &[u8] {
    let mut a = 0;
    let mut b = v.len();
    while a < b && (v[a] == b' ' || v[a] == b'\t') {
        a += 1;
    }
    while b > a && (v[b - 1] == b' ' || v[b - 1] == b'\t') {
        b -= 1;
    }
    &v[a..b]
}

fn safe_target(t: &[u8]) -> bool {
    const OK: &[u8] = b"/?&=._-~%+:@,;!$'()*";
    !t.is_empty() && t.iter().all(|b| b.is_ascii_alphanumeric() || OK.contains(b))
}

pub enum RefOut {
    /// the stream leaves the class for which the reference claims to know the answer
    OutOfClass(&'static str),
    Run(Vec<Msg>, End, Option<&'static str>),
}

pub fn reference(s: &[u8]) -> RefOut {
    let mut msgs: Vec<Msg> = Vec::new();
    let mut pos = 0usize;
    loop {
        // ---- head
        let start = pos;
        let mut p = pos;
        while s.len() >= p + 2 && &s[p..p + 2] == b"\r\n" {
            p += 2;
        }
        let Some(e) = find(&s[p..], b"\r\n\r\n") else {
            if s[p..].contains(&b'\n') && find(&s[p..], b"\n").map(|i| i == 0 || s[p + i - 1] != b'\r').unwrap_or(false) {
                return RefOut::OutOfClass("bare LF");
            }
            return if s.len() - start >= MAX_BUFFER_SIZE {
                RefOut::Run(msgs, End::Reject(431), Some("oversized-head"))
            } else {
                RefOut::Run(msgs, End::TailHead(s.len() - start), None)
            };
        };
        let head = &s[p..p + e];
        pos = p + e + 4;
        let mut lines: Vec<&[u8]> = Vec::new();
        {
            let mut q = 0usize;
            while let Some(i) = find(&head[q..], b"\r\n") {
                lines.push(&head[q..q + i]);
                q += i + 2;
            }
            lines.push(&head[q..]);
        }
        if head.contains(&b'\n') && lines.iter().any(|l| l.contains(&b'\n') || l.contains(&b'\r')) {
            return RefOut::OutOfClass("bare CR/LF inside head");
        }
        let rl: Vec<&[u8]> = lines[0].split(|b| *b == b' ').collect();
        if rl.len() != 3 || rl[0].is_empty() || !rl[0].iter().all(|b| is_tchar(*b)) {
            return RefOut::Run(msgs, End::Reject(400), Some("syntax-request-line"));
        }
        if !safe_target(rl[1]) {
            return RefOut::OutOfClass("target");
        }
        let ver = match rl[2] {
            b"HTTP/1.1" => 1u8,
            b"HTTP/1.0" => 0u8,
            _ => return RefOut::Run(msgs, End::Reject(400), Some("syntax-version")),
        };
        let mut hdrs: Vec<(String, Vec<u8>)> = Vec::new();
        for l in &lines[1..] {
            let Some(c) = l.iter().position(|b| *b == b':') else {
                return RefOut::Run(msgs, End::Reject(400), Some("syntax-header-no-colon"));
            };
            let name = &l[..c];
            if name.is_empty() || !name.iter().all(|b| is_tchar(*b)) {
                return RefOut::Run(msgs, End::Reject(400), Some("syntax-header-name"));
            }
            if name.len() > 65535 {
                // limit of the `http` crate's HeaderName (documented implementation limit)
                return RefOut::Run(msgs, End::Reject(400), Some("header-name-too-long"));
            }
            let val = trim_ows(&l[c + 1..]);
            if !val.iter().all(|b| *b == b'\t' || (*b >= 0x20 && *b != 0x7f)) {
                return RefOut::Run(msgs, End::Reject(400), Some("syntax-header-value"));
            }
            hdrs.push((String::from_utf8_lossy(name).to_ascii_lowercase(), val.to_vec()));
        }
        if hdrs.len() > 96 {
            return RefOut::Run(msgs, End::Reject(431), Some("too-many-headers"));
        }
        let method = String::from_utf8_lossy(rl[0]).into_owned();
        // ---- framing (RFC 7230 §3.3.3 for requests + the property's malformed classes)
        let ascii = |v: &[u8]| v.iter().all(|b| *b == b'\t' || (*b >= 0x20 && *b < 0x7f));
        let cls: Vec<&Vec<u8>> = hdrs.iter().filter(|h| h.0 == "content-length").map(|h| &h.1).collect();
        let tes: Vec<&Vec<u8>> = hdrs.iter().filter(|h| h.0 == "transfer-encoding").map(|h| &h.1).collect();
        let mut reject: Option<&'static str> = None;
        let mut chunked = false;
        let mut cl: Option<u64> = None;
        if !tes.is_empty() {
            if ver == 0 {
                reject = Some("te-on-http10");
            } else if tes.len() > 1 {
                reject = Some("te-repeated");
            } else if !(ascii(tes[0]) && tes[0].eq_ignore_ascii_case(b"chunked")) {
                reject = Some("te-not-chunked");
            } else if !cls.is_empty() {
                reject = Some("cl-and-te");
            } else {
                chunked = true;
            }
        }
        if reject.is_none() && !cls.is_empty() {
            if cls.len() > 1 {
                reject = Some("cl-repeated");
            } else {
                let v = cls[0];
                if v.is_empty() || !v.iter().all(|b| b.is_ascii_digit()) {
                    reject = Some("cl-not-a-number");
                } else {
                    match std::str::from_utf8(v).unwrap().parse::<u64>() {
                        Ok(n) => cl = Some(n),
                        Err(_) => reject = Some("cl-overflow"),
                    }
                }
            }
        }
        let upgrade_ws = hdrs.iter().any(|h| h.0 == "upgrade" && ascii(&h.1) && h.1.eq_ignore_ascii_case(b"websocket"));
        if reject.is_none() && ver == 0 && method == "POST" && !chunked && !upgrade_ws && cl.is_none() {
            reject = Some("http10-post-without-cl");
        }
        if let Some(r) = reject {
            return RefOut::Run(msgs, End::Reject(400), Some(r));
        }
        let kind = if chunked {
            'p'
        } else if upgrade_ws {
            's'
        } else if cl.unwrap_or(0) > 0 {
            'p'
        } else if method == "CONNECT" {
            's'
        } else {
            'n'
        };
        let mut m = Msg { method, target: rl[1].to_vec(), ver, hdrs, kind, body: Vec::new(), done: 'p' };
        // ---- body
        if kind == 'n' {
            m.done = 'c';
            msgs.push(m);
            continue;
        }
        if kind == 's' {
            m.body = s[pos..].to_vec();
            msgs.push(m);
            return RefOut::Run(msgs, End::TailBody, None);
        }
        if !chunked {
            let n = cl.unwrap();
            let avail = (s.len() - pos) as u64;
            if avail < n {
                m.body = s[pos..].to_vec();
                msgs.push(m);
                return RefOut::Run(msgs, End::TailBody, None);
            }
            m.body = s[pos..pos + n as usize].to_vec();
            m.done = 'c';
            pos += n as usize;
            msgs.push(m);
            continue;
        }
        // chunked
        macro_rules! partial {
            () => {{
                msgs.push(m);
                return RefOut::Run(msgs, End::TailBody, None);
            }};
        }
        macro_rules! bad {
            ($r:expr) => {{
                msgs.push(m);
                return RefOut::Run(msgs, End::RejectIo, Some($r));
            }};
        }
        'chunks: loop {
            // chunk-size = 1*HEXDIG
            let mut size: u128 = 0;
            let mut digits = 0usize;
            loop {
                if pos >= s.len() {
                    partial!()
                }
                let b = s[pos];
                let d = match b {
                    b'0'..=b'9' => b - b'0',
                    b'a'..=b'f' => b - b'a' + 10,
                    b'A'..=b'F' => b - b'A' + 10,
                    _ => break,
                };
                size = size * 16 + d as u128;
                digits += 1;
                pos += 1;
                if size > u64::MAX as u128 {
                    bad!("chunk-size-overflow")
                }
            }
            if digits == 0 {
                bad!("chunk-size-empty")
            }
            // BWS (tolerance O2)
            let mut lws = false;
            while pos < s.len() && (s[pos] == b' ' || s[pos] == b'\t') {
                pos += 1;
                lws = true;
            }
            if pos >= s.len() {
                partial!()
            }
            if s[pos] == b';' {
                pos += 1;
                loop {
                    if pos >= s.len() {
                        partial!()
                    }
                    let b = s[pos];
                    if b == b'\r' {
                        break;
                    }
                    if b <= 0x08 || (0x0a..=0x1f).contains(&b) || b == 0x7f {
                        bad!("chunk-ext-control-char")
                    }
                    pos += 1;
                }
            }
            if s[pos] != b'\r' {
                if lws {
                    bad!("chunk-size-then-garbage")
                } else {
                    bad!("chunk-size-bad-digit")
                }
            }
            pos += 1;
            if pos >= s.len() {
                partial!()
            }
            if s[pos] != b'\n' {
                bad!("chunk-size-line-no-lf")
            }
            pos += 1;
            if size == 0 {
                // last-chunk; trailers are not supported (documented over-strictness)
                if pos >= s.len() {
                    partial!()
                }
                if s[pos] != b'\r' {
                    bad!("chunk-trailer-or-garbage")
                }
                pos += 1;
                if pos >= s.len() {
                    partial!()
                }
                if s[pos] != b'\n' {
                    bad!("chunk-end-no-lf")
                }
                pos += 1;
                m.done = 'c';
                msgs.push(m);
                break 'chunks;
            }
            let avail = (s.len() - pos) as u128;
            if avail < size {
                m.body.extend_from_slice(&s[pos..]);
                partial!()
            }
            m.body.extend_from_slice(&s[pos..pos + size as usize]);
            pos += size as usize;
            if pos >= s.len() {
                partial!()
            }
            if s[pos] != b'\r' {
                bad!("chunk-data-no-cr")
            }
            pos += 1;
            if pos >= s.len() {
                partial!()
            }
            if s[pos] != b'\n' {
                bad!("chunk-data-no-lf")
            }
            pos += 1;
        }
    }
}

// ------------------------------------------------------------------------------------------
// run one case

fn first_diff(a: &str, b: &str) -> String {
    let ta: Vec<&str> = a.split(' ').collect();
    let tb: Vec<&str> = b.split(' ').collect();
    for i in 0..ta.len().max(tb.len()) {
        let x = ta.get(i).copied().unwrap_or("<none>");
        let y = tb.get(i).copied().unwrap_or("<none>");
        if x != y {
            let cut = |s: &str| if s.len() > 160 { format!("{}…", &s[..160]) } else { s.to_owned() };
            return format!("token {}: got {} want {}", i, cut(x), cut(y));
        }
    }
    "equal".into()
}

/// compare an implementation run with the reference verdict; returns (signature, detail)
fn judge(msgs: &[Msg], end: &End, r: &RefOut, conn: bool) -> Option<(String, String)> {
    let RefOut::Run(rm, rend, reason) = r else { return None };
    let got = show_run(msgs, end);
    let want = show_run(rm, rend);
    let same_msgs = msgs.iter().map(|m| m.show()).collect::<Vec<_>>() == rm.iter().map(|m| m.show()).collect::<Vec<_>>();
    if rend.is_reject() {
        if !end.is_reject() {
            return Some((
                format!("accepts-malformed:{}", reason.unwrap_or("?")),
                format!("reference rejects ({}), implementation goes on: {}", reason.unwrap_or("?"), first_diff(&got, &want)),
            ));
        }
        if !same_msgs {
            return Some(("framing-mismatch".into(), first_diff(&got, &want)));
        }
        if !conn {
            // at codec level a payload-decoder error surfaces as ParseError::Io; which status the
            // connection answers with is judged at conn level
            return None;
        }
        return None;
    }
    if end.is_reject() {
        return Some(("rejects-wellformed".into(), first_diff(&got, &want)));
    }
    if got != want {
        return Some(("framing-mismatch".into(), first_diff(&got, &want)));
    }
    None
}

/// is a 431 in a segmented run, where the whole-stream run goes on, explained by the
/// documented head-size limit? (the decoder tests the limit only while a head is incomplete)
fn toolarge_boundary(stream: &[u8], seg_end: &End) -> bool {
    *seg_end == End::Reject(431) && stream.len() >= MAX_BUFFER_SIZE
}

fn run(line: &str) -> CaseResult {
    let words: Vec<&str> = line.split_ascii_whitespace().collect();
    if words.len() < 3 {
        return CaseResult { output: "bad-case".into(), fail: None, nontrivial: false, tags: vec!["bad-case".into()] };
    }
    let level = words[0];
    let Some(spec) = kv(line, "s").and_then(parse_spec) else {
        return CaseResult { output: "bad-case".into(), fail: None, nontrivial: false, tags: vec!["bad-case".into()] };
    };
    let Some(stream) = unhex(words[words.len() - 1]) else {
        return CaseResult { output: "bad-case".into(), fail: None, nontrivial: false, tags: vec!["bad-case".into()] };
    };
    let cls = kv(line, "cls").unwrap_or("none").to_owned();
    let want_hash = kv(line, "x").and_then(|x| u64::from_str_radix(x, 16).ok());
    let mut tags: Vec<String> = vec![level.to_owned(), format!("cls:{}", cls)];
    tags.push(
        match spec {
            Spec::Whole => "seg:whole",
            Spec::Bytes1 => "seg:1-byte",
            Spec::All2 => "seg:all-2-cuts",
            Spec::Cuts(_) => "seg:k-cuts",
        }
        .to_owned(),
    );
    let refo = reference(&stream);
    match level {
        "codec" => {
            let segs = segments(&stream, &spec);
            let stream2 = stream.clone();
            let spec2 = spec.clone();
            let (msgs, end, whole, a2) = block_on_system(async move {
                let (m, e) = run_codec(&segs);
                let whole = if matches!(spec2, Spec::Whole | Spec::All2) { None } else { Some(run_codec(&[stream2.clone()])) };
                let mut a2: Option<Option<usize>> = None;
                if matches!(spec2, Spec::All2) {
                    let w = show_run(&m, &e);
                    let mut bad = None;
                    for k in 1..stream2.len() {
                        let (m2, e2) = run_codec(&[stream2[..k].to_vec(), stream2[k..].to_vec()]);
                        if show_run(&m2, &e2) != w && !toolarge_boundary(&stream2, &e2) {
                            bad = Some(k);
                            break;
                        }
                    }
                    a2 = Some(bad);
                }
                (m, e, whole, a2)
            });
            let mut out = show_run(&msgs, &end);
            let mut res = CaseResult { output: String::new(), fail: None, nontrivial: !msgs.is_empty() || end.is_reject(), tags };
            if let Some(bad) = a2 {
                match bad {
                    None => out.push_str(" A2:ok"),
                    Some(k) => {
                        out.push_str(&format!(" A2:{}", k));
                        res = res.fail("segmentation-dependent", format!("2-cut at offset {} gives a different result than the whole stream", k));
                    }
                }
            }
            if let Some((wm, we)) = whole {
                let w = show_run(&wm, &we);
                let g = show_run(&msgs, &end);
                if w != g && !toolarge_boundary(&stream, &end) {
                    res = res.fail("segmentation-dependent", format!("whole-stream run differs: {}", first_diff(&g, &w)));
                }
                if w != g && toolarge_boundary(&stream, &end) {
                    res.tags.push("toolarge-boundary".into());
                }
            }
            if end == End::Livelock {
                res = res.fail("decode-livelock", "Codec::decode kept returning messages without consuming input".into());
            }
            // generator ground truth / reference apply to the whole-stream meaning of the bytes
            let skip_ref = toolarge_boundary(&stream, &end) && matches!(refo, RefOut::Run(_, ref e, _) if *e != End::Reject(431));
            if !skip_ref {
                if let Some((sig, d)) = judge(&msgs, &end, &refo, false) {
                    res = res.fail(&sig, d);
                }
                if let Some(h) = want_hash {
                    let norm = normalise_reject(&show_run(&msgs, &end));
                    if fnv64(norm.as_bytes()) != h {
                        let d = match &refo {
                            RefOut::Run(rm, re, _) => first_diff(&show_run(&msgs, &end), &show_run(rm, re)),
                            _ => "no reference".into(),
                        };
                        res = res.fail(&format!("ground-truth-mismatch:{}", cls), format!("generator's expected requests differ from what the codec delivered: {}", d));
                    }
                }
            }
            match &refo {
                RefOut::OutOfClass(w) => res.tags.push(format!("ref:out-of-class:{}", w)),
                RefOut::Run(_, e, r) => {
                    res.tags.push(format!("ref:{}", if e.is_reject() { "reject" } else { "accept" }));
                    if let Some(r) = r {
                        res.tags.push(format!("reason:{}", r));
                    }
                }
            }
            res.output = out;
            res
        }
        "conn" => {
            let eof = kv(line, "e") == Some("1");
            let wp = kv(line, "wp") == Some("1");
            let rb: u8 = kv(line, "rb").and_then(|v| v.parse().ok()).unwrap_or(0);
            let segs = segments(&stream, &spec);
            let r = run_conn(&segs, eof, wp, rb);
            let mut res = CaseResult { output: r.show(), fail: None, nontrivial: !r.calls.is_empty() || !r.statuses.is_empty(), tags };
            res.tags.push(format!("eof:{}", eof as u8));
            res.tags.push(format!("write-pending:{}", wp as u8));
            res.tags.push(format!("response-body:{}", ["empty", "sized", "stream"][rb.min(2) as usize]));
            if r.livelock {
                res = res.fail("conn-livelock", "connection future kept waking itself for 400000 polls".into());
            }
            if r.junk {
                res = res.fail("conn-unparsable-response-bytes", "bytes written by the server are not a sequence of complete responses".into());
            }
            if matches!(spec, Spec::All2) {
                let w = r.show();
                for k in 1..stream.len() {
                    let r2 = run_conn(&[stream[..k].to_vec(), stream[k..].to_vec()], eof, wp, rb);
                    if r2.show() != w {
                        res.output.push_str(&format!(" A2:{}", k));
                        res = res.fail("segmentation-dependent", format!("conn: 2-cut at {} differs: {}", k, first_diff(&r2.show(), &w)));
                        break;
                    }
                }
                if res.fail.is_none() || !res.output.contains(" A2:") {
                    if !res.output.contains(" A2:") {
                        res.output.push_str(" A2:ok");
                    }
                }
            }
            // the property's own words, evaluated on what the service saw and the socket carried
            if let RefOut::Run(rm, rend, reason) = &refo {
                let reason = reason.unwrap_or("?");
                // (1) requests seen = the reference's requests (complete ones exactly; the last may be partial)
                let want_m: Vec<Msg> = rm.iter().map(|m| conn_expect(m, rend, eof)).collect();
                let seen: Vec<String> = r
                    .calls
                    .iter()
                    .enumerate()
                    .map(|(i, m)| {
                        let mut m = m.clone();
                        if want_m.get(i).map(|w| w.done == 'x').unwrap_or(false) && "ieo".contains(m.done) {
                            m.done = 'x';
                        }
                        strip_kind(&m.show())
                    })
                    .collect();
                let want: Vec<String> = want_m.iter().map(|m| strip_kind(&m.show())).collect();
                if seen.len() > want.len() {
                    res = res.fail(
                        if rend.is_reject() { "bytes-after-reject-dispatched" } else { "phantom-request" },
                        format!("service saw {} requests, the stream holds {} ({})", seen.len(), want.len(), reason),
                    );
                } else if seen != want {
                    let k = (0..want.len()).find(|&i| seen.get(i) != want.get(i)).unwrap();
                    res = res.fail(
                        "conn-requests-differ",
                        format!("request {}: got {} want {}", k, seen.get(k).map(|s| &s[..s.len().min(200)]).unwrap_or("<not dispatched>"), &want[k][..want[k].len().min(200)]),
                    );
                }
                // (2) a malformed message is answered with a 4xx and the connection is closed
                if rend.is_reject() {
                    match r.statuses.last() {
                        Some(s) if (400..500).contains(s) => {}
                        _ => res = res.fail(&format!("reject-without-4xx:{}", reject_family(reason)), format!("malformed message ({}) but the last response written is {:?}", reason, r.statuses.last())),
                    }
                    if !r.closed {
                        res = res.fail("reject-not-closed", format!("malformed message ({}) but the connection stays open", reason));
                    }
                    if r.statuses.iter().filter(|s| (400..500).contains(*s)).count() > 1 {
                        res = res.fail("several-4xx", format!("{:?}", r.statuses));
                    }
                } else {
                    if r.statuses.iter().any(|s| *s >= 400) {
                        res = res.fail("rejects-wellformed", format!("well-formed stream answered with {:?}", r.statuses));
                    }
                    if eof && !r.closed {
                        res = res.fail("eof-not-closed", "peer closed but the connection future is still pending".into());
                    }
                    if !eof && r.closed {
                        res = res.fail("closed-early", "keep-alive pipeline of well-formed persistent requests was closed by the server".into());
                    }
                }
                res.tags.push(format!("ref:{}", if rend.is_reject() { "reject" } else { "accept" }));
                if rend.is_reject() {
                    res.tags.push(format!("reason:{}", reason));
                }
            } else {
                res.tags.push("ref:out-of-class".into());
            }
            res
        }
        _ => CaseResult { output: "bad-case".into(), fail: None, nontrivial: false, tags: vec!["bad-case".into()] },
    }
}

fn reject_family(reason: &str) -> &'static str {
    if reason.starts_with("chunk-") {
        "chunk-syntax"
    } else {
        "head"
    }
}

/// the service cannot observe the codec's n/p/s classification: drop that field when comparing
fn strip_kind(s: &str) -> String {
    let parts: Vec<&str> = s.split(':').collect();
    if parts.len() != 8 {
        return s.to_owned();
    }
    format!("{}:{}:{}:{}:{}:{}:{}", parts[0], parts[1], parts[2], parts[3], parts[4], parts[6], parts[7])
}

/// what the recording service should have seen of reference message `m` when the stream ends
/// as `end` (and the peer then closes or not)
fn conn_expect(m: &Msg, end: &End, eof: bool) -> Msg {
    let mut m = m.clone();
    if m.done == 'p' {
        m.done = match end {
            End::RejectIo | End::Reject(_) => 'x', // some payload error
            _ if eof => 'i',
            _ => 'p',
        };
    }
    m
}

/// the generator's ground truth does not distinguish which reject token the codec uses
fn normalise_reject(s: &str) -> String {
    s.split(' ').map(|t| if t == "RIO" || t == "R431" { "R400" } else { t }).collect::<Vec<_>>().join(" ")
}

// ------------------------------------------------------------------------------------------
// generator: abstract pipelines → wire bytes (own encoder) → segmentation families

#[derive(Clone)]
struct Chunk {
    data: Vec<u8>,
    /// text between the hex size and CRLF (BWS and/or `;ext`)
    deco: Vec<u8>,
    upper: bool,
    zeros: usize,
}

#[derive(Clone)]
enum Body {
    None,
    Len(Vec<u8>, Vec<u8>), // body, textual form of the Content-Length value
    Chunked(Vec<Chunk>, Vec<u8>), // chunks, deco of the last-chunk line
}

#[derive(Clone)]
struct AbsReq {
    method: &'static str,
    target: &'static str,
    ver: u8,
    extra: Vec<(String, Vec<u8>, (usize, usize))>, // name as written, value, OWS before/after
    body: Body,
    upgrade: bool,
    lead_crlf: usize,
    te_name: &'static str,
    te_val: &'static str,
    cl_name: &'static str,
    framing_first: bool,
}

fn enc_header(out: &mut Vec<u8>, name: &str, val: &[u8], ows: (usize, usize)) {
    out.extend_from_slice(name.as_bytes());
    out.push(b':');
    for i in 0..ows.0 {
        out.push(if i % 2 == 0 { b' ' } else { b'\t' });
    }
    out.extend_from_slice(val);
    for i in 0..ows.1 {
        out.push(if i % 2 == 0 { b' ' } else { b'\t' });
    }
    out.extend_from_slice(b"\r\n");
}

fn enc_chunk(out: &mut Vec<u8>, c: &Chunk) {
    for _ in 0..c.zeros {
        out.push(b'0');
    }
    let h = if c.upper { format!("{:X}", c.data.len()) } else { format!("{:x}", c.data.len()) };
    out.extend_from_slice(h.as_bytes());
    out.extend_from_slice(&c.deco);
    out.extend_from_slice(b"\r\n");
    out.extend_from_slice(&c.data);
    out.extend_from_slice(b"\r\n");
}

impl AbsReq {
    fn framing_headers(&self) -> Vec<(String, Vec<u8>, (usize, usize))> {
        let mut v = Vec::new();
        match &self.body {
            Body::None => {}
            Body::Len(_, txt) => v.push((self.cl_name.to_owned(), txt.clone(), (1, 0))),
            Body::Chunked(..) => v.push((self.te_name.to_owned(), self.te_val.as_bytes().to_vec(), (1, 0))),
        }
        if self.upgrade {
            v.push(("Upgrade".to_owned(), b"websocket".to_vec(), (1, 0)));
            v.push(("Connection".to_owned(), b"upgrade".to_vec(), (1, 0)));
        }
        v
    }

    fn all_headers(&self) -> Vec<(String, Vec<u8>, (usize, usize))> {
        let mut v = Vec::new();
        if self.framing_first {
            v.extend(self.framing_headers());
            v.extend(self.extra.iter().cloned());
        } else {
            v.extend(self.extra.iter().cloned());
            v.extend(self.framing_headers());
        }
        v
    }

    fn encode(&self, out: &mut Vec<u8>) {
        for _ in 0..self.lead_crlf {
            out.extend_from_slice(b"\r\n");
        }
        out.extend_from_slice(self.method.as_bytes());
        out.push(b' ');
        out.extend_from_slice(self.target.as_bytes());
        out.extend_from_slice(if self.ver == 1 { b" HTTP/1.1\r\n" } else { b" HTTP/1.0\r\n" });
        for (n, v, o) in self.all_headers() {
            enc_header(out, &n, &v, o);
        }
        out.extend_from_slice(b"\r\n");
        match &self.body {
            Body::None => {}
            Body::Len(b, _) => out.extend_from_slice(b),
            Body::Chunked(cs, last) => {
                for c in cs {
                    enc_chunk(out, c);
                }
                out.extend_from_slice(b"0");
                out.extend_from_slice(last);
                out.extend_from_slice(b"\r\n\r\n");
            }
        }
    }

    /// ground truth: what the application must see of this request
    fn truth(&self) -> Msg {
        let hdrs: Vec<(String, Vec<u8>)> =
            self.all_headers().into_iter().map(|(n, v, _)| (n.to_ascii_lowercase(), v)).collect();
        let (kind, body) = match &self.body {
            Body::Chunked(cs, _) => ('p', cs.iter().flat_map(|c| c.data.clone()).collect::<Vec<u8>>()),
            Body::Len(b, _) if self.upgrade => ('s', b.clone()),
            Body::Len(b, _) if !b.is_empty() => ('p', b.clone()),
            _ if self.upgrade || self.method == "CONNECT" => ('s', Vec::new()),
            _ => ('n', Vec::new()),
        };
        Msg {
            method: self.method.to_owned(),
            target: self.target.as_bytes().to_vec(),
            ver: self.ver,
            hdrs,
            kind,
            body,
            done: if kind == 's' { 'p' } else { 'c' },
        }
    }
}

const METHODS: &[&str] = &["GET", "GET", "GET", "HEAD", "POST", "POST", "PUT", "DELETE", "OPTIONS", "PATCH", "PURGE", "get"];
const TARGETS: &[&str] = &["/", "/a", "/a/b/c", "/index.html?x=1&y=2", "/%7Euser/x.y-z_", "*", "/p;v=1,2", "http://example.com/abs?q", "/a+b:c@d"];
const EXTRA: &[(&str, &str)] = &[
    ("Host", "example.com"),
    ("host", "localhost:8080"),
    ("User-Agent", "vh/1 (x; y)"),
    ("Accept", "*/*"),
    ("X-A", "1"),
    ("x-a", "2"),
    ("X-Empty", ""),
    ("Cookie", "a=b; c=d"),
    ("X-Content-Length", "7"),
    ("Content-Lengthx", "3"),
    ("X-Transfer-Encoding", "chunked"),
    ("Content-Type", "text/plain"),
    ("Accept-Encoding", "gzip, chunked"),
    ("TE", "trailers"),
    ("X-Tab", "a\tb"),
];

fn gen_body_bytes(rng: &mut Rng, n: usize) -> Vec<u8> {
    match rng.below(4) {
        // bodies that look like protocol elements
        0 => b"GET /smuggled HTTP/1.1\r\nHost: x\r\n\r\n0\r\n\r\n".iter().cycle().take(n).cloned().collect(),
        1 => b"\r\n0\r\n\r\n5\r\n".iter().cycle().take(n).cloned().collect(),
        2 => (0..n).map(|i| b'a' + (i % 26) as u8).collect(),
        _ => rng.bytes(n),
    }
}

fn gen_size(rng: &mut Rng, big: bool) -> usize {
    match rng.below(12) {
        0 => 0,
        1 => 1,
        2 => 2,
        3 => 15,
        4 => 16,
        5 => 17,
        6 if big => rng.range(255, 4100),
        7 if big && rng.chance(1, 6) => rng.range(32_000, 70_000),
        _ => rng.range(1, 40),
    }
}

fn gen_deco(rng: &mut Rng) -> Vec<u8> {
    match rng.below(10) {
        0 => b" ".to_vec(),
        1 => b"\t \t".to_vec(),
        2 => b";a=b".to_vec(),
        3 => b" ;x".to_vec(),
        4 => b";q=\"1 2;3\"".to_vec(),
        5 => b";\x80\xff ".to_vec(),
        _ => Vec::new(),
    }
}

fn gen_req(rng: &mut Rng, big: bool, persistent_only: bool) -> AbsReq {
    let mut method = *rng.pick(METHODS);
    let mut ver = if rng.chance(1, 5) { 0 } else { 1 };
    let mut extra: Vec<(String, Vec<u8>, (usize, usize))> = Vec::new();
    for _ in 0..rng.below(4) {
        let (n, v) = *rng.pick(EXTRA);
        let mut val = v.as_bytes().to_vec();
        if rng.chance(1, 20) {
            val.extend_from_slice(&[0xe4, 0xf6]); // obs-text
        }
        extra.push((n.to_owned(), val, (rng.below(3), rng.below(3))));
    }
    let mut body = match rng.below(6) {
        0 | 1 => Body::None,
        2 | 3 => {
            let n = gen_size(rng, big);
            let b = gen_body_bytes(rng, n);
            let txt = match rng.below(6) {
                0 => format!("{:05}", n),
                _ => format!("{}", n),
            };
            Body::Len(b, txt.into_bytes())
        }
        _ => {
            let k = rng.below(5);
            let mut cs = Vec::new();
            for _ in 0..k {
                let n = gen_size(rng, big).max(1);
                cs.push(Chunk { data: gen_body_bytes(rng, n), deco: gen_deco(rng), upper: rng.chance(1, 3), zeros: if rng.chance(1, 6) { rng.range(1, 3) } else { 0 } });
            }
            Body::Chunked(cs, if rng.chance(1, 4) { gen_deco(rng) } else { Vec::new() })
        }
    };
    if matches!(body, Body::Chunked(..)) {
        ver = 1;
    }
    if ver == 0 && method == "POST" && matches!(body, Body::None) {
        body = Body::Len(Vec::new(), b"0".to_vec());
    }
    if persistent_only {
        if ver == 0 {
            extra.push(("Connection".into(), b"keep-alive".to_vec(), (1, 0)));
        }
        if method == "HEAD" && false {
            method = "GET";
        }
    }
    AbsReq {
        method,
        target: *rng.pick(TARGETS),
        ver,
        extra,
        body,
        upgrade: false,
        lead_crlf: if rng.chance(1, 10) { rng.range(1, 2) } else { 0 },
        te_name: *rng.pick(&["Transfer-Encoding", "transfer-encoding", "TRANSFER-ENCODING", "Transfer-encoding"]),
        te_val: *rng.pick(&["chunked", "chunked", "Chunked", "CHUNKED"]),
        cl_name: *rng.pick(&["Content-Length", "content-length", "CONTENT-LENGTH", "Content-length"]),
        framing_first: rng.chance(1, 2),
    }
}

/// malformed-framing classes: (label, wire bytes, expected reject status)
fn gen_malformed(rng: &mut Rng) -> (&'static str, Vec<u8>, bool) {
    // returns (class, bytes, is_head_level)
    let rl = |m: &str, v: &str| format!("{} /m HTTP/{}\r\n", m, v);
    let mut out = Vec::new();
    let chunked_head = |out: &mut Vec<u8>| out.extend_from_slice(b"POST /m HTTP/1.1\r\nHost: h\r\nTransfer-Encoding: chunked\r\n\r\n");
    let classes: &[&'static str] = &[
        "cl+te", "te+cl", "dup-cl-same", "dup-cl-diff", "cl-plus", "cl-nonnum", "cl-empty", "cl-neg", "cl-hex", "cl-list", "cl-overflow",
        "cl-inner-space", "te-twice", "te-http10", "te-gzip", "te-gzip-chunked", "te-chunked-gzip", "te-chunked-chunked", "te-identity",
        "te-xchunked", "te-obs", "post10-nocl", "sp-before-colon", "bad-version", "no-colon", "too-many-headers", "ch-badsize",
        "ch-empty-size", "ch-lws-only", "ch-ext-only", "ch-lws-digit", "ch-ext-ctl", "ch-size-nolf", "ch-data-nocr", "ch-data-nolf", "ch-overflow",
        "ch-trailer", "ch-end-nolf", "ch-last-nolf", "ch-last-lws-digit", "ch-bare-lf", "ch-neg", "ch-0x", "oversize",
    ];
    let c = *rng.pick(classes);
    let mut head_level = true;
    match c {
        "cl+te" => out.extend_from_slice(format!("{}Content-Length: 4\r\nTransfer-Encoding: chunked\r\n\r\n0\r\n\r\n", rl("POST", "1.1")).as_bytes()),
        "te+cl" => out.extend_from_slice(format!("{}Transfer-Encoding: chunked\r\nContent-Length: 4\r\n\r\n0\r\n\r\n", rl("POST", "1.1")).as_bytes()),
        "dup-cl-same" => out.extend_from_slice(format!("{}Content-Length: 3\r\nContent-Length: 3\r\n\r\nabc", rl("POST", "1.1")).as_bytes()),
        "dup-cl-diff" => out.extend_from_slice(format!("{}Content-Length: 3\r\nX: y\r\ncontent-length: 0\r\n\r\nabc", rl("POST", "1.1")).as_bytes()),
        "cl-plus" => out.extend_from_slice(format!("{}Content-Length: +3\r\n\r\nabc", rl("POST", "1.1")).as_bytes()),
        "cl-nonnum" => out.extend_from_slice(format!("{}Content-Length: 3x\r\n\r\nabc", rl("PUT", "1.1")).as_bytes()),
        "cl-empty" => out.extend_from_slice(format!("{}Content-Length:\r\n\r\n", rl("POST", "1.1")).as_bytes()),
        "cl-neg" => out.extend_from_slice(format!("{}Content-Length: -1\r\n\r\n", rl("POST", "1.0")).as_bytes()),
        "cl-hex" => out.extend_from_slice(format!("{}Content-Length: 0x3\r\n\r\nabc", rl("POST", "1.1")).as_bytes()),
        "cl-list" => out.extend_from_slice(format!("{}Content-Length: 3, 3\r\n\r\nabc", rl("POST", "1.1")).as_bytes()),
        "cl-overflow" => out.extend_from_slice(format!("{}Content-Length: 18446744073709551616\r\n\r\nabc", rl("POST", "1.1")).as_bytes()),
        "cl-inner-space" => out.extend_from_slice(format!("{}Content-Length: 1 2\r\n\r\nabc", rl("POST", "1.1")).as_bytes()),
        "te-twice" => out.extend_from_slice(format!("{}Transfer-Encoding: chunked\r\nTransfer-Encoding: chunked\r\n\r\n0\r\n\r\n", rl("POST", "1.1")).as_bytes()),
        "te-http10" => out.extend_from_slice(format!("{}Transfer-Encoding: chunked\r\n\r\n0\r\n\r\n", rl("GET", "1.0")).as_bytes()),
        "te-gzip" => out.extend_from_slice(format!("{}Transfer-Encoding: gzip\r\n\r\n", rl("POST", "1.1")).as_bytes()),
        "te-gzip-chunked" => out.extend_from_slice(format!("{}Transfer-Encoding: gzip, chunked\r\n\r\n0\r\n\r\n", rl("POST", "1.1")).as_bytes()),
        "te-chunked-gzip" => out.extend_from_slice(format!("{}Transfer-Encoding: chunked, gzip\r\n\r\n0\r\n\r\n", rl("POST", "1.1")).as_bytes()),
        "te-chunked-chunked" => out.extend_from_slice(format!("{}Transfer-Encoding: chunked,chunked\r\n\r\n0\r\n\r\n", rl("POST", "1.1")).as_bytes()),
        "te-identity" => out.extend_from_slice(format!("{}Transfer-Encoding: identity\r\n\r\n", rl("GET", "1.1")).as_bytes()),
        "te-xchunked" => out.extend_from_slice(format!("{}Transfer-Encoding: xchunked\r\n\r\n0\r\n\r\n", rl("POST", "1.1")).as_bytes()),
        "te-obs" => {
            out.extend_from_slice(rl("POST", "1.1").as_bytes());
            out.extend_from_slice(b"Transfer-Encoding: chunked\xe9\r\n\r\n0\r\n\r\n");
        }
        "post10-nocl" => out.extend_from_slice(format!("{}Host: h\r\n\r\n", rl("POST", "1.0")).as_bytes()),
        "sp-before-colon" => out.extend_from_slice(format!("{}Transfer-Encoding : chunked\r\n\r\n0\r\n\r\n", rl("POST", "1.1")).as_bytes()),
        "bad-version" => out.extend_from_slice(b"GET /m HTTP/1.2\r\nHost: h\r\n\r\n"),
        "no-colon" => out.extend_from_slice(format!("{}Host h\r\n\r\n", rl("GET", "1.1")).as_bytes()),
        "too-many-headers" => {
            out.extend_from_slice(rl("GET", "1.1").as_bytes());
            for i in 0..97 {
                out.extend_from_slice(format!("X-{}: v\r\n", i).as_bytes());
            }
            out.extend_from_slice(b"\r\n");
        }
        "oversize" => {
            out.extend_from_slice(rl("GET", "1.1").as_bytes());
            out.extend_from_slice(b"X-Big: ");
            out.extend(std::iter::repeat(b'a').take(MAX_BUFFER_SIZE + rng.below(300)));
        }
        _ => {
            head_level = false;
            chunked_head(&mut out);
            if rng.chance(1, 2) {
                out.extend_from_slice(b"3\r\nabc\r\n");
            }
            match c {
                "ch-badsize" => out.extend_from_slice(b"3g\r\nabc\r\n0\r\n\r\n"),
                "ch-empty-size" => out.extend_from_slice(b"\r\n\r\n"),
                "ch-lws-only" => out.extend_from_slice(b" \r\n\r\n"),
                "ch-ext-only" => out.extend_from_slice(b";x=y\r\n\r\n"),
                "ch-lws-digit" => out.extend_from_slice(b"1 2\r\nab\r\n0\r\n\r\n"),
                "ch-ext-ctl" => out.extend_from_slice(b"3;a\x01b\r\nabc\r\n0\r\n\r\n"),
                "ch-size-nolf" => out.extend_from_slice(b"3\rXabc\r\n0\r\n\r\n"),
                "ch-data-nocr" => out.extend_from_slice(b"3\r\nabcd\r\n0\r\n\r\n"),
                "ch-data-nolf" => out.extend_from_slice(b"3\r\nabc\rX0\r\n\r\n"),
                "ch-overflow" => out.extend_from_slice(b"10000000000000000\r\nabc\r\n0\r\n\r\n"),
                "ch-trailer" => out.extend_from_slice(b"0\r\nX-T: v\r\n\r\n"),
                "ch-end-nolf" => out.extend_from_slice(b"0\r\n\rX"),
                "ch-last-nolf" => out.extend_from_slice(b"0\rX\r\n"),
                "ch-last-lws-digit" => out.extend_from_slice(b"0 0\r\n\r\n"),
                "ch-bare-lf" => out.extend_from_slice(b"3\nabc\r\n0\r\n\r\n"),
                "ch-neg" => out.extend_from_slice(b"-3\r\nabc\r\n0\r\n\r\n"),
                "ch-0x" => out.extend_from_slice(b"0x3\r\nabc\r\n0\r\n\r\n"),
                _ => unreachable!(),
            }
        }
    }
    (c, out, head_level)
}

struct Stream {
    bytes: Vec<u8>,
    /// fnv64 of the expected canonical codec output (rejects normalised)
    expect: u64,
    cls: String,
    /// offsets just after each body-carrying message (conn level cuts here)
    msg_ends: Vec<usize>,
    has_reject: bool,
}

fn gen_stream(rng: &mut Rng, big: bool, conn: bool) -> Stream {
    let n = rng.range(1, if conn { 4 } else { 6 });
    let inject = if rng.chance(2, 5) { Some(rng.below(n + 1)) } else { None };
    let mut bytes = Vec::new();
    let mut truth: Vec<Msg> = Vec::new();
    let mut end = End::TailHead(0);
    let mut cls = "none".to_owned();
    let mut msg_ends = Vec::new();
    // once set, later bytes are not requests any more (reject, or body of a stream-typed request)
    let mut stopped = false;
    // (index into truth, offset of the first body byte) of a stream-typed request
    let mut stream_from: Option<(usize, usize)> = None;
    for i in 0..=n {
        if Some(i) == inject {
            let (c, b, head_level) = gen_malformed(rng);
            cls = c.to_owned();
            if !stopped {
                if !head_level {
                    // the chunked request head is delivered, then its body is rejected
                    let hdr_end = find(&b, b"\r\n\r\n").unwrap() + 4;
                    let mut m = Msg {
                        method: "POST".into(),
                        target: b"/m".to_vec(),
                        ver: 1,
                        hdrs: vec![("host".into(), b"h".to_vec()), ("transfer-encoding".into(), b"chunked".to_vec())],
                        kind: 'p',
                        body: Vec::new(),
                        done: 'p',
                    };
                    if b[hdr_end..].starts_with(b"3\r\nabc\r\n") {
                        m.body = b"abc".to_vec();
                    }
                    if c == "ch-data-nocr" || c == "ch-data-nolf" {
                        m.body.extend_from_slice(b"abc");
                    }
                    truth.push(m);
                }
                end = End::Reject(400);
                stopped = true;
            }
            bytes.extend_from_slice(&b);
            msg_ends.push(bytes.len());
            if c == "oversize" {
                break; // nothing can follow an unterminated head
            }
            continue;
        }
        if i == n {
            break;
        }
        let mut r = gen_req(rng, big, conn);
        // stream-typed requests swallow the rest of the connection
        if !stopped && rng.chance(1, 14) {
            if rng.chance(1, 2) {
                r.upgrade = true;
                r.method = "GET";
                r.ver = 1;
                if matches!(r.body, Body::Chunked(..)) {
                    r.body = Body::None;
                }
            } else {
                r.method = "CONNECT";
                r.target = "example.com:443";
                r.body = Body::None;
            }
        }
        let before = bytes.len();
        r.encode(&mut bytes);
        if !stopped {
            let t = r.truth();
            if t.kind == 's' {
                let from = before + 2 * r.lead_crlf;
                let head_end = from + find(&bytes[from..], b"\r\n\r\n").unwrap() + 4;
                stream_from = Some((truth.len(), head_end));
                stopped = true;
                end = End::TailBody;
                msg_ends.push(head_end);
            }
            truth.push(t);
        }
        if !matches!(r.body, Body::None) {
            msg_ends.push(bytes.len());
        }
    }
    // truncate some well-formed streams in the middle (partial last message): no ground truth then,
    // the reference parser and the metamorphic check still apply
    let mut truncated = false;
    if inject.is_none() && !stopped && !conn && rng.chance(1, 4) && bytes.len() > 8 {
        let k = rng.range(1, bytes.len() - 1);
        bytes.truncate(k);
        truncated = true;
    }
    if let Some((idx, he)) = stream_from {
        truth[idx].body = bytes[he..].to_vec();
    }
    let expect = if truncated { 0 } else { fnv64(normalise_reject(&show_run(&truth, &end)).as_bytes()) };
    msg_ends.sort();
    msg_ends.dedup();
    Stream { bytes, expect, cls, msg_ends, has_reject: inject.is_some() }
}

fn cuts_str(c: &[usize]) -> String {
    format!("c{}", c.iter().map(|x| x.to_string()).collect::<Vec<_>>().join("."))
}

fn gen(ctx: &Ctx) -> Vec<String> {
    let mut rng = Rng::new(ctx.seed);
    let mut cases = Vec::new();
    let thorough = ctx.tier != Tier::Quick;
    // ---- codec level
    let n_streams = ctx.budget(300);
    for i in 0..n_streams {
        let big = i % 9 == 0;
        let st = gen_stream(&mut rng, big, false);
        let hx = hex(&st.bytes);
        let x = if st.expect != 0 { format!(" x={:016x}", st.expect) } else { String::new() };
        let pre = |spec: &str| format!("codec s={}{} cls={} {}", spec, x, st.cls, hx);
        let len = st.bytes.len();
        cases.push(pre("w"));
        if len <= 600 || (thorough && len <= 2500) {
            cases.push(pre("a2"));
        } else {
            for _ in 0..6 {
                cases.push(pre(&cuts_str(&[rng.below(len + 1)])));
            }
        }
        if len <= 5000 {
            cases.push(pre("b1"));
        }
        for _ in 0..3 {
            let k = rng.range(2, 9);
            let mut c: Vec<usize> = (0..k).map(|_| rng.below(len + 1)).collect();
            if rng.chance(1, 3) {
                let d = c[0];
                c.push(d); // an empty read
            }
            c.sort();
            cases.push(pre(&cuts_str(&c)));
        }
    }
    // ---- conn level
    let n_conn = ctx.budget(200);
    for _ in 0..n_conn {
        let st = gen_stream(&mut rng, false, true);
        let hx = hex(&st.bytes);
        let len = st.bytes.len();
        let eof = if st.has_reject { rng.chance(1, 4) } else { rng.chance(1, 2) };
        let wp = rng.chance(1, 2);
        // handler's response body: empty / sized / streamed (the latter two end in poll_response's
        // SendPayload arm, where the "close for an unread request payload" decision is taken again)
        let rb = rng.below(3);
        let pre = |spec: &str| format!("conn s={} e={} wp={} rb={} cls={} {}", spec, eof as u8, wp as u8, rb, st.cls, hx);
        // every schedule, including those that deliver the end of one body-carrying request together
        // with the head and part of the body of the next (pipelining overlap in the dispatcher)
        cases.push(pre("w"));
        if len <= 360 {
            cases.push(pre("a2"));
        } else {
            for _ in 0..5 {
                cases.push(pre(&cuts_str(&[rng.below(len + 1)])));
            }
            // cuts at the message boundaries and just inside the next message
            let near: Vec<usize> = st.msg_ends.iter().cloned().filter(|&e| e < len).collect();
            for e in near.iter().take(3) {
                cases.push(pre(&cuts_str(&[(*e + rng.range(1, 60)).min(len)])));
            }
        }
        for _ in 0..3 {
            let k = rng.range(1, 6);
            let mut c: Vec<usize> = (0..k).map(|_| rng.below(len + 1)).collect();
            c.sort();
            cases.push(pre(&cuts_str(&c)));
        }
        if len <= 400 {
            cases.push(pre("b1"));
        }
    }
    cases
}

pub fn prop() -> Prop {
    Prop { rule: RULE, parallel: true, gen: Box::new(gen), run: Box::new(run) }
}
