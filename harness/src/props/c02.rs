//! C02 — HTTP/1 responses: one per request, in order, self-framed, body-faithful.
//! (also hosts the case grammar / runner shared with C03)
//!
//! case line (space separated `key=value`; `-` = empty list):
//!   ka=<0|1> dt=<0|1> hc=<0|1> wb=<n>
//!   q=<req>;<req>…      req  = <G|H|P|T|D>:<0|1>:<-|k|c|u>:<n|l<len>|c<n>.<n>…>:<-|e|w<k>|f>   or  X (malformed head)
//!   h=<hand>;<hand>…    hand = p<k>:<i|d|a|r<n>|k>:<status|E<status>>:<-|c|k|u>:<hdrs>:<body>
//!                       hdrs = - | {L<n> T C K}*      body = e | N | b<n> | z<n>/<scr> | s/<scr> | m<N|S|n>/<scr>
//!                       scr  = - | <n|P|X>.<…>
//!   r=<seg>,<seg>…      seg  = P | E | R | unit+unit…   unit = <i>h | <i>ha | <i>hb | <i>b<k> | <i>c<j> | <i>z
//!   w=<tok>,<tok>…      tok  = <k> | P | X | Z
//! (optional `up=1`: an upgrade service is configured; req `U:…` = upgrade request, `L` = oversized never-ending head)
//! output: W=<canonical wire hex> T=<len of a trailing incomplete head> U=<rids handed to the upgrade service> C=<dispatched rids> X=<expect rids> R=<rid:bytes:end,…> D=<result> S=<shutdown calls>
#[path = "../c02_sock.rs"]
pub mod sock;

use actix_http::{body::BodySize, ConnectionType};

use self::sock::*;
use super::Prop;
use crate::common::{hex, kv, CaseResult, Ctx, Rng, Tier};

const RULE: &str = "cases = one scripted HTTP/1 connection each: 1–5 pipelined requests (GET/HEAD/POST/PUT/DELETE, 1.0/1.1, \
Connection options, CL/chunked bodies, Expect), a handler script per request (Pending count, payload action, status, \
connection type, user CL/TE/Connection headers, body kind: empty/None/bytes/SizedStream exact-short-long/BodyStream/custom \
body with empty chunks, Pending, error), a read schedule (segments cut at head/body-unit boundaries, Pending, EOF, reset) \
and a write schedule (partial writes, Pending, error); corpus replays first, then an exhaustive two-request family over \
method x version x connection x handler-delay x body kind, then seeded random cases; non-trivial = at least one request \
reached the service and at least one response head was written; distinct = distinct (case, output) hashes";

// ---------------------------------------------------------------------------------------------
// case model (ground truth of the generator)

#[derive(Clone, Debug, PartialEq)]
pub enum ReqBody {
    None,
    Len(usize),
    Chunked(Vec<usize>),
}

#[derive(Clone, Debug)]
pub struct Req {
    /// `U`: GET with `connection: upgrade` + `upgrade: websocket`
    pub upgrade: bool,
    /// `L`: a head that never ends and is longer than the decoder's MAX_BUFFER_SIZE (128 KiB)
    pub huge: bool,
    pub malformed: bool,
    pub method: &'static str,
    pub minor: u8,
    pub conn: char,
    pub body: ReqBody,
    pub expect: Option<ExpectAct>,
}

pub struct Case {
    pub cfg: Config,
    pub reqs: Vec<Req>,
    pub handlers: Vec<Handler>,
    pub reads: Vec<ReadTok>,
    pub writes: Vec<WriteTok>,
    pub has_eof_or_reset: bool,
}

/// two halves of 66 000 bytes: the first stays below the decoder's 131 072 byte cap, both exceed it
pub const HUGE_HEAD: usize = 132_000;

const SMUGGLE: &[u8] = b"GET /99 HTTP/1.1\r\n\r\n";

impl Req {
    pub fn head(&self, i: usize) -> Vec<u8> {
        if self.huge {
            let mut v = format!("GET /{i} HTTP/1.1\r\nx-fill: ").into_bytes();
            v.resize(HUGE_HEAD, b'a');
            return v;
        }
        if self.malformed {
            return format!("GET /{i} HTTP/1.1\r\ncontent-length: x\r\n\r\n").into_bytes();
        }
        let mut s = format!("{} /{} HTTP/1.{}\r\n", self.method, i, self.minor);
        match self.conn {
            'k' => s.push_str("connection: keep-alive\r\n"),
            'c' => s.push_str("connection: close\r\n"),
            'u' => s.push_str("connection: upgrade\r\n"),
            _ => {}
        }
        match &self.body {
            ReqBody::None => {}
            ReqBody::Len(n) => s.push_str(&format!("content-length: {n}\r\n")),
            ReqBody::Chunked(_) => s.push_str("transfer-encoding: chunked\r\n"),
        }
        if self.expect.is_some() {
            s.push_str("expect: 100-continue\r\n");
        }
        if self.upgrade {
            s.push_str("upgrade: websocket\r\n");
        }
        s.push_str("\r\n");
        s.into_bytes()
    }
    /// the body bytes as the handler should see them
    pub fn body_bytes(&self) -> Vec<u8> {
        let n = match &self.body {
            ReqBody::None => 0,
            ReqBody::Len(n) => *n,
            ReqBody::Chunked(v) => v.iter().sum(),
        };
        (0..n).map(|k| SMUGGLE[k % SMUGGLE.len()]).collect()
    }
    pub fn has_body(&self) -> bool {
        match &self.body {
            ReqBody::None => false,
            ReqBody::Len(n) => *n > 0,
            ReqBody::Chunked(_) => true,
        }
    }
}

fn parse_script(s: &str) -> Option<Vec<BodyTok>> {
    if s == "-" || s.is_empty() {
        return Some(vec![]);
    }
    s.split('.')
        .map(|t| match t {
            "P" => Some(BodyTok::Pending),
            "X" => Some(BodyTok::Err),
            n => n.parse().ok().map(BodyTok::Chunk),
        })
        .collect()
}

fn parse_req(s: &str) -> Option<Req> {
    if s == "X" || s == "L" {
        return Some(Req { upgrade: false, huge: s == "L", malformed: true, method: "GET", minor: 1, conn: '-', body: ReqBody::None, expect: None });
    }
    let f: Vec<&str> = s.split(':').collect();
    if f.len() != 5 {
        return None;
    }
    let method = match f[0] {
        "G" => "GET",
        "H" => "HEAD",
        "P" => "POST",
        "T" => "PUT",
        "D" => "DELETE",
        "U" => "GET",
        _ => return None,
    };
    let minor = match f[1] {
        "0" => 0,
        "1" => 1,
        _ => return None,
    };
    let conn = f[2].chars().next()?;
    let body = if f[3] == "n" {
        ReqBody::None
    } else if let Some(n) = f[3].strip_prefix('l') {
        ReqBody::Len(n.parse().ok()?)
    } else if let Some(cs) = f[3].strip_prefix('c') {
        ReqBody::Chunked(if cs.is_empty() { vec![] } else { cs.split('.').map(|x| x.parse().ok()).collect::<Option<_>>()? })
    } else {
        return None;
    };
    let expect = match f[4] {
        "-" => None,
        "e" => Some(ExpectAct::Ok(0)),
        "f" => Some(ExpectAct::Fail),
        w => Some(ExpectAct::Ok(w.strip_prefix('w')?.parse().ok()?)),
    };
    Some(Req { upgrade: f[0] == "U", huge: false, malformed: false, method, minor, conn, body, expect })
}

fn parse_handler(s: &str) -> Option<Handler> {
    let f: Vec<&str> = s.split(':').collect();
    if f.len() != 6 {
        return None;
    }
    let pend = f[0].strip_prefix('p')?.parse().ok()?;
    let act = match f[1] {
        "i" => PayloadAct::Ignore,
        "d" => PayloadAct::DropEarly,
        "a" => PayloadAct::ReadAll,
        "k" => PayloadAct::Hold,
        r => PayloadAct::ReadN(r.strip_prefix('r')?.parse().ok()?),
    };
    let status = match f[2].strip_prefix('E') {
        Some(e) => Err(e.parse().ok()?),
        None => Ok(f[2].parse().ok()?),
    };
    let conn = match f[3] {
        "-" => None,
        "c" => Some(ConnectionType::Close),
        "k" => Some(ConnectionType::KeepAlive),
        "u" => Some(ConnectionType::Upgrade),
        _ => return None,
    };
    let (mut user_cl, mut user_te, mut user_conn, mut no_chunking) = (None, false, false, false);
    if f[4] != "-" {
        let cs: Vec<char> = f[4].chars().collect();
        let mut i = 0;
        while i < cs.len() {
            match cs[i] {
                'L' => {
                    let mut j = i + 1;
                    while j < cs.len() && cs[j].is_ascii_digit() {
                        j += 1;
                    }
                    user_cl = Some(cs[i + 1..j].iter().collect::<String>().parse().ok()?);
                    i = j;
                    continue;
                }
                'T' => user_te = true,
                'C' => user_conn = true,
                'K' => no_chunking = true,
                _ => return None,
            }
            i += 1;
        }
    }
    let b = f[5];
    let body = if b == "e" {
        BodyKind::Empty
    } else if b == "N" {
        BodyKind::NoneBody
    } else if let Some(n) = b.strip_prefix('b') {
        BodyKind::Bytes(n.parse().ok()?)
    } else if let Some(r) = b.strip_prefix('z') {
        let (n, sc) = r.split_once('/')?;
        BodyKind::SizedStream(n.parse().ok()?, parse_script(sc)?)
    } else if let Some(sc) = b.strip_prefix("s/") {
        BodyKind::BodyStream(parse_script(sc)?)
    } else if let Some(r) = b.strip_prefix('m') {
        let (n, sc) = r.split_once('/')?;
        let sz = match n {
            "N" => BodySize::None,
            "S" => BodySize::Stream,
            n => BodySize::Sized(n.parse().ok()?),
        };
        BodyKind::Custom(sz, parse_script(sc)?)
    } else {
        return None;
    };
    Some(Handler { pend, act, status, conn, user_cl, user_te, user_conn, no_chunking, body })
}

pub fn parse_case(line: &str) -> Option<Case> {
    let b = |k: &str| kv(line, k).map(|v| v == "1");
    let cfg = Config {
        ka: b("ka")?,
        dt: b("dt")?,
        hc: b("hc")?,
        wb: kv(line, "wb")?.parse().ok().filter(|n| *n > 0)?,
        up: b("up").unwrap_or(false),
    };
    let list = |k: &str, sep: char| -> Vec<String> {
        match kv(line, k) {
            None | Some("-") | Some("") => vec![],
            Some(v) => v.split(sep).map(|s| s.to_owned()).collect(),
        }
    };
    let reqs: Vec<Req> = list("q", ';').iter().map(|s| parse_req(s)).collect::<Option<_>>()?;
    let mut handlers: Vec<Handler> = list("h", ';').iter().map(|s| parse_handler(s)).collect::<Option<_>>()?;
    while handlers.len() < reqs.len() {
        handlers.push(parse_handler("p0:i:200:-:-:e").unwrap());
    }
    // read script
    let bodies: Vec<Vec<u8>> = reqs.iter().map(|r| r.body_bytes()).collect();
    let mut cur = vec![0usize; reqs.len()];
    let mut reads = Vec::new();
    let mut has_eof_or_reset = false;
    for seg in list("r", ',') {
        match seg.as_str() {
            "P" => reads.push(ReadTok::Pending),
            "E" => {
                has_eof_or_reset = true;
                reads.push(ReadTok::Eof)
            }
            "R" => {
                has_eof_or_reset = true;
                reads.push(ReadTok::Reset)
            }
            s => {
                let mut data = Vec::new();
                for u in s.split('+') {
                    let p = u.find(|c: char| !c.is_ascii_digit())?;
                    let i: usize = u[..p].parse().ok()?;
                    let r = reqs.get(i)?;
                    let rest = &u[p..];
                    let head = r.head(i);
                    match rest {
                        "h" => data.extend_from_slice(&head),
                        "ha" => data.extend_from_slice(&head[..head.len() / 2]),
                        "hb" => data.extend_from_slice(&head[head.len() / 2..]),
                        "z" => data.extend_from_slice(b"0\r\n\r\n"),
                        _ => {
                            if let Some(k) = rest.strip_prefix('b') {
                                let k: usize = k.parse().ok()?;
                                let end = (cur[i] + k).min(bodies[i].len());
                                data.extend_from_slice(&bodies[i][cur[i]..end]);
                                cur[i] = end;
                            } else if let Some(j) = rest.strip_prefix('c') {
                                let j: usize = j.parse().ok()?;
                                let ReqBody::Chunked(sizes) = &r.body else { return None };
                                let n = *sizes.get(j)?;
                                let off: usize = sizes[..j].iter().sum();
                                data.extend_from_slice(format!("{:x}\r\n", n).as_bytes());
                                data.extend_from_slice(&bodies[i][off..off + n]);
                                data.extend_from_slice(b"\r\n");
                            } else {
                                return None;
                            }
                        }
                    }
                }
                reads.push(ReadTok::Data(data));
            }
        }
    }
    let writes = list("w", ',')
        .iter()
        .map(|t| match t.as_str() {
            "P" => Some(WriteTok::Pending),
            "X" => Some(WriteTok::Err),
            "Z" => Some(WriteTok::Zero),
            k => k.parse().ok().filter(|k| *k > 0).map(WriteTok::Accept),
        })
        .collect::<Option<_>>()?;
    Some(Case { cfg, reqs, handlers, reads, writes, has_eof_or_reset })
}

// ---------------------------------------------------------------------------------------------
// canonical wire: at every `HTTP/1.` (bodies never contain an upper-case letter) sort the header
// lines of the head and drop `date`

fn find(h: &[u8], n: &[u8], from: usize) -> Option<usize> {
    if n.is_empty() || h.len() < n.len() {
        return None;
    }
    (from..=h.len() - n.len()).find(|&i| &h[i..i + n.len()] == n)
}

pub fn canon_wire(w: &[u8]) -> (Vec<u8>, usize) {
    let mut out = Vec::with_capacity(w.len());
    let mut pos = 0;
    while pos < w.len() {
        let Some(start) = find(w, b"HTTP/1.", pos) else { break };
        out.extend_from_slice(&w[pos..start]);
        let Some(end) = find(w, b"\r\n\r\n", start) else {
            // an incomplete head at the end of the wire: only its length is canonical
            return (out, w.len() - start);
        };
        let head = &w[start..end];
        let mut lines: Vec<&[u8]> = Vec::new();
        let mut p = 0;
        while let Some(e) = find(head, b"\r\n", p) {
            lines.push(&head[p..e]);
            p = e + 2;
        }
        lines.push(&head[p..]);
        out.extend_from_slice(lines[0]);
        out.extend_from_slice(b"\r\n");
        let mut hs: Vec<&[u8]> = lines[1..].iter().copied().filter(|l| !l.starts_with(b"date: ")).collect();
        hs.sort();
        for l in hs {
            out.extend_from_slice(l);
            out.extend_from_slice(b"\r\n");
        }
        out.extend_from_slice(b"\r\n");
        pos = end + 4;
    }
    out.extend_from_slice(&w[pos..]);
    (out, 0)
}

// ---------------------------------------------------------------------------------------------
// independent client-side response splitter (RFC 7230 §3.3.3), told the request methods

#[derive(Debug, Clone, PartialEq)]
pub enum Framing {
    NoBody,
    Length(usize),
    Chunked,
    Close,
}

#[derive(Debug, Clone)]
pub struct Resp {
    pub minor: u8,
    pub status: u16,
    pub headers: Vec<(String, String)>,
    pub framing: Framing,
    pub body: Vec<u8>,
    pub complete: bool,
    pub end: usize,
}

impl Resp {
    pub fn header(&self, n: &str) -> Option<&str> {
        self.headers.iter().find(|(k, _)| k == n).map(|(_, v)| v.as_str())
    }
    pub fn count(&self, n: &str) -> usize {
        self.headers.iter().filter(|(k, _)| k == n).count()
    }
    /// does this response tell the client that the connection will not be reused?
    pub fn announces_close(&self) -> bool {
        let c = self.header("connection").map(|v| v.to_ascii_lowercase());
        if self.minor == 0 {
            c.as_deref() != Some("keep-alive")
        } else {
            c.as_deref() == Some("close")
        }
    }
}

pub struct Split {
    /// bytes after a `101 Switching Protocols` response (the upgraded protocol's data)
    pub after_upgrade: Option<Vec<u8>>,
    pub finals: Vec<Resp>,
    /// number of `100 Continue` seen before final response k
    pub continues_before: Vec<usize>,
    /// bytes that could not be parsed as a response head (offset), if any
    pub garbage_at: Option<usize>,
    /// an incomplete head at the end of the wire
    pub partial_head: bool,
}

fn parse_chunked(b: &[u8]) -> (Vec<u8>, bool, usize) {
    // returns (decoded, complete, consumed)
    let mut out = Vec::new();
    let mut p = 0;
    loop {
        let Some(e) = find(b, b"\r\n", p) else { return (out, false, b.len()) };
        let line = &b[p..e];
        let hexpart: &[u8] = line.split(|c| *c == b';').next().unwrap_or(line);
        let Ok(s) = std::str::from_utf8(hexpart) else { return (out, false, b.len()) };
        let Ok(n) = usize::from_str_radix(s.trim(), 16) else { return (out, false, b.len()) };
        p = e + 2;
        if n == 0 {
            // no trailers are ever sent by the server under test: expect the final CRLF
            if b.len() >= p + 2 && &b[p..p + 2] == b"\r\n" {
                return (out, true, p + 2);
            }
            return (out, false, b.len());
        }
        if b.len() < p + n + 2 {
            out.extend_from_slice(&b[p..b.len().min(p + n)]);
            return (out, false, b.len());
        }
        out.extend_from_slice(&b[p..p + n]);
        if &b[p + n..p + n + 2] != b"\r\n" {
            return (out, false, b.len());
        }
        p += n + 2;
    }
}

pub fn split_responses(w: &[u8], methods: &[&str]) -> Split {
    let mut sp = Split { after_upgrade: None, finals: vec![], continues_before: vec![], garbage_at: None, partial_head: false };
    let mut pos = 0;
    let mut conts = 0;
    while pos < w.len() {
        if !w[pos..].starts_with(b"HTTP/1.") {
            if b"HTTP/1.".starts_with(&w[pos..]) {
                sp.partial_head = true;
            } else {
                sp.garbage_at = Some(pos);
            }
            break;
        }
        let Some(he) = find(w, b"\r\n\r\n", pos) else {
            sp.partial_head = true;
            break;
        };
        let head = String::from_utf8_lossy(&w[pos..he]).into_owned();
        let mut lines = head.split("\r\n");
        let sl = lines.next().unwrap_or("");
        let minor = if sl.starts_with("HTTP/1.0 ") { 0 } else { 1 };
        let status: u16 = sl.get(9..12).and_then(|s| s.parse().ok()).unwrap_or(0);
        if status == 0 {
            sp.garbage_at = Some(pos);
            break;
        }
        let headers: Vec<(String, String)> = lines
            .filter_map(|l| l.split_once(':').map(|(k, v)| (k.trim().to_ascii_lowercase(), v.trim().to_owned())))
            .collect();
        let body_start = he + 4;
        if status == 100 {
            conts += 1;
            pos = body_start;
            continue;
        }
        let method = methods.get(sp.finals.len()).copied().unwrap_or("GET");
        let te_chunked = headers.iter().any(|(k, v)| k == "transfer-encoding" && v.to_ascii_lowercase().contains("chunked"));
        let cl = headers.iter().find(|(k, _)| k == "content-length").and_then(|(_, v)| v.parse::<usize>().ok());
        let framing = if method == "HEAD" || (100..200).contains(&status) || status == 204 || status == 304 {
            Framing::NoBody
        } else if te_chunked {
            Framing::Chunked
        } else if let Some(n) = cl {
            Framing::Length(n)
        } else {
            Framing::Close
        };
        let rest = &w[body_start..];
        let (body, complete, used) = match &framing {
            Framing::NoBody => (vec![], true, 0),
            Framing::Length(n) => {
                if rest.len() >= *n {
                    (rest[..*n].to_vec(), true, *n)
                } else {
                    (rest.to_vec(), false, rest.len())
                }
            }
            Framing::Chunked => parse_chunked(rest),
            Framing::Close => (rest.to_vec(), true, rest.len()),
        };
        sp.continues_before.push(conts);
        conts = 0;
        pos = body_start + used;
        sp.finals.push(Resp { minor, status, headers, framing, body, complete, end: pos });
        if status == 101 {
            sp.after_upgrade = Some(w[pos..].to_vec());
            break;
        }
    }
    sp
}

// ---------------------------------------------------------------------------------------------
// expectations computed from the generator's ground truth only

pub struct Expected {
    pub body: Vec<u8>,
    /// the body script fails (error, or a sized body that ends short)
    pub fails: bool,
    pub size: BodySize,
}

fn script_bytes(rid: usize, t: &[BodyTok]) -> (Vec<u8>, bool) {
    let mut v = Vec::new();
    for x in t {
        match x {
            BodyTok::Chunk(n) => {
                let l = v.len();
                v.extend((0..*n).map(|i| body_byte(rid, l + i)))
            }
            BodyTok::Pending => {}
            BodyTok::Err => return (v, true),
        }
    }
    (v, false)
}

pub fn expected_body(rid: usize, h: &Handler) -> Expected {
    if h.status.is_err() {
        return Expected { body: b"err".to_vec(), fails: false, size: BodySize::Sized(3) };
    }
    match &h.body {
        BodyKind::Empty => Expected { body: vec![], fails: false, size: BodySize::Sized(0) },
        BodyKind::NoneBody => Expected { body: vec![], fails: false, size: BodySize::None },
        BodyKind::Bytes(n) => Expected { body: (0..*n).map(|i| body_byte(rid, i)).collect(), fails: false, size: BodySize::Sized(*n as u64) },
        BodyKind::SizedStream(n, t) => {
            let (mut b, e) = script_bytes(rid, t);
            let short = (b.len() as u64) < *n;
            b.truncate(*n as usize);
            Expected { body: b, fails: (e && short) || short, size: BodySize::Sized(*n) }
        }
        BodyKind::BodyStream(t) => {
            let (b, e) = script_bytes(rid, t);
            Expected { body: b, fails: e, size: BodySize::Stream }
        }
        BodyKind::Custom(sz, t) => {
            let (mut b, e) = script_bytes(rid, t);
            match sz {
                BodySize::Sized(n) => {
                    let short = (b.len() as u64) < *n;
                    b.truncate(*n as usize);
                    Expected { body: b, fails: short, size: *sz }
                }
                BodySize::None => Expected { body: vec![], fails: false, size: *sz },
                BodySize::Stream => Expected { body: b, fails: e, size: *sz },
            }
        }
    }
}

pub struct Run {
    pub line: String,
    pub case: Case,
    pub sim: SimResult,
    pub output: String,
}

pub fn run_case(line: &str) -> Option<Run> {
    let case = parse_case(line)?;
    let expects: Vec<ExpectAct> = case.reqs.iter().map(|r| r.expect.clone().unwrap_or(ExpectAct::Ok(0))).collect();
    let bodies: Vec<Vec<u8>> = case.reqs.iter().map(|r| r.body_bytes()).collect();
    let sim = simulate(&case.cfg, case.handlers.clone(), expects, bodies, case.reads.clone(), case.writes.clone());
    let rid = |r: &Option<usize>| r.map(|i| i.to_string()).unwrap_or_else(|| "?".into());
    let calls: Vec<String> = sim.log.calls.iter().map(|c| rid(&c.0)).collect();
    let xs: Vec<String> = sim.log.expect_calls.iter().map(rid).collect();
    let ups: Vec<String> = sim.log.upgrades.iter().map(|u| rid(&u.0)).collect();
    let reads: Vec<String> = sim
        .log
        .reads
        .iter()
        .map(|r| format!("{}:{}:{}", if r.rid == usize::MAX { "?".into() } else { r.rid.to_string() }, r.bytes, r.end))
        .collect();
    let dash = |v: Vec<String>| if v.is_empty() { "-".to_owned() } else { v.join(",") };
    let cw = canon_wire(&sim.wire);
    let output = format!(
        "W={} T={} C={} X={} U={} R={} D={} S={}",
        hex(&cw.0),
        cw.1,
        dash(calls),
        dash(xs),
        dash(ups),
        dash(reads),
        sim.done,
        sim.shutdown_calls
    );
    Some(Run { line: line.to_owned(), case, sim, output })
}

/// ground-truth check shared by C02 and C03: the service saw exactly a prefix of the requests the
/// generator sent, in order, with the right method and version
pub fn check_dispatch(run: &Run) -> Result<Vec<usize>, (String, String)> {
    let mut ids = Vec::new();
    for (k, (rid, m, p, minor)) in run.sim.log.seen.iter().enumerate() {
        let Some(i) = rid else {
            return Err(("phantom-request".into(), format!("service saw {m} {p}, which the client never sent as a request")));
        };
        let Some(r) = run.case.reqs.get(*i) else {
            return Err(("phantom-request".into(), format!("service saw {m} {p}")));
        };
        if r.malformed || r.method != m || r.minor != *minor {
            return Err(("phantom-request".into(), format!("service saw {m} {p} HTTP/1.{minor}, sent {} HTTP/1.{}", r.method, r.minor)));
        }
        if *i != k {
            return Err(("dispatch-order".into(), format!("call #{k} was request {i}")));
        }
        ids.push(*i);
    }
    Ok(ids)
}

fn size_of(s: BodySize) -> String {
    match s {
        BodySize::None => "none".into(),
        BodySize::Stream => "stream".into(),
        BodySize::Sized(n) => format!("sized({n})"),
    }
}

/// C02's own words, evaluated on the implementation's wire bytes and call log only.
pub fn oracle_c02(run: &Run) -> Option<(String, String)> {
    let ids = match check_dispatch(run) {
        Ok(v) => v,
        Err(e) => return Some(e),
    };
    let case = &run.case;
    let methods: Vec<&str> = ids.iter().map(|i| case.reqs[*i].method).collect();
    let sp = split_responses(&run.sim.wire, &methods);
    // responses beyond the dispatched requests: at most one dispatcher-made error response
    if sp.finals.len() > ids.len() + 1 {
        return Some(("extra-response".into(), format!("{} final responses for {} dispatched requests", sp.finals.len(), ids.len())));
    }
    let mut failed_at: Option<usize> = None;
    // what the server does after a response that announced close is C03's subject
    let closed_at = sp.finals.iter().position(|r| r.announces_close() && r.framing != Framing::Close);
    for (k, r) in sp.finals.iter().enumerate() {
        if closed_at.is_some_and(|c| k > c) {
            return None;
        }
        if k >= ids.len() {
            // dispatcher-made response (parse error / internal error): no service identity
            if r.header("x-rid").is_some() || !matches!(r.status, 400 | 408 | 431 | 500) {
                return Some(("extra-response".into(), format!("response #{k} status {} answers no dispatched request", r.status)));
            }
            continue;
        }
        let i = ids[k];
        let req = &case.reqs[i];
        let h = &case.handlers[i];
        let exp_fail = req.expect == Some(ExpectAct::Fail);
        let upgraded = req.upgrade && case.cfg.up && !exp_fail;
        let want_rid = if (h.status.is_err() && !upgraded) || exp_fail { "e".to_owned() } else { i.to_string() };
        match r.header("x-rid") {
            Some(v) if v == want_rid => {}
            other => {
                return Some(("order".into(), format!("response #{k} carries x-rid {:?}, expected {want_rid} (request {i})", other)));
            }
        }
        // 100-continue only for requests that asked for it, at most once
        let conts = sp.continues_before[k];
        let may_cont = matches!(req.expect, Some(ExpectAct::Ok(_)));
        if conts > usize::from(may_cont) {
            return Some(("continue".into(), format!("{conts} interim 100 responses before response #{k}")));
        }
        if r.minor != req.minor {
            return Some(("ctx-version".into(), format!("response #{k} to an HTTP/1.{} request is labelled HTTP/1.{}", req.minor, r.minor)));
        }
        if upgraded {
            // answered by the upgrade service: its fixed 101 head, then its marker, nothing else
            if r.status != 101 {
                return Some(("status".into(), format!("response #{k} to the upgrade request has status {}", r.status)));
            }
            let tail = sp.after_upgrade.clone().unwrap_or_default();
            let clean = !case.has_eof_or_reset && case.writes.is_empty();
            if (clean && tail != UPGRADE_MARKER) || !UPGRADE_MARKER.starts_with(&tail) {
                return Some(("upgrade-data".into(), format!("after the 101 the wire carries {:?}, the upgrade service wrote {:?}", String::from_utf8_lossy(&tail), String::from_utf8_lossy(UPGRADE_MARKER))));
            }
            continue;
        }
        let want_status = if exp_fail { 417 } else { h.status.unwrap_or_else(|e| e) };
        if r.status != want_status {
            return Some(("status".into(), format!("response #{k} status {} expected {want_status}", r.status)));
        }
        let e = if exp_fail {
            Expected { body: b"err".to_vec(), fails: false, size: BodySize::Sized(3) }
        } else {
            expected_body(i, h)
        };
        let bodiless = req.method == "HEAD" || matches!(r.status, 100..=199 | 204 | 304);
        // --- framing headers as a function of (request, response) only
        if !bodiless && (r.count("content-length") > 1 || r.count("transfer-encoding") > 1) || !bodiless && (r.count("content-length") == 1 && r.count("transfer-encoding") == 1 && !h.no_chunking) {
            return Some(("framing-ambiguous".into(), format!("response #{k} carries content-length x{} and transfer-encoding x{}", r.count("content-length"), r.count("transfer-encoding"))));
        }
        if matches!(r.status, 100..=199 | 204) && (r.count("content-length") + r.count("transfer-encoding") > 0) {
            return Some(("framing-204".into(), format!("status {} with a framing header", r.status)));
        }
        if !bodiless && !h.no_chunking {
            match e.size {
                BodySize::Sized(n) => {
                    if r.framing != Framing::Length(n as usize) {
                        return Some(("framing-sized".into(), format!("response #{k} body {} framed as {:?}", size_of(e.size), r.framing)));
                    }
                }
                BodySize::None => {
                    // no framing header: only legal if the connection is closed afterwards
                }
                BodySize::Stream => {
                    if req.minor == 0 {
                        if r.header("transfer-encoding").is_some() {
                            return Some(("http10-chunked".into(), format!("response #{k} to an HTTP/1.0 request carries transfer-encoding: {:?}", r.header("transfer-encoding"))));
                        }
                    } else if r.framing != Framing::Chunked {
                        return Some(("framing-stream".into(), format!("response #{k} stream body framed as {:?}", r.framing)));
                    }
                }
            }
        }
        if r.framing == Framing::Close && !r.announces_close() && e.size != BodySize::None {
            return Some(("close-delimited-keepalive".into(), format!("response #{k} is delimited by connection close but does not announce it")));
        }
        // --- connection header: depends on this request, this response and the server setting only
        let hconn = if h.status.is_err() || exp_fail { None } else { h.conn };
        let req_close = req.conn == 'c' || (req.minor == 0 && req.conn != 'k') || !case.cfg.ka;
        let want_close = (req_close && req.conn != 'u' || hconn == Some(ConnectionType::Close)) && h.conn != Some(ConnectionType::Upgrade);
        // HTTP/1.0 has no chunked coding: a stream body is delimited by closing (request + response only)
        let http10_stream = req.minor == 0 && e.size == BodySize::Stream && !h.no_chunking && req.method != "HEAD";
        let want_close = want_close || (http10_stream && !bodiless);
        let upgrade = hconn == Some(ConnectionType::Upgrade) || (hconn.is_none() && req.conn == 'u' && case.cfg.ka || hconn == Some(ConnectionType::KeepAlive) && req.conn == 'u');
        if !upgrade {
            if want_close && !r.announces_close() {
                return Some(("ctx-conn".into(), format!("response #{k} (request {i}) should announce close and does not: {:?}", r.header("connection"))));
            }
            if !want_close && r.announces_close() && !req.has_body() && !http10_stream {
                return Some(("ctx-conn".into(), format!("response #{k} (request {i}, no body, keep-alive) announces close: {:?}", r.header("connection"))));
            }
        }
        // --- a close-delimited message must be the last thing on the connection
        if !bodiless && r.framing == Framing::Close {
            if e.size == BodySize::None {
                // `BodySize::None` on a status that allows a body: the handler asked for a message
                // without framing headers; nothing after it can be attributed (API misuse, not judged)
                return None;
            }
            if k + 1 < ids.len() || r.body.len() > e.body.len() {
                return Some(("close-delimited-not-last".into(), format!("response #{k} is delimited by connection close, yet request {} was dispatched / more bytes follow", ids.get(k + 1).copied().unwrap_or(0))));
            }
        }
        // --- body
        if bodiless {
            // any body byte the server wrote shows up as garbage / a bogus next head
            continue;
        }
        if e.fails {
            if r.complete && r.framing != Framing::Close {
                return Some(("failure-looks-complete".into(), format!("response #{k}: body failed/short, but the message on the wire is complete ({:?}, {} bytes)", r.framing, r.body.len())));
            }
            failed_at = Some(k);
            if k + 1 < sp.finals.len() {
                return Some(("bytes-after-failure".into(), format!("a response follows failed response #{k}")));
            }
            continue;
        }
        let client_left = case.has_eof_or_reset || !case.writes.is_empty();
        if r.framing == Framing::Close && client_left {
            // close-delimited and the peer went away / stalled: only a prefix can be required
            if !e.body.starts_with(&r.body) {
                return Some(("body-mismatch".into(), format!("response #{k}: close-delimited body is not a prefix of what the handler produced")));
            }
            continue;
        }
        if r.complete && r.body != e.body {
            let cut_by_parse_error = r.framing == Framing::Close
                && !case.cfg.hc
                && r.body.len() < e.body.len()
                && e.body.starts_with(&r.body)
                && case.reqs.iter().skip(i + 1).any(|q| q.malformed);
            let sig = if cut_by_parse_error {
                // the server itself cut a close-delimited body short: with half-close disallowed a
                // malformed request pipelined behind the one being answered aborts the connection
                // (READ_DISCONNECT is treated like a lost peer) — the client sees a complete-looking
                // short message (close-delimited variant of abort-on-pipelined-parse-error)
                "close-delimited-cut-by-pipelined-parse-error"
            } else if matches!(&h.body, BodyKind::Custom(BodySize::Stream, t) if t.contains(&BodyTok::Chunk(0))) && r.body.len() < e.body.len() {
                "empty-chunk-truncates"
            } else if !r.body.is_empty() && b"HTTP/1.".starts_with(&r.body[..r.body.len().min(7)]) {
                // the declared body is missing and the next response head sits in its place
                "ctx-head-flag"
            } else {
                "body-mismatch"
            };
            return Some((sig.into(), format!("response #{k}: client decodes {} bytes, handler produced {} (framing {:?})", r.body.len(), e.body.len(), r.framing)));
        }
        if !r.complete && !e.body.starts_with(&r.body) {
            return Some(("body-mismatch".into(), format!("response #{k}: partial body is not a prefix of what the handler produced")));
        }
    }
    if closed_at.is_some_and(|c| c + 1 < sp.finals.len() || c + 1 < ids.len()) {
        return None;
    }
    if let Some(p) = sp.garbage_at {
        // bytes that are not a response: a body written for a bodiless response, or junk
        let k = sp.finals.len();
        let prev_bodiless = k > 0 && k <= ids.len() && {
            let i = ids[k - 1];
            case.reqs[i].method == "HEAD" || matches!(sp.finals[k - 1].status, 100..=199 | 204 | 304)
        };
        let sig = if prev_bodiless && sp.finals[k - 1].status == 304 && methods.get(k - 1) != Some(&"HEAD") {
            "body-after-304"
        } else if prev_bodiless {
            "bodiless-has-body"
        } else {
            "garbage-on-wire"
        };
        return Some((sig.into(), format!("unparsable bytes at offset {p} after response #{}", k.saturating_sub(1))));
    }
    // --- exactly one: every dispatched request but the last is answered completely; the last one
    // too when the connection was left open / closed in an orderly way and nothing failed
    for k in 0..ids.len() {
        let last = k + 1 == ids.len();
        let answered = sp.finals.get(k).is_some_and(|r| r.complete);
        if run.sim.done.starts_with("err") {
            // the connection was torn down: buffered responses may be lost with it
            break;
        }
        if !last && !answered && failed_at != Some(k) && case.writes.is_empty() {
            return Some(("missing-response".into(), format!("request {} was dispatched after request {} but that one has no complete response", ids[k + 1], ids[k])));
        }
        if last && !answered && failed_at.is_none() {
            let blocked = run.sim.log.reads.iter().any(|r| r.rid == ids[k] && r.end == 'p');
            let client_left = case.has_eof_or_reset || !case.writes.is_empty();
            let e = expected_body(ids[k], &case.handlers[ids[k]]);
            if !blocked && !client_left && !e.fails && run.sim.done != "livelock" && !run.sim.done.starts_with("err") {
                let sig = if !case.cfg.hc && case.reqs.iter().any(|r| r.malformed) { "abort-on-pipelined-parse-error" } else { "missing-response" };
                return Some((sig.into(), format!("request {} was dispatched and never answered (D={})", ids[k], run.sim.done)));
            }
        }
    }
    None
}

// ---------------------------------------------------------------------------------------------
// generator

pub const PENDS: &[usize] = &[0, 1, 2, 3];

pub fn gen_script(rng: &mut Rng, allow_empty: bool, allow_err: bool) -> (String, usize) {
    let n = rng.range(0, 5);
    let mut v = Vec::new();
    let mut total = 0;
    for _ in 0..n {
        let r = rng.below(12);
        if r < 7 {
            let k = if rng.chance(1, 10) { rng.range(200, 700) } else { rng.range(1, 12) };
            total += k;
            v.push(k.to_string());
        } else if r < 10 {
            v.push("P".into());
        } else if r == 10 && allow_empty {
            v.push("0".into());
        } else if r == 11 && allow_err && rng.chance(1, 2) {
            v.push("X".into());
            break;
        } else {
            v.push("P".into());
        }
    }
    (if v.is_empty() { "-".into() } else { v.join(".") }, total)
}

pub fn gen_body(rng: &mut Rng) -> String {
    match rng.below(14) {
        0 => "e".into(),
        1 => "N".into(),
        2 | 3 => format!("b{}", rng.range(1, 20)),
        4 | 5 => {
            let (s, t) = gen_script(rng, true, true);
            let n = match rng.below(5) {
                0 => t + rng.range(1, 4),
                1 => t.saturating_sub(rng.range(1, 3)),
                _ => t,
            };
            format!("z{n}/{s}")
        }
        6 | 7 | 8 => format!("s/{}", gen_script(rng, true, true).0),
        9 | 10 => format!("mS/{}", gen_script(rng, true, true).0),
        11 => {
            let (s, t) = gen_script(rng, true, true);
            let n = match rng.below(4) {
                0 => t + 2,
                1 => t.saturating_sub(1),
                _ => t,
            };
            format!("m{n}/{s}")
        }
        12 => format!("mN/{}", gen_script(rng, false, false).0),
        _ => format!("b{}", rng.range(1, 400)),
    }
}

pub fn gen_handler(rng: &mut Rng, req_has_body: bool) -> String {
    let pend = *rng.pick(PENDS);
    let act = if req_has_body {
        match rng.below(8) {
            0 | 1 => "i".to_owned(),
            2 => "d".to_owned(),
            3 | 4 => "a".to_owned(),
            5 => format!("r{}", rng.range(1, 8)),
            _ => "k".to_owned(),
        }
    } else {
        (*rng.pick(&["i", "i", "i", "a", "d"])).to_owned()
    };
    let status = match rng.below(16) {
        0 => "204".to_owned(),
        1 => "304".to_owned(),
        2 => "404".to_owned(),
        3 => "E500".to_owned(),
        4 => "201".to_owned(),
        _ => "200".to_owned(),
    };
    let conn = match rng.below(12) {
        0 => "c",
        1 => "k",
        _ => "-",
    };
    let mut hd = String::new();
    if rng.chance(1, 8) {
        hd.push_str(&format!("L{}", rng.range(0, 9)));
    }
    if rng.chance(1, 10) {
        hd.push('T');
    }
    if rng.chance(1, 10) {
        hd.push('C');
    }
    if hd.is_empty() {
        hd.push('-');
    }
    format!("p{pend}:{act}:{status}:{conn}:{hd}:{}", gen_body(rng))
}

pub fn gen_req(rng: &mut Rng, body_bias: usize) -> (String, Vec<String>, bool) {
    // returns (spec, body unit tokens in order (without request index), has_body)
    let minor = if rng.chance(1, 4) { 0 } else { 1 };
    let m = *rng.pick(&["G", "G", "G", "H", "H", "P", "P", "T", "D"]);
    let conn = *rng.pick(&["-", "-", "-", "-", "k", "c"]);
    let want_body = (m == "P" || m == "T" || rng.chance(1, 10)) && rng.below(10) < body_bias;
    let (b, units): (String, Vec<String>) = if want_body || (minor == 0 && m == "P") {
        if minor == 1 && rng.chance(1, 2) {
            let n = rng.range(0, 3);
            let sizes: Vec<usize> = (0..n).map(|_| rng.range(1, 30)).collect();
            let mut u: Vec<String> = (0..n).map(|j| format!("c{j}")).collect();
            u.push("z".into());
            (format!("c{}", sizes.iter().map(|s| s.to_string()).collect::<Vec<_>>().join(".")), u)
        } else {
            let n = rng.range(0, 40);
            let mut u = Vec::new();
            let mut left = n;
            while left > 0 {
                let k = rng.range(1, left);
                u.push(format!("b{k}"));
                left -= k;
            }
            (format!("l{n}"), u)
        }
    } else {
        ("n".into(), vec![])
    };
    let has_body = !units.is_empty();
    let x = if rng.chance(1, 8) { *rng.pick(&["e", "e", "w1", "w2", "f"]) } else { "-" };
    (format!("{m}:{minor}:{conn}:{b}:{x}"), units, has_body)
}

pub fn gen_reads(rng: &mut Rng, units: Vec<String>, one_segment: bool) -> String {
    // units in wire order; cut into segments, sprinkle Pending, maybe EOF
    let mut segs: Vec<String> = Vec::new();
    let mut cur: Vec<String> = Vec::new();
    for u in units {
        // split a head in two halves sometimes
        if u.ends_with('h') && rng.chance(1, 8) && !one_segment {
            cur.push(format!("{u}a"));
            segs.push(cur.join("+"));
            cur = vec![format!("{u}b")];
            for _ in 0..rng.below(3) {
                segs.push("P".into());
            }
            continue;
        }
        cur.push(u);
        if !one_segment && rng.chance(1, 3) {
            segs.push(cur.join("+"));
            cur = Vec::new();
            for _ in 0..*rng.pick(&[0usize, 0, 1, 1, 2, 3]) {
                segs.push("P".into());
            }
        }
    }
    if !cur.is_empty() {
        segs.push(cur.join("+"));
    }
    match rng.below(8) {
        0 | 1 => segs.push("E".into()),
        2 => {
            for _ in 0..rng.range(1, 4) {
                segs.push("P".into());
            }
            segs.push("E".into());
        }
        3 => {
            for _ in 0..rng.range(1, 6) {
                segs.push("P".into());
            }
        }
        _ => {}
    }
    if segs.is_empty() {
        "-".into()
    } else {
        segs.join(",")
    }
}

pub fn gen_cfg(rng: &mut Rng) -> String {
    format!(
        "ka={} dt={} hc={} wb={}",
        if rng.chance(1, 6) { 0 } else { 1 },
        rng.below(2),
        if rng.chance(1, 4) { 0 } else { 1 },
        *rng.pick(&[32768usize, 32768, 32768, 64, 8, 1])
    )
}

pub fn gen_writes(rng: &mut Rng) -> String {
    if rng.chance(2, 3) {
        return "-".into();
    }
    let n = rng.range(1, 6);
    let v: Vec<String> = (0..n)
        .map(|_| match rng.below(10) {
            0..=4 => rng.range(1, 40).to_string(),
            5..=8 => "P".to_owned(),
            _ => (*rng.pick(&["X", "Z", "P", "7"])).to_owned(),
        })
        .collect();
    v.join(",")
}

pub fn gen_random(rng: &mut Rng, body_bias: usize) -> String {
    let n = *rng.pick(&[1usize, 2, 2, 2, 3, 3, 4, 5]);
    let mut qs = Vec::new();
    let mut hs = Vec::new();
    let mut units = Vec::new();
    let bad_at = if rng.chance(1, 10) { Some(rng.below(n)) } else { None };
    let mut body_cut = false;
    for i in 0..n {
        if bad_at == Some(i) {
            qs.push("X".to_owned());
            hs.push("p0:i:200:-:-:e".to_owned());
            units.push(format!("{i}h"));
            continue;
        }
        let (q, us, has_body) = gen_req(rng, body_bias);
        qs.push(q);
        hs.push(gen_handler(rng, has_body));
        units.push(format!("{i}h"));
        // sometimes the client does not send the whole body
        let keep = if rng.chance(1, 8) { rng.below(us.len() + 1) } else { us.len() };
        let cut = keep < us.len();
        for u in us.into_iter().take(keep) {
            units.push(format!("{i}{u}"));
        }
        if cut {
            // the client stops in the middle of this body: nothing follows
            body_cut = true;
            break;
        }
    }
    let mut up = "";
    if !body_cut && rng.chance(1, 8) {
        // the last thing the client sends is an upgrade request
        let i = qs.len();
        qs.push(format!("U:1:{}:n:-", rng.pick(&["u", "u", "-"])));
        up = " up=1";
        hs.push("p0:i:200:-:-:e".to_owned());
        units.push(format!("{i}h"));
    }
    let one = rng.chance(1, 3);
    format!("{}{up} q={} h={} r={} w={}", gen_cfg(rng), qs.join(";"), hs.join(";"), gen_reads(rng, units, one), gen_writes(rng))
}

fn gen(ctx: &Ctx) -> Vec<String> {
    let mut cases = Vec::new();
    // exhaustive two-request family: the window "request 2 decoded while response 1 not yet encoded"
    let bodies = ["e", "b5", "s/3.4", "mS/2.0.3", "z5/2.3"];
    for m1 in ["G", "H"] {
        for m2 in ["G", "H"] {
            for v1 in ["0:k", "1:-", "1:c"] {
                for v2 in ["0:k", "1:-", "1:c", "0:-"] {
                    for p1 in [0usize, 1, 2] {
                        for (bi, b) in bodies.iter().enumerate() {
                            if ctx.tier == Tier::Quick && (bi + p1) % 2 == 1 && m1 == "H" {
                                continue;
                            }
                            cases.push(format!(
                                "ka=1 dt=0 hc=1 wb=32768 q={m1}:{v1}:n:-;{m2}:{v2}:n:- h=p{p1}:i:200:-:-:{b};p0:i:200:-:-:b4 r=0h+1h w=-"
                            ));
                        }
                    }
                }
            }
        }
    }
    // status x body kind x method table (head rules)
    for st in ["200", "204", "304", "404"] {
        for b in ["e", "N", "b3", "s/2.2", "z4/4", "mS/1", "m3/3", "mN/-"] {
            for m in ["G", "H"] {
                for v in ["0", "1"] {
                    for hd in ["-", "L7", "T", "L7T"] {
                        cases.push(format!("ka=1 dt=0 hc=1 wb=32768 q={m}:{v}:-:n:- h=p0:i:{st}:-:{hd}:{b} r=0h w=-"));
                    }
                }
            }
        }
    }
    // upgrade request behind 0..2 ordinary pipelined requests, upgrade service configured: the
    // hand-over to the upgrade service must not lose what was encoded before
    for k in 0..=2usize {
        for p in [0usize, 1, 2] {
            for b in ["b5", "e", "s/3.P.4", "z4/2.2"] {
                for (ri, r) in ["all", "stagger", "late"].iter().enumerate() {
                    for w in ["-", "P", "7,P,9", "P,P,3"] {
                        if ctx.tier == Tier::Quick && (k + p + ri) % 2 == 1 && w != "-" {
                            continue;
                        }
                        let mut q: Vec<String> = (0..k).map(|j| if j == 0 { "G:1:-:n:-".to_owned() } else { "H:1:-:n:-".to_owned() }).collect();
                        q.push("U:1:u:n:-".to_owned());
                        let mut h: Vec<String> = (0..k).map(|j| format!("p{}:i:200:-:-:{b}", if j == 0 { p } else { 0 })).collect();
                        h.push("p0:i:200:-:-:e".to_owned());
                        let units: Vec<String> = (0..=k).map(|j| format!("{j}h")).collect();
                        let reads = match *r {
                            "all" => units.join("+"),
                            "stagger" => units.join(",P,"),
                            _ => format!("{},P,P,{}", units[..k].join("+"), units[k]).trim_start_matches(',').to_owned(),
                        };
                        cases.push(format!("ka=1 dt=0 hc=1 wb=32768 up=1 q={} h={} r={} w={w}", q.join(";"), h.join(";"), reads));
                    }
                }
            }
        }
    }
    // a pass-through (no_chunking + user Content-Length) stream response on a kept-alive connection,
    // followed by a body-less response whose handler supplies a body: encoder state must not leak
    for p in [0usize, 1] {
        for (m2, st2) in [("H", "200"), ("G", "204"), ("H", "204")] {
            for b2 in ["b4", "s/2.2", "z3/3"] {
                for r in ["0h+1h", "0h,P,1h"] {
                    cases.push(format!(
                        "ka=1 dt=0 hc=1 wb=32768 q=G:1:-:n:-;{m2}:1:-:n:-;G:1:-:n:- h=p{p}:i:200:-:KL7:s/3.P.4;p0:i:{st2}:-:-:{b2};p0:i:200:-:-:b2 r={r},P,2h w=-"
                    ));
                }
            }
        }
    }
    // an oversized never-ending head (own read burst) behind 0..1 ordinary requests: exactly one 431
    for k in 0..=1usize {
        for p in [0usize, 1] {
            for r in ["h", "ha,P,{}hb"] {
                for w in ["-", "P", "P,P,5,P"] {
                    let q = if k == 0 { "L".to_owned() } else { "G:1:-:n:-;L".to_owned() };
                    let h = if k == 0 { "p0:i:200:-:-:e".to_owned() } else { format!("p{p}:i:200:-:-:b3;p0:i:200:-:-:e") };
                    let big = format!("{k}{}", r.replace("{}", &k.to_string()));
                    let reads = if k == 0 { big } else { format!("0h,P,{big}") };
                    cases.push(format!("ka=1 dt=0 hc=1 wb=32768 q={q} h={h} r={reads} w={w}"));
                }
            }
        }
    }
    let mut rng = Rng::new(ctx.seed);
    for _ in 0..ctx.budget(2500) {
        cases.push(gen_random(&mut rng, 6));
    }
    cases
}

fn run(line: &str) -> CaseResult {
    let Some(run) = run_case(line) else {
        return CaseResult { output: "bad-case".into(), fail: None, nontrivial: false, tags: vec!["bad-case".into()] };
    };
    let mut res = CaseResult::ok(run.output.clone());
    res.nontrivial = !run.sim.log.calls.is_empty() && run.sim.wire.starts_with(b"HTTP/1.");
    res.tags.push(format!("reqs={}", run.case.reqs.len()));
    res.tags.push(format!("D={}", run.sim.done));
    for h in &run.case.handlers {
        res.tags.push(
            match &h.body {
                BodyKind::Empty => "body=empty",
                BodyKind::NoneBody => "body=none",
                BodyKind::Bytes(_) => "body=bytes",
                BodyKind::SizedStream(..) => "body=sized-stream",
                BodyKind::BodyStream(_) => "body=stream",
                BodyKind::Custom(..) => "body=custom",
            }
            .to_owned(),
        );
    }
    if run.sim.log.calls.len() >= 2 {
        res.tags.push("pipelined-dispatch".into());
    }
    if let Some((sig, detail)) = oracle_c02(&run) {
        res = res.fail(&sig, detail);
    }
    res
}

pub fn prop() -> Prop {
    Prop { rule: RULE, parallel: true, gen: Box::new(gen), run: Box::new(run) }
}
