//! stub: property C02 has no correspondence harness yet
use super::Prop;
use crate::common::CaseResult;

pub fn prop() -> Prop {
    Prop {
        rule: "unimplemented",
        parallel: false,
        gen: Box::new(|_| Vec::new()),
        run: Box::new(|_| CaseResult::ok("unimplemented".to_owned())),
    }
}
