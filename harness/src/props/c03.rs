//! C03 — HTTP/1 reuse discipline: close means close; unread request bodies are never reparsed.
//! Shares the case grammar, the scripted socket/service and the runner with C02
//! (`props/c02.rs`, `c02_sock.rs`); generator and oracle are this property's own.
use super::c02::{self, check_dispatch, gen_cfg, gen_handler, gen_reads, gen_req, gen_writes, run_case, split_responses, Run};
use super::Prop;
use crate::common::{CaseResult, Ctx, Rng};

const RULE: &str = "cases = one scripted HTTP/1 connection each (same grammar as C02), biased towards requests with \
bodies (Content-Length / chunked, bytes that look like a smuggled `GET /99` request), handlers that read none / part / all \
of the body, drop it early or hold it through the response, respond before or after the body arrived, requests and \
responses asking for `Connection: close`, keep-alive off, half-close on/off, linger on/off, body bytes delivered in any \
segmentation before/after the response, truncated bodies, malformed heads at any pipeline position; exhaustive family: \
(body framing x payload action x handler delay x arrival schedule x close flags) for a request followed by a second one; \
non-trivial = a request with a body or a close announcement was dispatched and answered; distinct = (case, output) hashes";

/// C03's own words on the implementation's wire bytes and call log.
pub fn oracle_c03(run: &Run) -> Option<(String, String)> {
    // (b) nothing the client did not send as a request ever reaches the service
    let ids = match check_dispatch(run) {
        Ok(v) => v,
        Err(e) => return Some(e),
    };
    let case = &run.case;
    let methods: Vec<&str> = ids.iter().map(|i| case.reqs[*i].method).collect();
    let sp = split_responses(&run.sim.wire, &methods);
    // (a) after a response that announces close / answers a malformed request: silence
    for (k, r) in sp.finals.iter().enumerate() {
        // a dispatcher-made error response (no service identity) to a malformed request
        let parse_error = r.header("x-rid").is_none() && matches!(r.status, 400 | 431);
        if !(r.announces_close() || parse_error) {
            continue;
        }
        let what = if parse_error { "an error response to a malformed request" } else { "a response announcing close" };
        // requests answered before this response
        let answered = sp.finals[..k].iter().filter(|x| x.header("x-rid").is_some()).count();
        if parse_error && ids.len() > answered {
            return Some(("dispatch-after-parse-error".into(), format!("response #{k} is {what}, yet request {} was dispatched afterwards", ids[answered])));
        }
        if ids.len() > k + 1 {
            return Some((if parse_error { "dispatch-after-parse-error" } else { "dispatch-after-close" }.into(), format!("response #{k} is {what}, yet request {} was dispatched afterwards", ids[k + 1])));
        }
        if !r.complete {
            break;
        }
        if r.end < run.sim.wire.len() {
            if r.status == 304 && methods.get(k) != Some(&"HEAD") && !run.sim.wire[r.end..].starts_with(b"HTTP/1.") {
                // the body of a 304 (C02's known finding body-after-304), not a new message
                return Some(("body-after-304".into(), format!("response #{k} (304, {what}) is followed by {} body bytes", run.sim.wire.len() - r.end)));
            }
            return Some((if parse_error { "bytes-after-parse-error" } else { "bytes-after-close" }.into(), format!("response #{k} is {what}, yet {} more bytes were written", run.sim.wire.len() - r.end)));
        }
        if run.sim.done == "pending" && !case.cfg.dt {
            // the connection must actually be closed by the server (with a disconnect timeout the
            // server may legitimately linger waiting for the peer)
            return Some(("close-not-closed".into(), format!("response #{k} is {what}, but the connection is left open and idle")));
        }
        break;
    }
    // (c) keep-alive only after the previous request body was received to its exact end: request
    // k+1 must not be dispatched unless every body byte of request k was delivered by the client
    for w in ids.windows(2) {
        let r = &case.reqs[w[0]];
        if r.has_body() && !body_fully_sent(run, w[0]) {
            return Some(("reuse-before-body-end".into(), format!("request {} dispatched although the body of request {} never arrived completely", w[1], w[0])));
        }
    }
    None
}

/// did the read script deliver the complete body of request i? (ground truth from the case text)
fn body_fully_sent(run: &Run, i: usize) -> bool {
    // the case text lists the body units; recompute the delivered byte count from it
    let line = &run.line;
    let Some(r) = crate::common::kv(line, "r") else { return false };
    let req = &run.case.reqs[i];
    let mut bytes = 0usize;
    let mut chunks = 0usize;
    let mut last = false;
    for seg in r.split(',') {
        for u in seg.split('+') {
            let Some(p) = u.find(|c: char| !c.is_ascii_digit()) else { continue };
            if u[..p].parse::<usize>().ok() != Some(i) {
                continue;
            }
            let rest = &u[p..];
            if let Some(k) = rest.strip_prefix('b') {
                bytes += k.parse::<usize>().unwrap_or(0);
            } else if rest.starts_with('c') {
                chunks += 1;
            } else if rest == "z" {
                last = true;
            }
        }
    }
    match &req.body {
        c02::ReqBody::None => true,
        c02::ReqBody::Len(n) => bytes >= *n,
        c02::ReqBody::Chunked(v) => chunks >= v.len() && last,
    }
}

fn gen(ctx: &Ctx) -> Vec<String> {
    let mut cases = Vec::new();
    // exhaustive: request 0 with a body, request 1 plain; all payload actions x delays x schedules
    let acts = ["i", "d", "a", "r2", "k"];
    let framings: [(&str, &[&str]); 3] = [("l6", &["0b6"]), ("l6", &["0b2", "0b4"]), ("c3.3", &["0c0", "0c1", "0z"])];
    for (fr, units) in framings {
        for act in acts {
            for pend in [0usize, 1, 2] {
                for body in ["e", "b3", "s/2.P.2"] {
                    for conn in ["-", "c"] {
                        for dt in [0, 1] {
                            // schedules: everything at once / body after k Pendings / body never / body then EOF
                            let all = format!("0h+{}+1h", units.join("+"));
                            let late = format!("0h,P,P,{},1h", units.join(","));
                            let never = "0h,P,P".to_string();
                            let part = format!("0h,{},P,E", units[0]);
                            for r in [all, late, never, part] {
                                cases.push(format!(
                                    "ka=1 dt={dt} hc=1 wb=32768 q=P:1:{conn}:{fr}:-;G:1:-:n:- h=p{pend}:{act}:200:-:-:{body};p0:i:200:-:-:b2 r={r} w=-"
                                ));
                            }
                        }
                    }
                }
            }
        }
    }
    // close announced by the handler / request / server setting, with pipelined followers
    for ka in [0, 1] {
        for c0 in ["-", "c", "k"] {
            for hc in ["-", "c"] {
                for v in ["0", "1"] {
                    for pend in [0, 1] {
                        for w in ["-", "P,P", "10,P,10,P"] {
                            for r in ["0h+1h", "0h,P,1h", "0h,P,P,P,1h", "0h+1h,E"] {
                                cases.push(format!(
                                    "ka={ka} dt=0 hc=1 wb=32768 q=G:{v}:{c0}:n:-;G:1:-:n:- h=p{pend}:i:200:{hc}:-:b30;p0:i:200:-:-:b2 r={r} w={w}"
                                ));
                            }
                        }
                    }
                }
            }
        }
    }
    // malformed head at each pipeline position
    for pos in 0..3 {
        for pend in [0, 1] {
            let q: Vec<&str> = (0..3).map(|i| if i == pos { "X" } else { "G:1:-:n:-" }).collect();
            cases.push(format!(
                "ka=1 dt=0 hc=1 wb=32768 q={} h=p{pend}:i:200:-:-:b3;p{pend}:i:200:-:-:b3;p0:i:200:-:-:b3 r=0h+1h+2h w=-",
                q.join(";")
            ));
            cases.push(format!(
                "ka=1 dt=1 hc=0 wb=32768 q={} h=p{pend}:i:200:-:-:b3;p{pend}:i:200:-:-:b3;p0:i:200:-:-:b3 r=0h,P,1h,P,2h,E w=-",
                q.join(";")
            ));
        }
    }
    // oversized, never-ending request head (>= 128 KiB, own read burst) alone or behind ordinary
    // requests, under write back-pressure: exactly one 431, nothing after it
    for k in 0..=2usize {
        for p in [0usize, 1] {
            for big in ["h", "ha,P,{}hb", "ha,{}hb"] {
                for w in ["-", "P", "P,P", "10,P", "P,20,P,P", "200,P"] {
                    for (dt, hc) in [(0, 1), (1, 1), (0, 0)] {
                        if k == 2 && (p == 1 || dt == 1) {
                            continue;
                        }
                        let mut q: Vec<String> = (0..k).map(|_| "G:1:-:n:-".to_owned()).collect();
                        q.push("L".to_owned());
                        let mut h: Vec<String> = (0..k).map(|j| format!("p{}:i:200:-:-:b3", if j == 0 { p } else { 0 })).collect();
                        h.push("p0:i:200:-:-:e".to_owned());
                        let big = format!("{k}{}", big.replace("{}", &k.to_string()));
                        let first: Vec<String> = (0..k).map(|j| format!("{j}h")).collect();
                        let reads = if k == 0 { big } else { format!("{},P,{big}", first.join("+")) };
                        cases.push(format!("ka=1 dt={dt} hc={hc} wb=32768 q={} h={} r={reads} w={w}", q.join(";"), h.join(";")));
                    }
                }
            }
        }
    }
    let mut rng = Rng::new(ctx.seed ^ 0xC03);
    for _ in 0..ctx.budget(2500) {
        cases.push(gen_c03_random(&mut rng));
    }
    cases
}

fn gen_c03_random(rng: &mut Rng) -> String {
    let n = *rng.pick(&[1usize, 2, 2, 2, 3, 3, 4]);
    let mut qs = Vec::new();
    let mut hs = Vec::new();
    let mut units = Vec::new();
    let bad_at = if rng.chance(1, 6) { Some(rng.below(n)) } else { None };
    for i in 0..n {
        if bad_at == Some(i) {
            qs.push("X".to_owned());
            hs.push("p0:i:200:-:-:e".to_owned());
            units.push(format!("{i}h"));
            continue;
        }
        let (mut q, us, has_body) = gen_req(rng, 10);
        if rng.chance(1, 5) {
            // force a close request
            let mut f: Vec<String> = q.split(':').map(|s| s.to_owned()).collect();
            f[2] = "c".into();
            q = f.join(":");
        }
        qs.push(q);
        let mut h = gen_handler(rng, has_body);
        if rng.chance(1, 6) {
            let mut f: Vec<String> = h.split(':').map(|s| s.to_owned()).collect();
            f[3] = "c".into();
            h = f.join(":");
        }
        hs.push(h);
        units.push(format!("{i}h"));
        let keep = if rng.chance(1, 4) { rng.below(us.len() + 1) } else { us.len() };
        let cut = keep < us.len();
        for u in us.into_iter().take(keep) {
            units.push(format!("{i}{u}"));
        }
        if cut {
            break;
        }
    }
    let one = rng.chance(1, 4);
    format!("{} q={} h={} r={} w={}", gen_cfg(rng), qs.join(";"), hs.join(";"), gen_reads(rng, units, one), gen_writes(rng))
}

fn run(line: &str) -> CaseResult {
    let Some(run) = run_case(line) else {
        return CaseResult { output: "bad-case".into(), fail: None, nontrivial: false, tags: vec!["bad-case".into()] };
    };
    let mut res = CaseResult::ok(run.output.clone());
    let methods: Vec<&str> = run.sim.log.seen.iter().map(|c| c.1.as_str()).collect();
    let sp = split_responses(&run.sim.wire, &methods);
    let any_close = sp.finals.iter().any(|r| r.announces_close());
    let any_body = run.sim.log.calls.iter().any(|c| c.0.is_some_and(|i| run.case.reqs.get(i).is_some_and(|r| r.has_body())));
    res.nontrivial = !sp.finals.is_empty() && (any_close || any_body);
    res.tags.push(format!("D={}", run.sim.done));
    if any_close {
        res.tags.push("close-announced".into());
    }
    if any_body {
        res.tags.push("request-body".into());
    }
    if sp.finals.iter().any(|r| matches!(r.status, 400 | 431)) {
        res.tags.push("parse-error-response".into());
    }
    if run.sim.log.calls.len() >= 2 {
        res.tags.push("reused".into());
    }
    for r in &run.sim.log.reads {
        res.tags.push(format!("payload-end={}", r.end));
    }
    if let Some((sig, detail)) = oracle_c03(&run) {
        res = res.fail(&sig, detail);
    }
    res
}

pub fn prop() -> Prop {
    Prop { rule: RULE, parallel: true, gen: Box::new(gen), run: Box::new(run) }
}
