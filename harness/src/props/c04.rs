//! C04 — HTTP/1 connections always progress: no lost wake-ups, all bytes flushed.
//!
//! A case is a space separated token list (every token can be deleted independently):
//!   ka=os|off|<s>  D=<s>  T=<s>  wbs=<n>  q=<n>  hc=0|1          configuration
//!   Q:<headlen>:<n|s<N>|c<n1>.<n2>…>:<hsteps|->:<N|Z|S<steps>|C<steps>>[:<csteps>]   one request
//!       body kinds: n none, s<N> sized, c<..> chunked, x malformed (400 path), u upgrade request
//!       hsteps: p q r a d m  t (poll the body once, never block)  w (join the consumer task)
//!       csteps: r d (one step per `c` event)  A (wake-driven read-to-end: a task of its own)
//!   R<k> RP RE RX RZ     read script (k bytes available / barrier / EOF / reset / silent for ever)
//!   W<k> W0 WP           write script (accept ≤k / write zero / barrier); exhausted = accept all
//!   FP FK  SP SK         flush / shutdown script (barrier / ready); exhausted = ready
//!   E:<letters>          order of external events (r w f s h b c); exhausted = serve waiters
//! The real `h1::Dispatcher` is polled by the wake-driven executor of `c04_sim.rs`.
#[path = "../c04_sim.rs"]
mod sim;

use sim::*;

use super::Prop;
use crate::common::{CaseResult, Ctx, Rng, Tier};

const RULE: &str = "cases = (config, pipelined requests with scripted handlers / response bodies / request-body \
consumers, adversarial read/write/flush/shutdown readiness scripts, order of external events); the real connection \
future is polled only when its waker fired; a case is non-trivial if at least one handler was called and at least one \
idle point (Pending with no wake) occurred; distinct = distinct (case, output) hashes";

fn parse_bsteps(s: &str) -> Option<Vec<BStep>> {
    let mut v = Vec::new();
    if s.is_empty() {
        return Some(v);
    }
    for it in s.split('.') {
        v.push(match it {
            "p" => BStep::SelfPend,
            "q" => BStep::ExtPend,
            "e" => BStep::Err,
            n => BStep::Chunk(n.parse::<usize>().ok().filter(|n| *n > 0 && *n <= 200_000)?),
        });
    }
    Some(v)
}

fn parse_req(tok: &str) -> Option<Req> {
    let p: Vec<&str> = tok.split(':').collect();
    if p.len() < 5 || p.len() > 6 || p[0] != "Q" {
        return None;
    }
    let head_len = p[1].parse::<usize>().ok()?;
    let body = if p[2] == "n" {
        ReqBody::None
    } else if p[2] == "x" {
        ReqBody::Bad
    } else if p[2] == "u" {
        ReqBody::Upgrade
    } else if let Some(n) = p[2].strip_prefix('s') {
        ReqBody::Sized(n.parse::<usize>().ok().filter(|n| *n > 0 && *n <= 400_000)?)
    } else if let Some(cs) = p[2].strip_prefix('c') {
        let mut v = Vec::new();
        if !cs.is_empty() {
            for c in cs.split('.') {
                v.push(c.parse::<usize>().ok().filter(|n| *n > 0 && *n <= 400_000)?);
            }
        }
        ReqBody::Chunked(v)
    } else {
        return None;
    };
    let hsteps: Vec<u8> = if p[3] == "-" { vec![] } else { p[3].bytes().collect() };
    if !hsteps.iter().all(|c| b"pqradmtw".contains(c)) {
        return None;
    }
    let resp = match p[4].as_bytes().first()? {
        b'N' if p[4].len() == 1 => RespKind::None,
        b'Z' if p[4].len() == 1 => RespKind::Zero,
        b'S' => {
            let st = parse_bsteps(&p[4][1..])?;
            if !st.iter().any(|s| matches!(s, BStep::Chunk(_))) {
                return None;
            }
            RespKind::Sized(st)
        }
        b'C' => RespKind::Stream(parse_bsteps(&p[4][1..])?),
        _ => return None,
    };
    let csteps: Vec<u8> = if p.len() == 6 { p[5].bytes().collect() } else { vec![] };
    if !csteps.iter().all(|c| b"rdA".contains(c)) {
        return None;
    }
    Some(Req { head_len, body, hsteps, resp, csteps })
}

pub fn parse_case(line: &str) -> Option<Case> {
    let mut cfg = Cfg { ka: None, disc: 0, head: 0, wbs: 32768, quantum: 1024, half_closed: true };
    let mut c = Case { cfg: cfg.clone(), reqs: vec![], rops: vec![], wops: vec![], fops: vec![], sops: vec![], ev: vec![] };
    for tok in line.split_ascii_whitespace() {
        if let Some(v) = tok.strip_prefix("ka=") {
            cfg.ka = match v {
                "os" => None,
                "off" => Some(0),
                n => Some(n.parse::<u64>().ok().filter(|n| *n > 0 && *n < 100)?),
            };
        } else if let Some(v) = tok.strip_prefix("D=") {
            cfg.disc = v.parse::<u64>().ok().filter(|n| *n < 100)?;
        } else if let Some(v) = tok.strip_prefix("T=") {
            cfg.head = v.parse::<u64>().ok().filter(|n| *n < 100)?;
        } else if let Some(v) = tok.strip_prefix("wbs=") {
            cfg.wbs = v.parse::<usize>().ok().filter(|n| *n > 0 && *n <= 1 << 20)?;
        } else if let Some(v) = tok.strip_prefix("q=") {
            cfg.quantum = v.parse::<usize>().ok().filter(|n| *n > 0 && *n <= 1024)?;
        } else if let Some(v) = tok.strip_prefix("hc=") {
            cfg.half_closed = v == "1";
        } else if tok.starts_with("Q:") {
            c.reqs.push(parse_req(tok)?);
        } else if let Some(v) = tok.strip_prefix("E:") {
            for ch in v.bytes() {
                c.ev.push(SRC.iter().position(|s| *s == ch)?);
            }
        } else if tok == "RP" {
            c.rops.push(ROp::Barrier);
        } else if tok == "RE" {
            c.rops.push(ROp::Eof);
        } else if tok == "RX" {
            c.rops.push(ROp::Reset);
        } else if tok == "RZ" {
            c.rops.push(ROp::Silent);
        } else if tok == "WP" {
            c.wops.push(WOp::Barrier);
        } else if tok == "W0" {
            c.wops.push(WOp::Zero);
        } else if tok == "FP" {
            c.fops.push(true);
        } else if tok == "FK" {
            c.fops.push(false);
        } else if tok == "SP" {
            c.sops.push(true);
        } else if tok == "SK" {
            c.sops.push(false);
        } else if let Some(v) = tok.strip_prefix('R') {
            c.rops.push(ROp::Bytes(v.parse::<usize>().ok().filter(|n| *n > 0)?));
        } else if let Some(v) = tok.strip_prefix('W') {
            c.wops.push(WOp::Accept(v.parse::<usize>().ok().filter(|n| *n > 0)?));
        } else {
            return None;
        }
    }
    if c.reqs.len() > 40 {
        return None;
    }
    c.cfg = cfg;
    Some(c)
}

// ---------------------------------------------------------------------------------------------
// independent oracle: parse what the socket accepted as HTTP/1.1 responses

struct ParsedResp {
    status: u16,
    body: Vec<u8>,
    complete: bool,
    close: bool,
}

fn find(h: &[u8], n: &[u8], from: usize) -> Option<usize> {
    if h.len() < n.len() {
        return None;
    }
    (from..=h.len() - n.len()).find(|&i| &h[i..i + n.len()] == n)
}

/// Parse a byte stream as back-to-back responses. `Err` = not a well-formed (possibly truncated)
/// response sequence.
fn parse_responses(acc: &[u8]) -> Result<Vec<ParsedResp>, String> {
    let mut out = Vec::new();
    let mut pos = 0;
    while pos < acc.len() {
        let Some(he) = find(acc, b"\r\n\r\n", pos) else {
            // truncated head: must at least look like the start of a status line
            let pre = &acc[pos..];
            let want = b"HTTP/1.1 ";
            let n = pre.len().min(want.len());
            if pre[..n] != want[..n] {
                return Err(format!("garbage at offset {}", pos));
            }
            out.push(ParsedResp { status: 0, body: vec![], complete: false, close: false });
            return Ok(out);
        };
        let head = std::str::from_utf8(&acc[pos..he]).map_err(|_| "non-utf8 head".to_owned())?;
        let mut lines = head.split("\r\n");
        let sl = lines.next().unwrap_or("");
        if !sl.starts_with("HTTP/1.1 ") || sl.len() < 12 {
            return Err(format!("bad status line {:?} at offset {}", sl, pos));
        }
        let status: u16 = sl[9..12].parse().map_err(|_| format!("bad status {:?}", sl))?;
        let mut cl: Option<usize> = None;
        let mut chunked = false;
        let mut close = false;
        for l in lines {
            let (k, v) = l.split_once(':').ok_or_else(|| format!("bad header line {:?}", l))?;
            let v = v.trim();
            match k.to_ascii_lowercase().as_str() {
                "content-length" => cl = Some(v.parse().map_err(|_| "bad content-length".to_owned())?),
                "transfer-encoding" => chunked = v.eq_ignore_ascii_case("chunked"),
                "connection" => close = v.eq_ignore_ascii_case("close"),
                _ => {}
            }
        }
        pos = he + 4;
        let mut body = Vec::new();
        let mut complete = true;
        if status == 100 {
            out.push(ParsedResp { status, body, complete: true, close: false });
            continue;
        }
        if chunked {
            loop {
                let Some(le) = find(acc, b"\r\n", pos) else {
                    complete = false;
                    pos = acc.len();
                    break;
                };
                let sz = usize::from_str_radix(std::str::from_utf8(&acc[pos..le]).unwrap_or("?"), 16)
                    .map_err(|_| format!("bad chunk size at offset {}", pos))?;
                pos = le + 2;
                if sz == 0 {
                    if acc.len() < pos + 2 {
                        complete = false;
                        pos = acc.len();
                    } else if &acc[pos..pos + 2] != b"\r\n" {
                        return Err(format!("bad chunked terminator at offset {}", pos));
                    } else {
                        pos += 2;
                    }
                    break;
                }
                let take = sz.min(acc.len() - pos);
                body.extend_from_slice(&acc[pos..pos + take]);
                pos += take;
                if take < sz || acc.len() < pos + 2 {
                    complete = false;
                    pos = acc.len();
                    break;
                }
                if &acc[pos..pos + 2] != b"\r\n" {
                    return Err(format!("bad chunk end at offset {}", pos));
                }
                pos += 2;
            }
        } else if let Some(n) = cl {
            let take = n.min(acc.len() - pos);
            body.extend_from_slice(&acc[pos..pos + take]);
            pos += take;
            complete = take == n;
        }
        out.push(ParsedResp { status, body, complete, close });
    }
    Ok(out)
}

/// blank the value of every `date:` header (wall-clock dependent)
fn mask_dates(bs: &[u8]) -> Vec<u8> {
    let mut v = bs.to_vec();
    let mut pos = 0;
    while let Some(i) = find(&v, b"\r\ndate: ", pos) {
        let st = i + 8;
        let en = find(&v, b"\r\n", st).unwrap_or(v.len());
        for b in &mut v[st..en] {
            *b = b'#';
        }
        pos = en;
    }
    v
}

/// idle points probed per case (each costs one partial re-run)
const MAX_PROBED_IDLE: usize = 16;

fn show_outcome(o: &Outcome) -> String {
    match o {
        Outcome::DoneOk => "ok".into(),
        Outcome::DoneErr(k) => format!("err:{}", k),
        Outcome::Idle => "idle".into(),
        Outcome::Stalled => "STALLED".into(),
        Outcome::Spin => "SPIN".into(),
        Outcome::ProbeStop => "probe-stop".into(),
    }
}

fn trace_str(tr: &[String]) -> String {
    const CAP: usize = 160;
    if tr.len() <= CAP {
        tr.join(",")
    } else {
        format!("{},+{}", tr[..CAP].join(","), tr.len() - CAP)
    }
}

fn run(line: &str) -> CaseResult {
    let Some(case) = parse_case(line) else {
        return CaseResult { output: "bad-case".into(), fail: None, nontrivial: false, tags: vec!["bad-case".into()] };
    };
    let Some(r) = run_case(&case) else {
        return CaseResult { output: "bad-case".into(), fail: None, nontrivial: false, tags: vec!["bad-case".into()] };
    };
    let log = &r.log;
    if std::env::var_os("C04_DEBUG").is_some() {
        eprintln!("accepted: {:?}", String::from_utf8_lossy(&log.accepted));
    }
    // quiescence at every idle point: re-run up to the k-th idle point and poll once spuriously
    let n_idle = r.trace.iter().filter(|t| t.starts_with('I')).count();
    let mut lost: Option<(usize, String)> = None;
    for k in 0..n_idle.min(MAX_PROBED_IDLE) {
        if let Some(rk) = run_case_probe(&case, Some(k)) {
            if let Some(what) = rk.probe {
                lost = Some((k, what));
                break;
            }
        }
    }
    let output = format!(
        "{}{} lw={} acc={} calls={} sd={} tr={}",
        show_outcome(&r.outcome),
        match (&r.outcome, &r.probe) {
            (Outcome::Idle | Outcome::Stalled, Some(_)) => "/progress-on-spurious-poll",
            (Outcome::Idle | Outcome::Stalled, None) => "/quiescent",
            _ => "",
        },
        lost.as_ref().map(|l| l.0.to_string()).unwrap_or_else(|| "-".into()),
        log.accepted.len(),
        log.called.len(),
        log.shutdown_done as u8,
        trace_str(&r.trace)
    );
    let mut res = CaseResult::ok(output);
    let idle_points = r.trace.iter().filter(|t| t.starts_with('I')).count();
    res.nontrivial = !log.called.is_empty() && idle_points > 0;
    // ---- tags
    res.tags.push(format!("out:{}", show_outcome(&r.outcome).split(':').next().unwrap()));
    res.tags.push(format!("reqs:{}", case.reqs.len().min(5)));
    if case.wops.iter().any(|w| matches!(w, WOp::Accept(_))) {
        res.tags.push("partial-write".into());
    }
    if case.wops.iter().any(|w| matches!(w, WOp::Barrier)) {
        res.tags.push("write-pending".into());
    }
    if case.fops.iter().any(|b| *b) {
        res.tags.push("flush-pending".into());
    }
    if case.rops.iter().any(|o| matches!(o, ROp::Reset)) {
        res.tags.push("read-reset".into());
    }
    if log.consumed.iter().any(|e| e.4) {
        res.tags.push("payload-dropped".into());
    }
    if case.reqs.iter().any(|q| q.hsteps.contains(&b'm')) {
        res.tags.push("payload-moved".into());
    }
    if case.reqs.iter().any(|q| q.hsteps.contains(&b'm') && q.csteps.contains(&b'A')) {
        res.tags.push("payload-handed-to-woken-task".into());
    }
    if r.trace.iter().any(|t| t == "t") {
        res.tags.push("timer-fired".into());
    }
    if r.trace.iter().any(|t| t.starts_with('!')) {
        res.tags.push("fairness-delivery".into());
    }
    if case.reqs.iter().any(|q| matches!(q.body, ReqBody::Bad)) {
        res.tags.push("malformed-request".into());
    }
    if log.upgraded {
        res.tags.push("upgraded".into());
    }
    if case.reqs.len() > 16 {
        res.tags.push("pipeline>16".into());
    }
    if log.wire_read > 131072 {
        res.tags.push("read-cap".into());
    }

    // ---- oracle 0: Pending-with-no-wake must mean "nothing to do": a spurious poll is a no-op
    if let Some((k, what)) = &lost {
        let sig = if log.consumed.iter().any(|e| e.4) { "lost-wakeup-after-payload-drop" } else { "lost-wakeup" };
        return res.fail(
            sig,
            format!("at idle point {} (task Pending, not woken, waiters {}) a spurious poll makes progress: {}", k, r.trace.iter().filter(|t| t.starts_with('I')).nth(*k).cloned().unwrap_or_default(), what),
        );
    }
    // ---- the upgrade service writes what it inherited from the dispatcher, then its marker
    let mut wire_bytes: &[u8] = &log.accepted;
    if log.upgraded {
        if wire_bytes.ends_with(UPGRADE_MARKER) {
            wire_bytes = &wire_bytes[..wire_bytes.len() - UPGRADE_MARKER.len()];
        } else if matches!(r.outcome, Outcome::DoneOk) {
            return res.fail("unflushed-at-done", "the upgraded connection finished Ok but its last bytes are not on the wire".to_owned());
        } else {
            // an aborted upgrade may have written a proper prefix of the marker
            for k in (1..UPGRADE_MARKER.len()).rev() {
                if wire_bytes.ends_with(&UPGRADE_MARKER[..k]) {
                    wire_bytes = &wire_bytes[..wire_bytes.len() - k];
                    break;
                }
            }
        }
    }
    // ---- oracle 1: every accepted byte belongs to exactly one response, in request order
    let parsed = match parse_responses(wire_bytes) {
        Ok(p) => p,
        Err(e) => return res.fail("bytes-garbled", e),
    };
    let finals: Vec<&ParsedResp> = parsed.iter().filter(|p| p.status != 100).collect();
    // responses that carry a scripted body are those of handlers that responded, in order;
    // error responses (4xx/5xx generated by the dispatcher) have empty bodies
    let mut it = log.responded.iter();
    for (k, p) in finals.iter().enumerate() {
        let last = k + 1 == finals.len();
        if !p.complete && !last {
            return res.fail("bytes-garbled", format!("response {} truncated but followed by more bytes", k));
        }
        if p.status == 200 {
            let Some(&rid) = it.next() else {
                return res.fail("bytes-duplicated", format!("more 200 responses on the wire than handlers responded ({})", log.responded.len()));
            };
            let want: Vec<u8> = {
                let pulled = log.pulled.iter().find(|e| e.0 == rid).map(|e| e.1).unwrap_or(0);
                (0..pulled).map(|i| body_byte(rid, i)).collect()
            };
            if !want.starts_with(&p.body) {
                return res.fail("bytes-out-of-order", format!("response to request {} carries bytes that are not the next produced bytes", rid));
            }
            if p.complete && p.body.len() != want.len() && !matches!(case.reqs[rid].resp, RespKind::None) {
                return res.fail("bytes-lost", format!("response to request {} complete on the wire with {} of {} produced body bytes", rid, p.body.len(), want.len()));
            }
        } else if p.status != 0 && !p.body.is_empty() {
            return res.fail("bytes-garbled", format!("status {} with a body", p.status));
        }
    }
    // ---- oracle 2a: a connection that ends by itself (Ok, or with the stream error of a
    // malformed request) has written every response it generated completely, in particular the
    // 4xx it answers the malformed request with
    let parse_err = matches!(&r.outcome, Outcome::DoneErr(k) if k == "parse");
    if matches!(r.outcome, Outcome::DoneOk) || parse_err {
        for (k, p) in finals.iter().enumerate() {
            if p.status != 200 && !p.complete {
                return res.fail("unflushed-at-done", format!("connection finished but generated response {} (status {}) is truncated on the wire", k, p.status));
            }
        }
        if parse_err {
            match finals.last() {
                Some(p) if (400..500).contains(&p.status) && p.complete => {}
                _ => {
                    return res.fail(
                        "unflushed-at-done",
                        format!("connection finished with a request parse error but the 4xx response is not on the wire ({} bytes accepted, {} responses)", wire_bytes.len(), finals.len()),
                    )
                }
            }
            let n200 = finals.iter().filter(|p| p.status == 200).count();
            if n200 != log.responded.len() {
                return res.fail("unflushed-at-done", format!("{} handlers responded, {} response heads on the wire when the parse error was returned", log.responded.len(), n200));
            }
        }
    }
    // ---- oracle 2: completion ⇒ everything that was produced has been flushed
    match &r.outcome {
        Outcome::DoneOk => {
            // what was produced = the head of every response a handler returned + every body
            // chunk the dispatcher pulled (+ the terminator if it pulled the end)
            let n200 = finals.iter().filter(|p| p.status == 200).count();
            if n200 != log.responded.len() {
                return res.fail("unflushed-at-done", format!("{} handlers responded, {} response heads on the wire at Ok", log.responded.len(), n200));
            }
            for e in &log.pulled {
                let rid = e.0;
                let idx = log.responded.iter().position(|r| *r == rid).unwrap();
                let p = finals.iter().filter(|p| p.status == 200).nth(idx).unwrap();
                if p.status == 0 {
                    return res.fail("unflushed-at-done", format!("request {}: response head truncated on the wire at Ok", rid));
                }
                if matches!(case.reqs[rid].resp, RespKind::None) {
                    continue;
                }
                if p.body.len() != e.1 {
                    return res.fail("unflushed-at-done", format!("request {}: {} body bytes produced, {} on the wire at Ok", rid, e.1, p.body.len()));
                }
                if e.2 && !p.complete {
                    return res.fail("unflushed-at-done", format!("request {}: body end produced but the response is not terminated on the wire at Ok", rid));
                }
            }
        }
        // ---- oracle 3: no stall while work is possible / termination
        Outcome::Stalled => {
            let sig = if log.consumed.iter().any(|e| e.4) { "stall-after-payload-drop" } else { "stall" };
            return res.fail(
                sig,
                format!(
                    "connection task Pending, not woken, no external event left, 20 s of virtual time passed; wire {}/{} read, eof_seen={}, waiters=[{}], responded={:?}",
                    log.wire_read, r.wire_len, log.read_eof_seen, r.leftover_waiters, log.responded
                ),
            );
        }
        Outcome::Spin => {
            return res.fail("livelock", format!("more than 20000 polls; waiters=[{}]", r.leftover_waiters));
        }
        Outcome::Idle => {
            if let Some(what) = &r.probe {
                let sig = if log.consumed.iter().any(|e| e.4) { "lost-wakeup-after-payload-drop" } else { "lost-wakeup" };
                return res.fail(
                    sig,
                    format!(
                        "connection task went to sleep (waiting only for a silent peer) although a spurious poll makes progress: {}; wire {}/{} read, responded={:?}",
                        what, log.wire_read, r.wire_len, log.responded
                    ),
                );
            }
        }
        Outcome::DoneErr(_) | Outcome::ProbeStop => {}
    }
    // ---- oracle 4 (metamorphic): the write/flush/shutdown schedule must not change the bytes
    if !case.wops.is_empty() || !case.fops.is_empty() || !case.sops.is_empty() {
        if matches!(r.outcome, Outcome::DoneOk) && meta_class(&case) {
            let mut benign = case.clone();
            benign.wops.clear();
            benign.fops.clear();
            benign.sops.clear();
            if let Some(r2) = run_case(&benign) {
                let (a1, a2) = (mask_dates(&log.accepted), mask_dates(&r2.log.accepted));
                if matches!(r2.outcome, Outcome::DoneOk) && a1 != a2 {
                    let at = a2.iter().zip(&a1).position(|(a, b)| a != b).unwrap_or(a2.len().min(a1.len()));
                    return res.fail(
                        "bytes-differ-from-benign-socket",
                        format!("accepted {} bytes, reference run with an always-ready socket {} bytes; first difference at {}", log.accepted.len(), r2.log.accepted.len(), at),
                    );
                }
            }
        }
    }
    res
}

#[allow(dead_code)]
/// the response at wire position k belongs to a body that raised an error (then truncation is expected)
fn body_errored(case: &Case, log: &Log, k: usize, finals: &[&ParsedResp]) -> bool {
    let idx200 = finals[..=k].iter().filter(|p| p.status == 200).count();
    if finals[k].status != 200 || idx200 == 0 {
        return false;
    }
    let Some(&rid) = log.responded.get(idx200 - 1) else { return false };
    match &case.reqs[rid].resp {
        RespKind::Sized(st) | RespKind::Stream(st) => st.contains(&BStep::Err),
        _ => false,
    }
}

/// class in which the accepted bytes are a function of the inputs alone (not of the write
/// schedule): at most 12 requests (a full pipeline queue stops decoding, and what is still
/// undecoded when the peer half-closes is dropped), no request bodies (the close-for-unread-payload decision depends on timing), half
/// close allowed, no reset / silence / write-zero, no timers, no body errors
fn meta_class(c: &Case) -> bool {
    c.cfg.half_closed
        && c.reqs.len() <= 12
        && c.cfg.ka.is_none()
        && c.cfg.disc == 0
        && c.cfg.head == 0
        && c.reqs.iter().all(|q| {
            matches!(q.body, ReqBody::None)
                && match &q.resp {
                    RespKind::Sized(st) | RespKind::Stream(st) => !st.contains(&BStep::Err),
                    _ => true,
                }
        })
        && !c.rops.iter().any(|o| matches!(o, ROp::Reset | ROp::Silent))
        && !c.wops.iter().any(|o| matches!(o, WOp::Zero))
}

// ---------------------------------------------------------------------------------------------
// generator

fn gen_bsteps(rng: &mut Rng, big: bool) -> String {
    let n = rng.range(1, 5);
    let mut v: Vec<String> = Vec::new();
    for _ in 0..n {
        for _ in 0..rng.below(3) {
            v.push(if rng.chance(1, 2) { "p".into() } else { "q".into() });
        }
        let sz = if big && rng.chance(1, 3) { rng.range(2000, 40000) } else { rng.range(1, 300) };
        v.push(sz.to_string());
    }
    for _ in 0..rng.below(2) {
        v.push(if rng.chance(1, 2) { "p".into() } else { "q".into() });
    }
    v.join(".")
}

fn gen_req(rng: &mut Rng, i: usize, bodies: bool, big: bool) -> (String, usize) {
    let body = if !bodies || rng.chance(1, 2) {
        ReqBody::None
    } else if rng.chance(1, 2) {
        ReqBody::Sized(if big && rng.chance(1, 2) { rng.range(30000, 70000) } else { rng.range(1, 3000) })
    } else {
        let n = rng.below(4);
        ReqBody::Chunked((0..n).map(|_| if big && rng.chance(1, 3) { rng.range(20000, 50000) } else { rng.range(1, 2000) }).collect())
    };
    let min = min_head_len(i, &body);
    let hl = min + if rng.chance(1, 6) { rng.range(500, 3000) } else { rng.below(40) };
    let bs = match &body {
        ReqBody::None => "n".to_owned(),
        ReqBody::Sized(n) => format!("s{}", n),
        ReqBody::Chunked(v) => format!("c{}", v.iter().map(|n| n.to_string()).collect::<Vec<_>>().join(".")),
        _ => unreachable!(),
    };
    let mut hs = String::new();
    let has_body = !matches!(body, ReqBody::None);
    for _ in 0..rng.below(4) {
        let c = match rng.below(if has_body { 8 } else { 2 }) {
            0 => 'p',
            1 => 'q',
            2 | 3 => 'r',
            4 | 5 => 'a',
            6 => 'd',
            _ => 'p',
        };
        hs.push(c);
    }
    if hs.is_empty() {
        hs.push('-');
    }
    let resp = match rng.below(8) {
        0 => "N".to_owned(),
        1 => "Z".to_owned(),
        2..=4 => format!("S{}", gen_bsteps(rng, big)),
        _ => format!("C{}", gen_bsteps(rng, big)),
    };
    let wire_len = hl
        + match &body {
            ReqBody::None => 0,
            ReqBody::Sized(n) => *n,
            ReqBody::Chunked(v) => v.iter().map(|n| hexlen(*n) + 2 + n + 2).sum::<usize>() + 5,
            _ => unreachable!(),
        };
    (format!("Q:{}:{}:{}:{}", hl, bs, hs, resp), wire_len)
}

fn gen_case(rng: &mut Rng, flavour: usize) -> String {
    let mut t: Vec<String> = Vec::new();
    let bodies = flavour >= 1;
    let big = flavour == 2;
    let timed = flavour == 3;
    if timed {
        t.push(format!("ka={}", rng.pick(&["os", "5", "off", "5"])));
        if rng.chance(1, 2) {
            t.push("D=1".into());
        }
        if rng.chance(1, 2) {
            t.push("T=3".into());
        }
    } else if rng.chance(1, 5) {
        t.push("ka=off".into());
    }
    if rng.chance(1, 3) {
        t.push(format!("wbs={}", rng.pick(&[1usize, 64, 200, 1000, 5000])));
    }
    if rng.chance(1, 4) {
        t.push(format!("q={}", rng.pick(&[1usize, 7, 100, 1000])));
    }
    if rng.chance(1, 6) {
        t.push("hc=0".into());
    }
    let nreq = if rng.chance(1, 10) { rng.range(4, 20) } else { rng.range(1, 3) };
    let mut wire_total = 0;
    for i in 0..nreq {
        let (q, wl) = gen_req(rng, i, bodies || timed, big);
        wire_total += wl;
        t.push(q);
    }
    // read script: cut the wire into segments with barriers in between, then EOF / reset / silence
    let mut left = wire_total;
    let mut ops: Vec<String> = Vec::new();
    let cuts = rng.below(6);
    for _ in 0..cuts {
        if left == 0 {
            break;
        }
        let k = if rng.chance(1, 3) { rng.range(1, left.min(30)) } else { rng.range(1, left) };
        ops.push(format!("R{}", k));
        left -= k;
        for _ in 0..rng.range(1, 2) {
            ops.push("RP".into());
        }
    }
    if left > 0 && !rng.chance(1, 12) {
        ops.push(format!("R{}", left));
    }
    for _ in 0..rng.below(3) {
        ops.push("RP".into());
    }
    match rng.below(if timed { 6 } else { 14 }) {
        0 => ops.push("RX".into()),
        1 | 2 if timed => ops.push("RZ".into()),
        _ => ops.push("RE".into()),
    }
    t.extend(ops);
    // write script
    for _ in 0..rng.below(10) {
        t.push(match rng.below(10) {
            0..=2 => "WP".into(),
            3 if rng.chance(1, 10) => "W0".into(),
            _ => format!("W{}", if rng.chance(1, 2) { rng.range(1, 40) } else { rng.range(1, 3000) }),
        });
    }
    for _ in 0..rng.below(4) {
        t.push(if rng.chance(2, 3) { "FP".into() } else { "FK".into() });
    }
    for _ in 0..rng.below(3) {
        t.push("SP".into());
    }
    // event order
    let n = rng.below(14);
    if n > 0 {
        let letters = if bodies { "rrrwwfshhbb" } else { "rrrwwfshhbb" };
        let s: String = (0..n).map(|_| letters.as_bytes()[rng.below(letters.len())] as char).collect();
        t.push(format!("E:{}", s));
    }
    t.join(" ")
}

/// back-pressure flavour: one large request body (the 32 KiB payload pause and the 128 KiB read
/// cap are reached), a handler that waits / reads a little / drops / moves the payload, optionally
/// a pipelined follow-up request, a peer that goes on sending, half-closes, or goes silent
fn gen_backpressure(rng: &mut Rng) -> String {
    let mut t: Vec<String> = Vec::new();
    if rng.chance(1, 2) {
        t.push("ka=5".into());
    }
    if rng.chance(1, 4) {
        t.push("D=1".into());
    }
    if rng.chance(1, 5) {
        t.push(format!("q={}", rng.pick(&[100usize, 1000, 1024])));
    }
    let total = *rng.pick(&[34000usize, 40000, 70000, 140000, 170000, 270000, 330000]);
    let body = if rng.chance(3, 4) {
        // chunked: 1..4 chunks summing to `total`
        let n = rng.range(1, 4);
        let mut left = total;
        let mut cs = Vec::new();
        for i in 0..n {
            let c = if i + 1 == n { left } else { rng.range(1, left.saturating_sub(n - i).max(1)) };
            if c == 0 {
                break;
            }
            cs.push(c);
            left -= c;
            if left == 0 {
                break;
            }
        }
        ReqBody::Chunked(cs)
    } else {
        ReqBody::Sized(total)
    };
    let bs = match &body {
        ReqBody::Sized(n) => format!("s{}", n),
        ReqBody::Chunked(v) => format!("c{}", v.iter().map(|n| n.to_string()).collect::<Vec<_>>().join(".")),
        ReqBody::None => "n".into(),
        _ => unreachable!(),
    };
    let hs = *rng.pick(&["q", "qd", "qdq", "pd", "qr", "qrd", "qrq", "qa", "dq", "qq", "qrrd", "pqd", "qm", "mq", "qmq", "a", "d", "-"]);
    let cs = if hs.contains('m') { *rng.pick(&["d", "rd", "rrd", "r", "", "rrrrd", "rrrrrrrr", "rrrrrrrrrrrrrrrrd"]) } else { "" };
    let resp = match rng.below(5) {
        0 => "Z".to_owned(),
        1 => "N".to_owned(),
        2 => format!("C{}", gen_bsteps(rng, false)),
        _ => format!("S{}", gen_bsteps(rng, false)),
    };
    let hl = min_head_len(0, &body) + rng.below(30);
    let mut q = format!("Q:{}:{}:{}:{}", hl, bs, hs, resp);
    if !cs.is_empty() || hs.contains('m') {
        q.push(':');
        q.push_str(cs);
    }
    t.push(q);
    let mut wire = hl
        + match &body {
            ReqBody::Sized(n) => *n,
            ReqBody::Chunked(v) => v.iter().map(|n| hexlen(*n) + 2 + n + 2).sum::<usize>() + 5,
            ReqBody::None => 0,
            _ => unreachable!(),
        };
    if rng.chance(1, 3) {
        let (q2, wl) = gen_req(rng, 1, false, false);
        t.push(q2);
        wire += wl;
    }
    // read script
    let mut left = wire;
    for _ in 0..rng.below(4) {
        if left == 0 {
            break;
        }
        let k = rng.range(1, left);
        t.push(format!("R{}", k));
        left -= k;
        t.push("RP".into());
    }
    if left > 0 && !rng.chance(1, 10) {
        t.push(format!("R{}", left));
    }
    match rng.below(6) {
        0 | 1 => t.push("RZ".into()),
        2 => {
            t.push("RP".into());
            t.push("RE".into())
        }
        _ => {}
    }
    for _ in 0..rng.below(4) {
        t.push(match rng.below(4) {
            0 => "WP".into(),
            1 => "FP".into(),
            _ => format!("W{}", rng.range(1, 200)),
        });
    }
    let n = rng.below(8);
    if n > 0 {
        let letters = if hs.contains('m') { "rrhccccccb" } else { "rrrhhhbw" };
        let e: String = (0..n).map(|_| letters.as_bytes()[rng.below(letters.len())] as char).collect();
        t.push(format!("E:{}", e));
    }
    t.join(" ")
}

/// hand-over flavour: the handler polls the request body itself (one chunk with `r`, or to
/// Pending with `t`) and then moves the payload to a consumer *task of its own* (`A`: polled only
/// when its own waker fired) and joins it (`w`); the rest of the body arrives after the hand-over.
/// The payload channel has to wake the task that polled it last.
fn gen_handover(rng: &mut Rng) -> String {
    let mut t: Vec<String> = Vec::new();
    if rng.chance(1, 3) {
        t.push("ka=5".into());
    }
    if rng.chance(1, 5) {
        t.push(format!("q={}", rng.pick(&[7usize, 100, 1000])));
    }
    let total = *rng.pick(&[600usize, 3000, 9000, 40000, 70000]);
    let body = if rng.chance(1, 2) {
        ReqBody::Sized(total)
    } else {
        let a = rng.range(1, total - 1);
        ReqBody::Chunked(if rng.chance(1, 2) { vec![a, total - a] } else { vec![total] })
    };
    let bs = match &body {
        ReqBody::Sized(n) => format!("s{}", n),
        ReqBody::Chunked(v) => format!("c{}", v.iter().map(|n| n.to_string()).collect::<Vec<_>>().join(".")),
        ReqBody::None => "n".into(),
        _ => unreachable!(),
    };
    let hs = *rng.pick(&["rmw", "tmw", "rrmw", "trmw", "mw", "prmw", "rmqw", "tmwq", "rtmw", "qrmw", "rmw", "tmw"]);
    let cs = *rng.pick(&["A", "A", "Ad", "rA", "A"]);
    let resp = match rng.below(4) {
        0 => "Z".to_owned(),
        1 => format!("C{}", gen_bsteps(rng, false)),
        _ => format!("S{}", gen_bsteps(rng, false)),
    };
    let hl = min_head_len(0, &body) + rng.below(30);
    t.push(format!("Q:{}:{}:{}:{}:{}", hl, bs, hs, resp, cs));
    let mut wire = hl
        + match &body {
            ReqBody::Sized(n) => *n,
            ReqBody::Chunked(v) => v.iter().map(|n| hexlen(*n) + 2 + n + 2).sum::<usize>() + 5,
            ReqBody::None => 0,
            _ => unreachable!(),
        };
    if rng.chance(1, 4) {
        let (q2, wl) = gen_req(rng, 1, false, false);
        t.push(q2);
        wire += wl;
    }
    // the head and a first piece of the body, then the rest in pieces, each behind a barrier
    let first = hl + rng.range(0, (total / 2).max(1));
    let mut left = wire;
    let k = first.min(left);
    t.push(format!("R{}", k));
    left -= k;
    t.push("RP".into());
    for _ in 0..rng.range(1, 3) {
        if left == 0 {
            break;
        }
        let k = rng.range(1, left);
        t.push(format!("R{}", k));
        left -= k;
        t.push("RP".into());
    }
    if rng.chance(1, 12) {
        t.push("RX".into());
    } else if rng.chance(1, 8) {
        t.push("RZ".into());
    }
    for _ in 0..rng.below(3) {
        t.push(match rng.below(3) {
            0 => "WP".into(),
            1 => "FP".into(),
            _ => format!("W{}", rng.range(1, 200)),
        });
    }
    let n = rng.below(6);
    if n > 0 {
        let letters = "rrrhcb";
        let e: String = (0..n).map(|_| letters.as_bytes()[rng.below(letters.len())] as char).collect();
        t.push(format!("E:{}", e));
    }
    t.join(" ")
}

/// pipeline flavour: 17..40 tiny requests; the first handler usually waits so that the queue
/// fills to MAX_PIPELINED_MESSAGES, the remaining requests arrive in a later read while the queue
/// is full (they stay undecoded in read_buf), then all handlers are Ready at first poll (or
/// Pending once) and the peer only waits / half-closes
fn gen_pipeline(rng: &mut Rng) -> String {
    let mut t: Vec<String> = Vec::new();
    if rng.chance(1, 3) {
        t.push("ka=5".into());
    }
    if rng.chance(1, 6) {
        t.push("hc=0".into());
    }
    let n = rng.range(17, 40);
    let mut lens = Vec::new();
    for i in 0..n {
        let hl = min_head_len(i, &ReqBody::None) + rng.below(8);
        let hs = if i == 0 {
            *rng.pick(&["q", "q", "q", "q", "qq", "qp", "-", "p"])
        } else if rng.chance(1, 60) {
            // rarely: a handler that is Pending once re-enters `poll_request` from `poll_response`
            "p"
        } else {
            "-"
        };
        let resp = *rng.pick(&["Z", "Z", "N", "S3", "C2"]);
        t.push(format!("Q:{}:n:{}:{}", hl, hs, resp));
        lens.push(hl);
    }
    let total: usize = lens.iter().sum();
    if rng.chance(1, 4) {
        // everything in one read (the decode loop overshoots the limit: all requests are queued)
    } else {
        let lo = if rng.chance(1, 5) { 16 } else { 17 };
        let k = rng.range(lo, 20).min(n - 1);
        let first: usize = lens[..k].iter().sum();
        t.push(format!("R{}", first));
        t.push("RP".into());
        if rng.chance(1, 4) {
            let k2 = rng.range(k, n - 1);
            let second: usize = lens[k..k2].iter().sum();
            if second > 0 {
                t.push(format!("R{}", second));
                t.push("RP".into());
            }
        }
    }
    // the rest of the wire, then: silent peer / half-close after a pause / half-close at once /
    // (nothing: EOF when the script is exhausted)
    t.push(format!("R{}", total));
    match rng.below(5) {
        0 | 1 => t.push("RZ".into()),
        2 => {
            t.push("RP".into());
            t.push("RE".into())
        }
        3 => t.push("RE".into()),
        _ => {}
    }
    for _ in 0..rng.below(3) {
        t.push(match rng.below(3) {
            0 => "WP".into(),
            1 => "FP".into(),
            _ => format!("W{}", rng.range(1, 300)),
        });
    }
    let n_ev = rng.below(5);
    if n_ev > 0 {
        let letters = "rrhhw";
        let mut e: String = (0..n_ev).map(|_| letters.as_bytes()[rng.below(letters.len())] as char).collect();
        if rng.chance(2, 3) {
            e = format!("rh{}", e);
        }
        t.push(format!("E:{}", e));
    }
    t.join(" ")
}

/// write back-pressure script: barriers and small partial writes, flush barriers
fn gen_backpressure_writes(rng: &mut Rng, t: &mut Vec<String>) {
    for _ in 0..rng.range(1, 6) {
        t.push(match rng.below(5) {
            0 | 1 => "WP".into(),
            2 => "FP".into(),
            _ => format!("W{}", if rng.chance(1, 2) { rng.range(1, 40) } else { rng.range(1, 400) }),
        });
    }
}

/// error-path flavour: 0–2 ordinary requests, then something that is not a request (400) or a
/// head that outgrows the read buffer (431), on a socket that does not take the whole error
/// response at once: the stream error may only end the connection after everything is written
fn gen_errpath(rng: &mut Rng) -> String {
    let mut t: Vec<String> = Vec::new();
    if rng.chance(1, 4) {
        t.push("ka=5".into());
    }
    if rng.chance(1, 4) {
        t.push("D=1".into());
    }
    if rng.chance(1, 5) {
        t.push("hc=0".into());
    }
    if rng.chance(1, 4) {
        t.push(format!("wbs={}", rng.pick(&[1usize, 64, 1000])));
    }
    let n = rng.below(3);
    let mut wire = 0;
    for i in 0..n {
        let (q, wl) = gen_req(rng, i, false, false);
        t.push(q);
        wire += wl;
    }
    if rng.chance(1, 8) {
        let hl = rng.range(131_100, 140_000);
        t.push(format!("Q:{}:n:-:Z", hl));
        wire += hl;
    } else {
        let hl = rng.range(1, 60);
        t.push(format!("Q:{}:x:-:Z", hl));
        wire += hl;
    }
    let mut left = wire;
    for _ in 0..rng.below(3) {
        if left == 0 {
            break;
        }
        let k = rng.range(1, left);
        t.push(format!("R{}", k));
        left -= k;
        t.push("RP".into());
    }
    t.push(format!("R{}", wire));
    match rng.below(4) {
        0 => t.push("RZ".into()),
        1 => {
            t.push("RP".into());
            t.push("RE".into())
        }
        _ => {}
    }
    gen_backpressure_writes(rng, &mut t);
    for _ in 0..rng.below(3) {
        t.push("SP".into());
    }
    let n_ev = rng.below(6);
    if n_ev > 0 {
        let letters = "rrwwfhb";
        let e: String = (0..n_ev).map(|_| letters.as_bytes()[rng.below(letters.len())] as char).collect();
        t.push(format!("E:{}", e));
    }
    t.join(" ")
}

/// upgrade flavour: an upgrade request behind 0–2 ordinary requests under write back-pressure:
/// the response bytes still buffered when the socket changes hands travel with it
fn gen_upgrade(rng: &mut Rng) -> String {
    let mut t: Vec<String> = Vec::new();
    if rng.chance(1, 4) {
        t.push(format!("wbs={}", rng.pick(&[1usize, 64, 1000])));
    }
    if rng.chance(1, 5) {
        t.push("ka=5".into());
    }
    let n = rng.below(3);
    let mut wire = 0;
    for i in 0..n {
        let (q, wl) = gen_req(rng, i, false, false);
        t.push(q);
        wire += wl;
    }
    let hl = min_head_len(n, &ReqBody::Upgrade) + rng.below(20);
    t.push(format!("Q:{}:u:-:Z", hl));
    wire += hl;
    // nothing is sent behind the upgrade request: those bytes would belong to the upgraded
    // protocol (the codec is in read-to-EOF mode from here on)
    let mut left = wire;
    for _ in 0..rng.below(3) {
        if left == 0 {
            break;
        }
        let k = rng.range(1, left);
        t.push(format!("R{}", k));
        left -= k;
        t.push("RP".into());
    }
    t.push(format!("R{}", wire));
    if rng.chance(1, 3) {
        t.push("RZ".into());
    }
    gen_backpressure_writes(rng, &mut t);
    let n_ev = rng.below(6);
    if n_ev > 0 {
        let letters = "rrwwfhb";
        let e: String = (0..n_ev).map(|_| letters.as_bytes()[rng.below(letters.len())] as char).collect();
        t.push(format!("E:{}", e));
    }
    t.join(" ")
}

fn gen(ctx: &Ctx) -> Vec<String> {
    match std::panic::catch_unwind(std::panic::AssertUnwindSafe(|| gen_inner(ctx))) {
        Ok(v) => v,
        Err(e) => {
            let msg = e.downcast_ref::<String>().cloned().or_else(|| e.downcast_ref::<&str>().map(|s| s.to_string())).unwrap_or_default();
            eprintln!("c04 generator panicked: {}", msg);
            std::process::exit(3);
        }
    }
}

fn gen_inner(ctx: &Ctx) -> Vec<String> {
    let mut rng = Rng::new(ctx.seed);
    let mut cases = Vec::new();
    let n = ctx.budget(2000);
    for i in 0..n {
        let flavour = match i % 10 {
            0..=1 => 0,
            2 => 5,
            3..=5 => 1,
            6 => 2,
            7 => 3,
            _ => 4,
        };
        let dbg_state = rng.0;
        let _ = dbg_state;
        cases.push(match flavour {
            _ if i % 20 == 13 => gen_pipeline(&mut rng),
            _ if i % 20 == 3 || i % 40 == 25 => gen_errpath(&mut rng),
            _ if i % 20 == 8 || i % 40 == 15 => gen_upgrade(&mut rng),
            4 => gen_backpressure(&mut rng),
            5 => gen_handover(&mut rng),
            _ => gen_case(&mut rng, flavour),
        });
    }
    let _ = Tier::Quick;
    cases
}

pub fn prop() -> Prop {
    Prop { rule: RULE, parallel: true, gen: Box::new(gen), run: Box::new(run) }
}
