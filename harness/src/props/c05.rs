//! C05 — HTTP/1 per-connection memory is bounded by configuration, not by the peer.
//!
//! Black-box accounting at a scripted socket and a recording service.  One case = a connection
//! configuration, an input stream described by sized items, and a script of stimuli; after every
//! stimulus the connection future is polled until three consecutive polls leave the observable
//! tuple unchanged ("settled"), and a snapshot `T:C:D:P:A` is appended to the output:
//!
//!   T bytes taken from the socket          C service calls            D payload bytes handed to handlers
//!   P body chunks pulled from responses    A bytes accepted by the socket
//!
//! The Lean model (`Model/DispBoundsSim.lean`) replays the same script and must print the same
//! line.  The oracle below does not use the model: it compares read-ahead / write-ahead computed
//! from the generator's ground truth (item sizes) and from the bytes the socket actually received
//! against fixed bounds that are functions of the source constants and the configuration only.
//!
//! Token grammar (space separated; deleting a token keeps a case well-formed):
//!   wbs=N   h1_write_buffer_size (default 32768)        seg=N  max bytes per poll_read (default 1024, 0 = fill everything offered)
//!   wseg=N  max bytes per poll_write (default: no cap)  hc=0|1 h1_allow_half_closed (default 1)
//!   +[K*]gH            K GET requests, head padded to H bytes
//!   +[K*]m             K minimal requests `A / HTTP/1.1\n\n` (14 bytes, bare LF)
//!   +[K*]lH:N          K POST requests, head H bytes, content-length N followed by N body bytes
//!   +[K*]kH:CxM        K chunked POST requests, head H bytes, M chunks of C bytes, then the last-chunk
//!   +KH:CxM            chunked POST that never terminates (M chunks, no last-chunk)
//!   +jN                N bytes of a request head that never ends (endless header line)
//!   +b                 five bytes that are not a request
//!   sN / S   make N more / all input bytes readable        e   read side EOF once drained
//!   cN / C   allow the handler to take N more / any number of payload chunks
//!   r<spec>  the running (or next) handler answers with <spec>      R<spec>  every later handler answers at once with <spec>
//!            spec = e (empty, Sized(0)) | n (BodySize::None) | sCxM (stream, M chunks of C bytes) | zCxM (sized) ; suffix k = keep the request payload alive
//!   wN / W   the socket accepts N more / any number of bytes        p   just poll again
use std::{
    cell::RefCell,
    collections::VecDeque,
    convert::Infallible,
    future::Future,
    io,
    pin::Pin,
    rc::Rc,
    task::{Context, Poll},
    time::Duration,
};

use actix_http::{
    body::{BodySize, MessageBody},
    HttpService, KeepAlive, Request, Response, StatusCode,
};
use actix_service::{fn_service, Service as _, ServiceFactory as _};
use bytes::Bytes;
use futures_core::Stream as _;
use tokio::io::{AsyncRead, AsyncWrite, ReadBuf};

use super::Prop;
use crate::common::{block_on_system, CaseResult, Ctx, Rng, Tier};

// ---- constants the oracle's bounds are made of: re-read on every run from the file
// ---- `tools/gen_consts.py` extracts from the source (lean/ActixModel/Consts.lean), so that model,
// ---- theorems and oracle always speak about the constants the code has now; the literals are
// ---- the pinned commit's values, used only if that file cannot be read
struct K {
    max_buffer: usize, // h1/decoder.rs MAX_BUFFER_SIZE
    lw: usize,         // h1/dispatcher.rs LW_BUFFER_SIZE
    hw: usize,         // h1/dispatcher.rs HW_BUFFER_SIZE
    payload_max: usize, // h1/payload.rs MAX_BUFFER_SIZE
    max_pipelined: usize, // h1/dispatcher.rs MAX_PIPELINED_MESSAGES
}

fn consts_from_source() -> &'static K {
    static CELL: std::sync::OnceLock<K> = std::sync::OnceLock::new();
    CELL.get_or_init(|| {
        let path = concat!(env!("CARGO_MANIFEST_DIR"), "/../lean/ActixModel/Consts.lean");
        let txt = std::fs::read_to_string(path).unwrap_or_default();
        let get = |name: &str, dflt: usize| -> usize {
            let pat = format!("def {} : Nat := ", name);
            txt.find(&pat)
                .and_then(|p| txt[p + pat.len()..].split_whitespace().next().and_then(|v| v.parse().ok()))
                .unwrap_or(dflt)
        };
        K {
            max_buffer: get("h1MaxBufferSize", 131_072),
            lw: get("h1LwBufferSize", 1024),
            hw: get("h1HwBufferSize", 8192),
            payload_max: get("payloadMaxBufferSize", 32_768),
            max_pipelined: get("h1MaxPipelined", 16),
        }
    })
}
const INF: u64 = u64::MAX / 4;

const RULE: &str = "cases = (write-buffer size, read segment size, input stream of sized requests, script of stimuli: \
make bytes readable / EOF / handler payload credits / handler answers / socket write budget); after each stimulus the \
real connection future is polled until settled and (taken, calls, delivered, pulled, accepted) is recorded; families: \
stalled handler with huge length/chunked bodies, handler reading one chunk per step, 10k tiny pipelined requests with a \
handler that never completes, endless header line and over-long heads (431), socket that never accepts writes with \
stream/sized bodies around h1_write_buffer_size, bodyless pipelined floods, random mixes; non-trivial = at least one \
request reached the service or a 431/400 was produced; distinct = distinct (case, output) hashes";

// ------------------------------------------------------------------------------------------
// case description
// ------------------------------------------------------------------------------------------

#[derive(Clone, Debug, PartialEq)]
enum Item {
    Get { h: usize },
    /// the shortest request httparse accepts: `A / HTTP/1.1\n\n` (14 bytes)
    Min,
    Len { h: usize, n: usize },
    Chunked { h: usize, c: usize, m: usize, term: bool },
    Junk { n: usize },
    Bad,
}

#[derive(Clone, Debug, PartialEq)]
enum BodyKind {
    Empty,
    NoBody,
    Stream,
    Sized,
}

#[derive(Clone, Debug, PartialEq)]
struct Spec {
    kind: BodyKind,
    c: usize,
    m: usize,
    keep: bool,
}

#[derive(Clone, Debug)]
enum Step {
    Avail(usize),
    AvailAll,
    Eof,
    Credit(u64),
    CreditAll,
    Respond(Spec),
    Auto(Spec),
    Budget(u64),
    BudgetAll,
    Poll,
}

#[derive(Clone, Debug)]
struct Case {
    wbs: usize,
    seg: usize,
    wseg: usize,
    hc: bool,
    items: Vec<Item>,
    steps: Vec<Step>,
}

fn parse_cxm(s: &str) -> Option<(usize, usize)> {
    let (c, m) = s.split_once('x')?;
    Some((c.parse().ok()?, m.parse().ok()?))
}

fn parse_spec(s: &str) -> Option<Spec> {
    let (s, keep) = match s.strip_suffix('k') {
        Some(r) => (r, true),
        None => (s, false),
    };
    let (kind, rest) = s.split_at(s.len().min(1));
    match kind {
        "e" if rest.is_empty() => Some(Spec { kind: BodyKind::Empty, c: 0, m: 0, keep }),
        "n" if rest.is_empty() => Some(Spec { kind: BodyKind::NoBody, c: 0, m: 0, keep }),
        "s" | "z" => {
            let (c, m) = parse_cxm(rest)?;
            if c == 0 || m == 0 {
                return None;
            }
            Some(Spec { kind: if kind == "s" { BodyKind::Stream } else { BodyKind::Sized }, c, m, keep })
        }
        _ => None,
    }
}

fn parse_item(s: &str, out: &mut Vec<Item>) -> Option<()> {
    let (rep, s) = match s.split_once('*') {
        Some((k, r)) => (k.parse::<usize>().ok()?, r),
        None => (1, s),
    };
    if rep > 200_000 {
        return None;
    }
    let (k, rest) = s.split_at(s.len().min(1));
    let it = match k {
        "g" => Item::Get { h: rest.parse().ok()? },
        "m" if rest.is_empty() => Item::Min,
        "l" => {
            let (h, n) = rest.split_once(':')?;
            Item::Len { h: h.parse().ok()?, n: n.parse().ok()? }
        }
        "k" | "K" => {
            let (h, cm) = rest.split_once(':')?;
            let (c, m) = parse_cxm(cm)?;
            Item::Chunked { h: h.parse().ok()?, c, m, term: k == "k" }
        }
        "j" => Item::Junk { n: rest.parse().ok()? },
        "b" if rest.is_empty() => Item::Bad,
        _ => return None,
    };
    for _ in 0..rep {
        out.push(it.clone());
    }
    Some(())
}

fn parse_case(line: &str) -> Option<Case> {
    let mut c = Case { wbs: 32_768, seg: 1024, wseg: 0, hc: true, items: vec![], steps: vec![] };
    for w in line.split_ascii_whitespace() {
        if let Some(v) = w.strip_prefix("wbs=") {
            c.wbs = v.parse().ok()?;
            if c.wbs == 0 {
                return None;
            }
        } else if let Some(v) = w.strip_prefix("seg=") {
            c.seg = v.parse().ok()?;
        } else if let Some(v) = w.strip_prefix("wseg=") {
            c.wseg = v.parse().ok()?;
        } else if let Some(v) = w.strip_prefix("hc=") {
            c.hc = v != "0";
        } else if let Some(v) = w.strip_prefix('+') {
            parse_item(v, &mut c.items)?;
        } else {
            let (k, rest) = w.split_at(1);
            let st = match k {
                "s" => Step::Avail(rest.parse().ok()?),
                "S" if rest.is_empty() => Step::AvailAll,
                "e" if rest.is_empty() => Step::Eof,
                "c" => Step::Credit(rest.parse().ok()?),
                "C" if rest.is_empty() => Step::CreditAll,
                "r" => Step::Respond(parse_spec(rest)?),
                "R" => Step::Auto(parse_spec(rest)?),
                "w" => Step::Budget(rest.parse().ok()?),
                "W" if rest.is_empty() => Step::BudgetAll,
                "p" if rest.is_empty() => Step::Poll,
                _ => return None,
            };
            c.steps.push(st);
        }
    }
    // an unparsable item (endless head, non-request) may only be the last one
    if let Some(k) = c.items.iter().position(|i| matches!(i, Item::Junk { .. } | Item::Bad)) {
        if k + 1 != c.items.len() {
            return None;
        }
    }
    Some(c)
}

// ------------------------------------------------------------------------------------------
// input stream (generator ground truth: where every request and every payload byte lies)
// ------------------------------------------------------------------------------------------

const GET_BASE: usize = 18; // "GET / HTTP/1.1\r\n\r\n"

fn digits(n: usize) -> usize {
    n.to_string().len()
}
fn len_base(n: usize) -> usize {
    // "POST / HTTP/1.1\r\ncontent-length: N\r\n\r\n"
    17 + 16 + digits(n) + 2 + 2
}
const CHUNKED_BASE: usize = 17 + 28 + 2; // "POST / HTTP/1.1\r\ntransfer-encoding: chunked\r\n\r\n"

fn hexlen(n: usize) -> usize {
    format!("{:x}", n).len()
}

/// Layout of one request in the stream.
#[derive(Clone, Debug)]
struct Lay {
    start: usize,
    head: usize,
    end: usize,
    /// payload layout: None, Length n, Chunked(c, m)
    body: Body,
    /// cannot be parsed (junk / bad): never reaches the service
    unparsable: bool,
}

#[derive(Clone, Debug, PartialEq)]
enum Body {
    None,
    Len(usize),
    Chunked(usize, usize),
}

impl Lay {
    /// wire offset (absolute) just after the `d`-th payload byte of this request
    fn wire_after_payload(&self, d: usize) -> usize {
        let b0 = self.start + self.head;
        match self.body {
            Body::None => b0,
            Body::Len(n) => b0 + d.min(n),
            Body::Chunked(c, m) => {
                if d == 0 {
                    return b0;
                }
                let per = hexlen(c) + 2 + c + 2;
                let full = (d / c).min(m);
                let part = if full < m { d % c } else { 0 };
                // the CRLF after a complete chunk is not payload; count it as not yet consumed
                b0 + full * per - if full > 0 && part == 0 { 2 } else { 0 }
                    + if part > 0 { hexlen(c) + 2 + part } else { 0 }
            }
        }
    }
    /// number of payload bytes of this request lying in wire range [from, to)
    fn payload_between(&self, from: usize, to: usize) -> usize {
        let cnt = |x: usize| -> usize {
            // payload bytes strictly before wire offset x
            let b0 = self.start + self.head;
            if x <= b0 {
                return 0;
            }
            let r = x - b0;
            match self.body {
                Body::None => 0,
                Body::Len(n) => r.min(n),
                Body::Chunked(c, m) => {
                    let per = hexlen(c) + 2 + c + 2;
                    let full = (r / per).min(m);
                    let rem = if full < m { r - full * per } else { 0 };
                    full * c + rem.saturating_sub(hexlen(c) + 2).min(c)
                }
            }
        };
        cnt(to).saturating_sub(cnt(from))
    }
}

/// `<method> /<path pad> HTTP/1.1\r\n[x: <pad>\r\n]<headers>\r\n` with exactly `pad` padding bytes:
/// up to 4 in the path, more in a header value (`http::Uri` refuses paths beyond 65 534 bytes)
fn push_head(buf: &mut Vec<u8>, method: &str, pad: usize, headers: &str) {
    buf.extend_from_slice(method.as_bytes());
    buf.extend_from_slice(b" /");
    if pad < 5 {
        buf.extend(std::iter::repeat(b'a').take(pad));
    }
    buf.extend_from_slice(b" HTTP/1.1\r\n");
    if pad >= 5 {
        buf.extend_from_slice(b"x: ");
        buf.extend(std::iter::repeat(b'a').take(pad - 5));
        buf.extend_from_slice(b"\r\n");
    }
    buf.extend_from_slice(headers.as_bytes());
    buf.extend_from_slice(b"\r\n");
}

fn build_input(items: &[Item]) -> Option<(Vec<u8>, Vec<Lay>)> {
    let mut buf: Vec<u8> = Vec::new();
    let mut lays = Vec::new();
    for it in items {
        let start = buf.len();
        match *it {
            Item::Get { h } => {
                if h < GET_BASE {
                    return None;
                }
                push_head(&mut buf, "GET", h - GET_BASE, "");
                debug_assert_eq!(buf.len() - start, h);
                lays.push(Lay { start, head: h, end: buf.len(), body: Body::None, unparsable: false });
            }
            Item::Min => {
                buf.extend_from_slice(b"A / HTTP/1.1\n\n");
                lays.push(Lay { start, head: 14, end: buf.len(), body: Body::None, unparsable: false });
            }
            Item::Len { h, n } => {
                if h < len_base(n) || n == 0 {
                    return None;
                }
                push_head(&mut buf, "POST", h - len_base(n), &format!("content-length: {}\r\n", n));
                debug_assert_eq!(buf.len() - start, h);
                buf.extend(std::iter::repeat(b'd').take(n));
                lays.push(Lay { start, head: h, end: buf.len(), body: Body::Len(n), unparsable: false });
            }
            Item::Chunked { h, c, m, term } => {
                if h < CHUNKED_BASE || c == 0 || m == 0 {
                    return None;
                }
                push_head(&mut buf, "POST", h - CHUNKED_BASE, "transfer-encoding: chunked\r\n");
                debug_assert_eq!(buf.len() - start, h);
                for _ in 0..m {
                    buf.extend_from_slice(format!("{:x}\r\n", c).as_bytes());
                    buf.extend(std::iter::repeat(b'd').take(c));
                    buf.extend_from_slice(b"\r\n");
                }
                if term {
                    buf.extend_from_slice(b"0\r\n\r\n");
                }
                lays.push(Lay { start, head: h, end: buf.len(), body: Body::Chunked(c, m), unparsable: false });
            }
            Item::Junk { n } => {
                let pre = b"GET / HTTP/1.1\r\nx: ";
                if n < pre.len() {
                    return None;
                }
                buf.extend_from_slice(pre);
                buf.extend(std::iter::repeat(b'a').take(n - pre.len()));
                lays.push(Lay { start, head: n, end: buf.len(), body: Body::None, unparsable: true });
            }
            Item::Bad => {
                buf.extend_from_slice(b"\x01\x02\r\n\r\n");
                lays.push(Lay { start, head: 6, end: buf.len(), body: Body::None, unparsable: true });
            }
        }
        if buf.len() > 64 << 20 {
            return None;
        }
    }
    Some((buf, lays))
}

// ------------------------------------------------------------------------------------------
// shared recording state, scripted socket, scripted service
// ------------------------------------------------------------------------------------------

#[derive(Default)]
struct RespRec {
    /// chunks pulled from this response's body so far
    pulled: usize,
    chunk: usize,
    stream: bool,
    ended: bool,
}

/// one sample of the write side, taken whenever something is appended or accepted
#[derive(Clone, Copy)]
struct OutSample {
    completions: usize,
    pulled_last: usize,
    ended_last: bool,
    accepted: usize,
    /// taken just before a body chunk is pulled: the buffer must then be below the limit
    before_pull: bool,
}

struct Shared {
    // socket, read side
    input: Vec<u8>,
    avail: usize,
    pos: usize,
    seg: usize,
    eof: bool,
    max_offered: usize,
    min_offered: usize,
    // socket, write side
    wbudget: u64,
    wseg: usize,
    accepted: usize,
    out: Vec<u8>,
    shutdown: bool,
    // service
    lays: Rc<Vec<Lay>>,
    calls: usize,
    credits: u64,
    delivered: u64,
    delivered_req: Vec<usize>,
    payload_gone: Vec<bool>,
    resp_queue: VecDeque<Spec>,
    auto: Option<Spec>,
    kept: Vec<actix_http::Payload>,
    resps: Vec<RespRec>,
    pulled_total: usize,
    // oracle accounting
    hwm_body_ahead: usize,
    hwm_pipe_ahead: usize,
    out_samples: Vec<OutSample>,
}

impl Shared {
    /// (payload bytes of the in-service request read ahead of its handler, bytes taken beyond the
    /// end of the last request handed to the service) — generator ground truth only
    fn read_ahead(&self) -> (usize, usize) {
        let t = self.pos;
        if self.calls == 0 {
            return (0, t);
        }
        let i = self.calls - 1;
        let Some(l) = self.lays.get(i) else { return (0, 0) };
        let body = if self.payload_gone[i] {
            0
        } else {
            let from = l.wire_after_payload(self.delivered_req[i]);
            l.payload_between(from, t.min(l.end))
        };
        (body, t.saturating_sub(l.end))
    }
    fn note_in(&mut self) {
        let (b, p) = self.read_ahead();
        self.hwm_body_ahead = self.hwm_body_ahead.max(b);
        self.hwm_pipe_ahead = self.hwm_pipe_ahead.max(p);
    }
    fn note_out(&mut self) {
        self.note_out2(false)
    }
    fn note_out2(&mut self, before_pull: bool) {
        let (pl, el) = self.resps.last().map(|r| (r.pulled, r.ended)).unwrap_or((0, false));
        let s = OutSample { completions: self.resps.len(), pulled_last: pl, ended_last: el, accepted: self.accepted, before_pull };
        if let Some(last) = self.out_samples.last() {
            if !before_pull
                && last.completions == s.completions
                && last.pulled_last == s.pulled_last
                && last.ended_last == s.ended_last
                && last.accepted == s.accepted
            {
                return;
            }
        }
        if self.out_samples.len() < 400_000 {
            self.out_samples.push(s);
        }
    }
}

type Sh = Rc<RefCell<Shared>>;

struct Sock(Sh);

impl AsyncRead for Sock {
    fn poll_read(self: Pin<&mut Self>, _cx: &mut Context<'_>, buf: &mut ReadBuf<'_>) -> Poll<io::Result<()>> {
        let mut s = self.0.borrow_mut();
        let offered = buf.remaining();
        s.max_offered = s.max_offered.max(offered);
        s.min_offered = s.min_offered.min(offered);
        let have = s.avail - s.pos;
        if have == 0 {
            return if s.eof { Poll::Ready(Ok(())) } else { Poll::Pending };
        }
        let mut n = have.min(offered);
        if s.seg > 0 {
            n = n.min(s.seg);
        }
        let p = s.pos;
        buf.put_slice(&s.input[p..p + n]);
        s.pos += n;
        s.note_in();
        Poll::Ready(Ok(()))
    }
}

impl AsyncWrite for Sock {
    fn poll_write(self: Pin<&mut Self>, _cx: &mut Context<'_>, data: &[u8]) -> Poll<io::Result<usize>> {
        let mut s = self.0.borrow_mut();
        s.note_out();
        if s.wbudget == 0 || data.is_empty() {
            return if data.is_empty() { Poll::Ready(Ok(0)) } else { Poll::Pending };
        }
        let mut n = (data.len() as u64).min(s.wbudget) as usize;
        if s.wseg > 0 {
            n = n.min(s.wseg);
        }
        if s.wbudget < INF {
            s.wbudget -= n as u64;
        }
        s.accepted += n;
        if s.out.len() < (96 << 20) {
            s.out.extend_from_slice(&data[..n]);
        }
        s.note_out();
        Poll::Ready(Ok(n))
    }
    fn poll_flush(self: Pin<&mut Self>, _cx: &mut Context<'_>) -> Poll<io::Result<()>> {
        Poll::Ready(Ok(()))
    }
    fn poll_shutdown(self: Pin<&mut Self>, _cx: &mut Context<'_>) -> Poll<io::Result<()>> {
        self.0.borrow_mut().shutdown = true;
        Poll::Ready(Ok(()))
    }
}

struct ScriptBody {
    sh: Sh,
    idx: usize,
    kind: BodyKind,
    c: usize,
    left: usize,
}

impl MessageBody for ScriptBody {
    type Error = Infallible;
    fn size(&self) -> BodySize {
        match self.kind {
            BodyKind::Empty => BodySize::Sized(0),
            BodyKind::NoBody => BodySize::None,
            BodyKind::Stream => BodySize::Stream,
            BodyKind::Sized => BodySize::Sized((self.c * self.left) as u64),
        }
    }
    fn poll_next(self: Pin<&mut Self>, _cx: &mut Context<'_>) -> Poll<Option<Result<Bytes, Infallible>>> {
        let this = self.get_mut();
        let mut s = this.sh.borrow_mut();
        if this.left > 0 {
            this.left -= 1;
            if this.idx + 1 == s.resps.len() {
                s.note_out2(true);
            }
            s.resps[this.idx].pulled += 1;
            s.pulled_total += 1;
            s.note_out();
            Poll::Ready(Some(Ok(Bytes::from(vec![b'x'; this.c]))))
        } else {
            s.resps[this.idx].ended = true;
            s.note_out();
            Poll::Ready(None)
        }
    }
}

struct HandlerFut {
    sh: Sh,
    idx: usize,
    payload: Option<actix_http::Payload>,
    _req: Request,
    pl_done: bool,
}

impl Future for HandlerFut {
    type Output = Result<Response<ScriptBody>, actix_http::Error>;
    fn poll(self: Pin<&mut Self>, cx: &mut Context<'_>) -> Poll<Self::Output> {
        let this = self.get_mut();
        loop {
            if this.pl_done || this.sh.borrow().credits == 0 {
                break;
            }
            let r = Pin::new(this.payload.as_mut().unwrap()).poll_next(cx);
            let mut s = this.sh.borrow_mut();
            match r {
                Poll::Ready(Some(Ok(b))) => {
                    if s.credits < INF {
                        s.credits -= 1;
                    }
                    s.delivered += b.len() as u64;
                    if let Some(d) = s.delivered_req.get_mut(this.idx) {
                        *d += b.len();
                    }
                }
                Poll::Ready(Some(Err(_))) | Poll::Ready(None) => this.pl_done = true,
                Poll::Pending => break,
            }
        }
        let spec = {
            let mut s = this.sh.borrow_mut();
            match s.resp_queue.pop_front() {
                Some(x) => Some(x),
                None => s.auto.clone(),
            }
        };
        let Some(spec) = spec else { return Poll::Pending };
        let mut s = this.sh.borrow_mut();
        let pl = this.payload.take().unwrap();
        if spec.keep {
            s.kept.push(pl);
        } else if let Some(g) = s.payload_gone.get_mut(this.idx) {
            *g = true;
        }
        let ridx = s.resps.len();
        s.resps.push(RespRec { pulled: 0, chunk: spec.c, stream: spec.kind == BodyKind::Stream, ended: false });
        s.note_out();
        let body = ScriptBody { sh: this.sh.clone(), idx: ridx, kind: spec.kind.clone(), c: spec.c, left: spec.m };
        let status = if spec.kind == BodyKind::NoBody { StatusCode::NO_CONTENT } else { StatusCode::OK };
        Poll::Ready(Ok(Response::new(status).set_body(body)))
    }
}

// ------------------------------------------------------------------------------------------
// running one case against the real code
// ------------------------------------------------------------------------------------------

#[derive(Clone, PartialEq, Debug)]
struct Obs {
    t: usize,
    c: usize,
    d: u64,
    p: usize,
    a: usize,
    done: Option<String>,
}

fn obs(sh: &Sh, done: &Option<String>) -> Obs {
    let s = sh.borrow();
    Obs { t: s.pos, c: s.calls, d: s.delivered, p: s.pulled_total, a: s.accepted, done: done.clone() }
}

const SETTLE: usize = 3;
const MAX_POLLS: usize = 200_000;

struct Outcome {
    snaps: Vec<Obs>,
    done: Option<String>,
    nosettle: bool,
    statuses: Vec<u16>,
    head_lens: Vec<usize>,
    /// some response head carried `connection: close`
    close_seen: bool,
    parsed_all: bool,
    sh: Sh,
}

/// parse the bytes the socket accepted: status codes and head lengths of complete heads
fn parse_out(out: &[u8]) -> (Vec<u16>, Vec<usize>, bool) {
    let mut i = 0;
    let mut st = Vec::new();
    let mut hl = Vec::new();
    let find = |from: usize, pat: &[u8]| -> Option<usize> {
        out[from..].windows(pat.len()).position(|w| w == pat).map(|p| p + from)
    };
    while i < out.len() {
        if !out[i..].starts_with(b"HTTP/1.1 ") {
            return (st, hl, false);
        }
        let Some(e) = find(i, b"\r\n\r\n") else { return (st, hl, false) };
        let head = &out[i..e + 4];
        let code = std::str::from_utf8(&head[9..12]).ok().and_then(|s| s.parse::<u16>().ok()).unwrap_or(0);
        st.push(code);
        hl.push(head.len());
        let hs = String::from_utf8_lossy(head).to_ascii_lowercase();
        i = e + 4;
        if hs.contains("transfer-encoding: chunked") {
            loop {
                let Some(le) = find(i, b"\r\n") else { return (st, hl, false) };
                let n = usize::from_str_radix(std::str::from_utf8(&out[i..le]).unwrap_or("z"), 16);
                let Ok(n) = n else { return (st, hl, false) };
                i = le + 2;
                if n == 0 {
                    if out.len() < i + 2 {
                        return (st, hl, false);
                    }
                    i += 2;
                    break;
                }
                if out.len() < i + n + 2 {
                    return (st, hl, false);
                }
                i += n + 2;
            }
        } else if let Some(p) = hs.find("content-length: ") {
            let v: String = hs[p + 16..].chars().take_while(|c| c.is_ascii_digit()).collect();
            let n: usize = v.parse().unwrap_or(0);
            if out.len() < i + n {
                return (st, hl, false);
            }
            i += n;
        }
    }
    (st, hl, true)
}

fn drive(case: &Case) -> Option<Outcome> {
    let (input, lays) = build_input(&case.items)?;
    let nreq = lays.len();
    let sh: Sh = Rc::new(RefCell::new(Shared {
        input,
        avail: 0,
        pos: 0,
        seg: case.seg,
        eof: false,
        max_offered: 0,
        min_offered: usize::MAX,
        wbudget: 0,
        wseg: case.wseg,
        accepted: 0,
        out: Vec::new(),
        shutdown: false,
        lays: Rc::new(lays),
        calls: 0,
        credits: 0,
        delivered: 0,
        delivered_req: vec![0; nreq],
        payload_gone: vec![false; nreq],
        resp_queue: VecDeque::new(),
        auto: None,
        kept: Vec::new(),
        resps: Vec::new(),
        pulled_total: 0,
        hwm_body_ahead: 0,
        hwm_pipe_ahead: 0,
        out_samples: Vec::new(),
    }));
    let sh2 = sh.clone();
    let case2 = case.clone();
    let (snaps, done, nosettle) = block_on_system(async move {
        let sh = sh2;
        let case = case2;
        let sh_svc = sh.clone();
        let factory = HttpService::build()
            .keep_alive(KeepAlive::Timeout(Duration::from_secs(86_400)))
            .client_request_timeout(Duration::ZERO)
            .client_disconnect_timeout(Duration::ZERO)
            .h1_allow_half_closed(case.hc)
            .h1_write_buffer_size(case.wbs)
            .h1(fn_service(move |mut req: Request| {
                let idx = {
                    let mut s = sh_svc.borrow_mut();
                    s.calls += 1;
                    s.calls - 1
                };
                let payload = req.take_payload();
                HandlerFut { sh: sh_svc.clone(), idx, payload: Some(payload), _req: req, pl_done: false }
            }));
        let svc = factory.new_service(()).await.ok().expect("service");
        let mut fut = Box::pin(svc.call((Sock(sh.clone()), None)));
        let mut done: Option<String> = None;
        let mut snaps = Vec::new();
        let mut nosettle = false;
        // a `Poll` step first so that the start-up poll is part of every script
        let mut steps = vec![Step::Poll];
        steps.extend(case.steps.iter().cloned());
        for st in steps {
            {
                let mut s = sh.borrow_mut();
                match st {
                    Step::Avail(n) => s.avail = (s.avail + n).min(s.input.len()),
                    Step::AvailAll => s.avail = s.input.len(),
                    Step::Eof => s.eof = true,
                    Step::Credit(n) => s.credits = (s.credits + n).min(INF),
                    Step::CreditAll => s.credits = INF,
                    Step::Respond(sp) => s.resp_queue.push_back(sp),
                    Step::Auto(sp) => s.auto = Some(sp),
                    Step::Budget(n) => s.wbudget = (s.wbudget + n).min(INF),
                    Step::BudgetAll => s.wbudget = INF,
                    Step::Poll => {}
                }
            }
            let mut same = 0;
            let mut polls = 0;
            let mut last = obs(&sh, &done);
            while done.is_none() && same < SETTLE {
                let r = std::future::poll_fn(|cx| Poll::Ready(fut.as_mut().poll(cx))).await;
                if let Poll::Ready(r) = r {
                    done = Some(match r {
                        Ok(()) => "ok".to_owned(),
                        Err(e) => format!("err:{}", err_kind(&e)),
                    });
                }
                let now = obs(&sh, &done);
                if now == last {
                    same += 1;
                } else {
                    same = 0;
                    last = now;
                }
                polls += 1;
                if polls >= MAX_POLLS {
                    nosettle = true;
                    break;
                }
            }
            snaps.push(obs(&sh, &done));
        }
        // handlers may have stashed payloads: drop them inside the system
        sh.borrow_mut().kept.clear();
        drop(fut);
        (snaps, done, nosettle)
    });
    let (statuses, head_lens, parsed_all) = parse_out(&sh.borrow().out);
    let close_seen = {
        let s = sh.borrow();
        s.out.windows(17).any(|w| w.eq_ignore_ascii_case(b"connection: close"))
    };
    Some(Outcome { snaps, done, nosettle, statuses, head_lens, close_seen, parsed_all, sh })
}

fn err_kind(e: &actix_http::error::DispatchError) -> &'static str {
    use actix_http::error::DispatchError as D;
    match e {
        D::Service(_) => "service",
        D::Body(_) => "body",
        D::Upgrade => "upgrade",
        D::Io(_) => "io",
        D::Parse(p) => match p {
            actix_http::error::ParseError::TooLarge => "toolarge",
            _ => "parse",
        },
        D::H2(_) => "h2",
        D::SlowRequestTimeout => "slow",
        D::DisconnectTimeout => "disconnect",
        D::HandlerDroppedPayload => "dropped",
        D::InternalError => "internal",
        _ => "other",
    }
}

// ------------------------------------------------------------------------------------------
// oracle: the property's own words, evaluated on what the socket and the service saw
// ------------------------------------------------------------------------------------------

fn enc_chunk(stream: bool, c: usize) -> usize {
    if stream {
        format!("{:X}", c).len() + 2 + c + 2
    } else {
        c
    }
}

fn oracle(case: &Case, o: &Outcome) -> Option<(String, String)> {
    let k = consts_from_source();
    let (k_maxbuf, k_lw, k_hw, k_pmax, k_pipe) = (k.max_buffer, k.lw, k.hw, k.payload_max, k.max_pipelined);
    // a bound must be a bound: the constants themselves are capped (16 MiB / 4096 messages)
    if k_maxbuf > (16 << 20) || k_pmax > (16 << 20) || k_pipe > 4096 {
        return Some(("constant-is-no-bound".into(), format!("MAX_BUFFER_SIZE {} payload {} pipelined {}", k_maxbuf, k_pmax, k_pipe)));
    }
    let s = o.sh.borrow();
    // the largest amount one poll_read could append: the scripted segment, or — greedy socket —
    // whatever BytesMut offered
    let max_read = if case.seg > 0 { case.seg.min(s.max_offered.max(1)) } else { s.max_offered };
    let rmax = k_maxbuf - 1 + max_read;
    if s.min_offered != usize::MAX && s.min_offered < k_lw {
        return Some(("read-offer-below-lw".into(), format!("poll_read was offered {} < {}", s.min_offered, k_lw)));
    }
    // BytesMut's growth policy (double, or len + HW) keeps the spare capacity offered to one read
    // below 4 * k_maxbuf + 2 * k_hw while reads stop at k_maxbuf
    if s.max_offered > 4 * k_maxbuf + 2 * k_hw {
        return Some(("read-offer-ceiling".into(), format!("poll_read was offered {} bytes", s.max_offered)));
    }
    // (1) request-body bytes read ahead of the handler: what the channel may hold when it pauses
    // (< 32 768) plus the read buffer that was decoded into it, plus one refilled read buffer
    let b_body = k_pmax - 1 + 2 * rmax;
    if s.hwm_body_ahead > b_body {
        return Some((
            "body-read-ahead".into(),
            format!("{} payload bytes taken from the socket ahead of the handler > {}", s.hwm_body_ahead, b_body),
        ));
    }
    // (2) unparsed input + queued pipelined requests beyond the request in service:
    // one full read buffer unparsed, one full read buffer decoded by the poll_request call that
    // found fewer than MAX_PIPELINED_MESSAGES queued, and the k_pipe-1 queued before it
    let max_req = s
        .lays
        .iter()
        .map(|l| l.head + match l.body {
            Body::None => 0,
            Body::Len(n) => n.min(k_pmax - 1 + rmax),
            Body::Chunked(..) => (l.end - l.start - l.head).min(6 * (k_pmax - 1 + rmax)),
        })
        .max()
        .unwrap_or(0);
    let b_pipe = 2 * rmax + (k_pipe - 1) * max_req.min(2 * rmax + k_pmax);
    if s.hwm_pipe_ahead > b_pipe {
        return Some((
            "pipelined-read-ahead".into(),
            format!("{} bytes taken beyond the request in service > {}", s.hwm_pipe_ahead, b_pipe),
        ));
    }
    // (3) a head that does not fit is refused with 431 and nothing more is read
    if let Some((k, l)) = s.lays.iter().enumerate().find(|(_, l)| l.unparsable || l.head > rmax) {
        let all_before_done = s.calls >= k && s.resps.len() >= k;
        let offered_enough = s.avail >= l.start + l.head.min(rmax + 1) && l.head >= k_maxbuf;
        let is_junk_or_big = case.items.get(k).map(|i| !matches!(i, Item::Bad)).unwrap_or(false);
        // the connection may legitimately end before the head is read: peer EOF in the script, or an
        // earlier response that announced `connection: close` (unread request payload)
        let has_eof = case.steps.iter().any(|st| matches!(st, Step::Eof));
        // … or the bytes were never a head to the decoder: after an unterminated chunked body they
        // are (malformed) chunk framing and the connection is refused with 400 instead
        let refused_otherwise = o.statuses.iter().any(|c| *c == 400 || *c == 500);
        let closed_by_response = (o.close_seen && !o.statuses.contains(&431)) || refused_otherwise;
        if is_junk_or_big && all_before_done && offered_enough && s.wbudget >= INF && o.parsed_all && !has_eof && !closed_by_response {
            let prev_closed = o.statuses.len() < k; // connection was closed before reaching it
            if !prev_closed {
                if !o.statuses.contains(&431) {
                    return Some((
                        "partial-head-not-refused".into(),
                        format!("head of {} bytes never completes, {} bytes taken, statuses {:?}", l.head, s.pos, o.statuses),
                    ));
                }
                if s.pos > l.start + rmax {
                    return Some((
                        "read-after-refusal".into(),
                        format!("{} bytes of an unparsable head taken > {}", s.pos - l.start, rmax),
                    ));
                }
            }
        }
    }
    // (3b) after the refusal nothing else is answered
    if let Some(p) = o.statuses.iter().position(|c| *c == 431) {
        if p + 1 != o.statuses.len() {
            return Some(("response-after-431".into(), format!("statuses {}", rle(&o.statuses))));
        }
    }
    // (4) response bytes buffered ahead of the socket
    let head_max = o.head_lens.iter().copied().max().unwrap_or(0);
    let enc_max = s.resps.iter().map(|r| enc_chunk(r.stream, r.chunk)).max().unwrap_or(0);
    let b_out = case.wbs - 1 + enc_max.max(5 + head_max) + head_max;
    let mut worst = 0usize;
    let mut worst_at = 0usize;
    // produced bytes of responses < k (complete ones), computed from what was pulled
    let mut prefix = vec![0usize; s.resps.len() + 1];
    for (k, r) in s.resps.iter().enumerate() {
        let h = o.head_lens.get(k).copied().unwrap_or(0);
        let full = h + r.pulled * enc_chunk(r.stream, r.chunk) + if r.ended && r.stream { 5 } else { 0 };
        prefix[k + 1] = prefix[k] + full;
    }
    for sm in s.out_samples.iter() {
        if sm.completions == 0 {
            continue;
        }
        let k = sm.completions - 1;
        let r = &s.resps[k];
        let h = o.head_lens.get(k).copied().unwrap_or(0);
        let produced = prefix[k]
            + h
            + sm.pulled_last * enc_chunk(r.stream, r.chunk)
            + if sm.ended_last && r.stream { 5 } else { 0 };
        let held = produced.saturating_sub(sm.accepted);
        // the mechanism itself: a chunk is pulled only while fewer than `wbs` bytes are buffered
        // (exact when the heads are known; an unknown head counts 0, which only under-counts)
        if sm.before_pull && held >= case.wbs {
            return Some((
                "chunk-pulled-over-limit".into(),
                format!("a body chunk was pulled while {} >= h1_write_buffer_size {} bytes were buffered", held, case.wbs),
            ));
        }
        if held > worst {
            worst = held;
            worst_at = sm.completions;
        }
    }
    if worst > b_out {
        // which kind of response piled up? bodyless ones are appended without any size test
        let bodyless = s.resps.iter().take(worst_at).filter(|r| r.chunk == 0).count();
        let sig = if bodyless >= 2 { "writebuf-bodyless-pipelined" } else { "writebuf" };
        return Some((
            sig.into(),
            format!(
                "{} response bytes buffered ahead of the socket > wbs {} - 1 + max(chunk {}, 5 + head {}) + head = {} ({} responses started, {} bodyless)",
                worst, case.wbs, enc_max, head_max, b_out, worst_at, bodyless
            ),
        ));
    }
    None
}

/// run-length encoded status list: `200x3,431`
fn rle(st: &[u16]) -> String {
    if st.is_empty() {
        return "-".to_owned();
    }
    let mut parts: Vec<String> = Vec::new();
    let mut i = 0;
    while i < st.len() {
        let mut j = i;
        while j < st.len() && st[j] == st[i] {
            j += 1;
        }
        parts.push(if j - i > 1 { format!("{}x{}", st[i], j - i) } else { st[i].to_string() });
        i = j;
    }
    parts.join(",")
}

fn run(line: &str) -> CaseResult {
    let Some(case) = parse_case(line) else {
        return CaseResult { output: "bad-case".into(), fail: None, nontrivial: false, tags: vec!["bad-case".into()] };
    };
    let Some(o) = drive(&case) else {
        return CaseResult { output: "bad-case".into(), fail: None, nontrivial: false, tags: vec!["bad-case".into()] };
    };
    let mut out = String::new();
    if case.seg == 0 {
        // a socket that fills whatever BytesMut offers: how much that is depends on the allocator
        // (capacity doubling), which the model does not describe; oracle only
        let mut res = CaseResult::ok("greedy".into());
        res.tags.push("greedy".into());
        res.nontrivial = o.sh.borrow().calls > 0;
        if let Some((sig, d)) = oracle(&case, &o) {
            res = res.fail(&sig, d);
        }
        return res;
    }
    for sn in &o.snaps {
        out.push_str(&format!("{}:{}:{}:{}:{} ", sn.t, sn.c, sn.d, sn.p, sn.a));
    }
    out.push_str(&format!(
        "done={} sd={} st={}",
        o.done.clone().unwrap_or_else(|| "-".into()),
        if o.sh.borrow().shutdown { 1 } else { 0 },
        rle(&o.statuses)
    ));
    if o.nosettle {
        out.push_str(" NOSETTLE");
    }
    if std::env::var("C05_DEBUG").is_ok() {
        let s = o.sh.borrow();
        eprintln!("case {} :: max_offered={} min_offered={} hwm_body={} hwm_pipe={}", line, s.max_offered, s.min_offered, s.hwm_body_ahead, s.hwm_pipe_ahead);
    }
    let mut res = CaseResult::ok(out);
    {
        let s = o.sh.borrow();
        let k = consts_from_source();
        let (k_pmax, k_maxbuf) = (k.payload_max, k.max_buffer);
        res.nontrivial = s.calls > 0 || o.statuses.iter().any(|c| *c == 431 || *c == 400);
        if s.calls > 1 {
            res.tags.push("pipelined".into());
        }
        if o.statuses.contains(&431) {
            res.tags.push("431".into());
        }
        if o.statuses.contains(&400) {
            res.tags.push("400".into());
        }
        if s.hwm_body_ahead >= k_pmax {
            res.tags.push("payload-paused".into());
        }
        if s.hwm_pipe_ahead >= k_maxbuf {
            res.tags.push("readbuf-full".into());
        }
        if s.pulled_total > 0 {
            res.tags.push("body-pulled".into());
        }
        if s.accepted < s.out.len().max(s.accepted) || s.wbudget == 0 {
            res.tags.push("write-stalled".into());
        }
        if o.done.is_some() {
            res.tags.push(format!("done-{}", o.done.as_deref().unwrap_or("-").split(':').next().unwrap()));
        }
        if case.seg == 0 {
            res.tags.push("greedy".into());
        }
    }
    if o.nosettle {
        res = res.fail("no-settle", format!("connection did not settle within {} polls", MAX_POLLS));
    }
    if let Some((sig, d)) = oracle(&case, &o) {
        res = res.fail(&sig, d);
    }
    res
}

// ------------------------------------------------------------------------------------------
// generator
// ------------------------------------------------------------------------------------------

fn gen(ctx: &Ctx) -> Vec<String> {
    let k = consts_from_source();
    let (k_pmax, k_pipe) = (k.payload_max, k.max_pipelined);
    let mut rng = Rng::new(ctx.seed);
    let mut cases: Vec<String> = Vec::new();
    // --- stalled handler, huge bodies
    for _ in 0..ctx.budget(6) {
        let seg = *rng.pick(&[1024usize, 1000, 512, 777]);
        let n = rng.range(200_000, 700_000);
        let h = len_base(n) + rng.below(260);
        cases.push(format!("seg={} +l{}:{} S p c1 c3 C re W", seg, h, n));
        let c = *rng.pick(&[1usize, 7, 100, 1000, 4096, 70_000]);
        let m = (rng.range(300_000, 600_000) / (c + 8)).max(2);
        cases.push(format!("seg={} +k{}:{}x{} S c1 c2 c50 C re W", seg, CHUNKED_BASE + rng.below(50), c, m));
    }
    // --- pipelined tiny requests, handler never completes, then released
    for _ in 0..ctx.budget(4) {
        let seg = *rng.pick(&[1024usize, 1000, 333]);
        let k = rng.range(9_000, 20_000);
        let h = rng.range(18, 40);
        cases.push(format!("seg={} +{}*g{} S p re W Re", seg, k, h));
    }
    // --- endless header line / over-long head
    for _ in 0..ctx.budget(4) {
        let seg = *rng.pick(&[1024usize, 1000, 1]);
        let seg = if seg == 1 { 1024 } else { seg };
        let n = rng.range(140_000, 400_000);
        let pre = rng.below(3);
        cases.push(format!("seg={} Re W +{}*g30 +j{} S", seg, pre, n));
        cases.push(format!("seg={} Re W +g{} S", seg, rng.range(131_000, 140_000)));
    }
    // --- write side: socket never accepts
    for _ in 0..ctx.budget(12) {
        let wbs = *rng.pick(&[1usize, 100, 1024, 4096, 32_768, 100_000]);
        let c = *rng.pick(&[1usize, 10, 1000, 5000, 40_000]);
        let m = rng.range(1, 60);
        let kind = if rng.chance(1, 2) { "s" } else { "z" };
        let w1 = rng.range(1, 3000);
        cases.push(format!("wbs={} +g18 +g18 S r{}{}x{} p w{} w{} re W", wbs, kind, c, m, w1, rng.range(1, 100_000)));
    }
    // --- boundaries: channel exactly at / around 32 768 on the feeding and on the consuming side
    for _ in 0..ctx.budget(6) {
        let d = rng.below(3); // -1, 0, +1
        let a = rng.range(1, 5000);
        let h = len_base(600_000) + rng.below(40);
        cases.push(format!("+l{}:600000 s{} s{} p S p C re W", h, h, k_pmax + d - 1));
        cases.push(format!("+l{}:600000 s{} s{} p s{} p c1 S p C re W", h, h, a, k_pmax + d - 1));
        let c = *rng.pick(&[1usize, 2, 16, 4096]);
        cases.push(format!("seg={} +k{}:{}x{} S c{} p c1 p C re W", rng.pick(&[1024usize, 1000]), CHUNKED_BASE, c, 400_000 / (c + 6), rng.range(1, 40)));
    }
    // --- boundaries: MAX_PIPELINED_MESSAGES - 1 / exactly / + 1 queued when the flood arrives
    for _ in 0..ctx.budget(3) {
        let h = rng.range(18, 30);
        for q in [k_pipe - 1, k_pipe, k_pipe + 1] {
            cases.push(format!("+16000*g{} s{} p s{} p S p Re W", h, h, h * q));
        }
    }
    // --- boundaries: write buffer exactly at h1_write_buffer_size after the head / after a chunk
    for _ in 0..ctx.budget(6) {
        let c = rng.range(1, 300);
        let enc = enc_chunk(true, c);
        let k = rng.range(0, 3);
        let d = rng.below(3);
        // stream head is 84 bytes; after k chunks the buffer holds 84 + k*enc
        let wbs = (84 + k * enc + d).saturating_sub(1).max(1);
        cases.push(format!("wbs={} +g18 +g18 S rs{}x{} p w1 p rz7x3 W", wbs, c, k + 3));
    }
    // --- unread payloads, EOF, half-close, garbage
    for _ in 0..ctx.budget(10) {
        let hc = rng.below(2);
        let body = match rng.below(3) {
            0 => format!("+l{}:{}", len_base(200_000) + rng.below(20), rng.range(1, 200_000)),
            1 => format!("+k{}:{}x{}", CHUNKED_BASE + rng.below(20), rng.range(1, 3000), rng.range(1, 60)),
            _ => format!("+K{}:{}x{}", CHUNKED_BASE + rng.below(20), rng.range(1, 3000), rng.range(1, 60)),
        };
        let tail = *rng.pick(&["", "+g18", "+b", "+j150000"]);
        let keep = if rng.chance(1, 3) { "k" } else { "" };
        let mid = *rng.pick(&["S", "s100 p S", "S e", "s5000 e"]);
        let resp = *rng.pick(&["re", "rn", "rs50x3", "rz10x2"]);
        cases.push(format!("hc={} {} {} {} c{} {}{} p C Re W", hc, body, tail, mid, rng.below(4), resp, keep));
    }
    // --- a transport that fills whatever it is offered (oracle only: capacity growth is not modelled)
    for _ in 0..ctx.budget(4) {
        cases.push(format!("seg=0 +{}*g{} S p re W Re", rng.range(15_000, 40_000), rng.range(18, 25)));
        cases.push(format!("seg=0 +l{}:{} S p c1 C re W", len_base(900_000), rng.range(300_000, 900_000)));
        cases.push(format!("seg=0 +j{} s{} p S W", rng.range(280_000, 600_000), rng.range(130_000, 131_072)));
    }
    // --- random mixes
    for _ in 0..ctx.budget(120) {
        let mut toks: Vec<String> = Vec::new();
        toks.push(format!("wbs={}", rng.pick(&[1usize, 64, 1000, 32_768])));
        toks.push(format!("seg={}", rng.pick(&[1024usize, 1000, 100, 17])));
        if rng.chance(1, 3) {
            toks.push(format!("wseg={}", rng.pick(&[1usize, 10, 1000])));
        }
        if rng.chance(1, 4) {
            toks.push("hc=0".into());
        }
        let nit = rng.range(1, 5);
        for _ in 0..nit {
            let rep = if rng.chance(1, 4) { rng.range(2, 40) } else { 1 };
            let pre = if rep > 1 { format!("{}*", rep) } else { String::new() };
            match rng.below(4) {
                0 => toks.push(format!("+{}g{}", pre, rng.range(18, 200))),
                1 => {
                    let n = rng.range(1, 60_000);
                    toks.push(format!("+{}l{}:{}", pre, len_base(n) + rng.below(100), n))
                }
                2 => toks.push(format!("+{}k{}:{}x{}", pre, CHUNKED_BASE + rng.below(100), rng.range(1, 5000), rng.range(1, 12))),
                _ => toks.push(format!("+{}g{}", pre, rng.range(18, 60))),
            }
        }
        if rng.chance(1, 6) {
            toks.push(rng.pick(&["+b", "+j140000", "+j50"]).to_string());
        }
        // most scripts start by making input readable
        if rng.chance(4, 5) {
            toks.push(if rng.chance(1, 2) { "S".to_owned() } else { format!("s{}", rng.range(1, 200_000)) });
        }
        let nst = rng.range(2, 14);
        for _ in 0..nst {
            let t = match rng.below(12) {
                0 => format!("s{}", rng.range(1, 50_000)),
                1 => "S".to_owned(),
                2 => format!("c{}", rng.range(1, 5)),
                3 => "C".to_owned(),
                4 => "re".to_owned(),
                5 => format!("rs{}x{}", rng.range(1, 3000), rng.range(1, 8)),
                6 => format!("rz{}x{}", rng.range(1, 3000), rng.range(1, 8)),
                7 => format!("w{}", rng.range(1, 5000)),
                8 => "W".to_owned(),
                9 => "e".to_owned(),
                10 => rng.pick(&["rek", "rn", "rs9x2k"]).to_string(),
                _ => "p".to_owned(),
            };
            toks.push(t);
        }
        if rng.chance(1, 2) {
            toks.push(rng.pick(&["Re", "Rs100x3", "Rn"]).to_string());
            toks.push("C".into());
            toks.push("W".into());
        }
        cases.push(toks.join(" "));
    }
    if ctx.tier != Tier::Quick {
        // a few larger floods
        for _ in 0..4 {
            cases.push(format!("+{}*g18 S p Re W", rng.range(30_000, 60_000)));
        }
    }
    cases
}

pub fn prop() -> Prop {
    Prop { rule: RULE, parallel: true, gen: Box::new(gen), run: Box::new(run) }
}
