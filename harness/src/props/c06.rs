//! C06 — HTTP/1 connections are time-bounded (slow head, keep-alive, shutdown, drain).
//!
//! A case is a configuration (`T=` client request timeout, `K=` keep-alive, `D=` client
//! disconnect timeout, all ms; `hc=` allow half-closed; `S=` instant of the graceful-shutdown
//! signal; `A=` instant the connection is accepted; `sd=p` transport whose `poll_shutdown` pends;
//! `h=<delay>:<body>,…` handler scripts) followed by timed events `<ms>:<what>`; see
//! `c06_rt.rs`.  The real `h1::Dispatcher` is polled under a paused tokio clock exactly when a
//! scripted event is due or its own waker fired.  Output = the observed timeline.
//!
//! The oracle below evaluates the four sentences of the property on that timeline using only
//! the script (what was sent when) and the configuration — no model.
#[path = "../c06_rt.rs"]
mod c06_rt;

use c06_rt::{parse_case, run_case, show, Case, Ev, Ka, Rec};

use super::Prop;
use crate::common::{CaseResult, Ctx, Rng};

const RULE: &str = "cases = timer configuration (each of request / keep-alive / disconnect timeout possibly disabled, \
accept instant 0..999 ms so that the 500 ms cached clock is stale by 0..499 ms) + a timed script of byte arrivals \
(complete heads, split heads, Connection: close, POST with unread body, garbage), EOF, spurious wake-ups, transport \
modes (poll_shutdown / poll_flush / poll_write pending, becoming ready at scripted instants), handler delays and body \
kinds, and the graceful-shutdown instant; arrival / wake / signal instants are placed at -501,-500,-1,0,+1 ms around \
every deadline of the script (ties included). Five structured families (slow head, keep-alive, shutdown paths, graceful, \
linger) plus a random mix. A case is non-trivial if a timer fired, the signal fired or a request was served; distinct = \
distinct (case, observed timeline) hashes";

const SKEW: u64 = 500;

// ---------------------------------------------------------------------------------------------
// oracle

struct Script {
    /// (time, token) in arrival order
    toks: Vec<(u64, char)>,
    eof: Option<u64>,
    blocks: bool,
}

fn script_of(c: &Case) -> Script {
    let mut s = Script { toks: vec![], eof: None, blocks: false };
    for (t, e) in &c.events {
        let t = (*t).max(c.accept);
        match e {
            Ev::Bytes(b) => s.toks.extend(b.chars().map(|ch| (t, ch))),
            Ev::Eof => {
                if s.eof.is_none() {
                    s.eof = Some(t)
                }
            }
            Ev::WriteBlock(true) | Ev::FlushBlock(true) => s.blocks = true,
            _ => {}
        }
    }
    s
}

pub fn well_formed(toks: &[char]) -> bool {
    let mut i = 0;
    while i < toks.len() {
        match toks[i] {
            'G' | 'C' => i += 1,
            'X' => return true,
            'a' => {
                if i + 1 == toks.len() {
                    return true;
                }
                if toks[i + 1] != 'b' {
                    return false;
                }
                i += 2;
            }
            'P' => {
                if i + 1 == toks.len() {
                    return true;
                }
                if toks[i + 1] != 'd' {
                    return false;
                }
                i += 2;
            }
            _ => return false,
        }
    }
    true
}

/// instants at which a request head became complete on the wire (time, malformed?)
fn heads(s: &Script) -> Vec<(u64, bool)> {
    let mut v = Vec::new();
    for (t, ch) in &s.toks {
        match ch {
            'G' | 'C' | 'b' | 'P' => v.push((*t, false)),
            'X' => {
                v.push((*t, true));
                break;
            }
            _ => {}
        }
    }
    v
}

fn oracle(c: &Case, recs: &[Rec]) -> (Option<(String, String)>, Vec<String>, bool) {
    let mut tags: Vec<String> = Vec::new();
    let mut fail: Option<(String, String)> = None;
    let mut set = |sig: &str, d: String| {
        if fail.is_none() {
            fail = Some((sig.to_owned(), d));
        }
    };
    let s = script_of(c);
    let hs = heads(&s);
    let done = recs.iter().find_map(|r| if let Rec::Done(t, k) = r { Some((*t, k.clone())) } else { None });
    let hang = recs.iter().any(|r| matches!(r, Rec::Hang));
    let first_shut = recs.iter().find_map(|r| if let Rec::Shut(t, _) = r { Some(*t) } else { None });
    let closing_at = |t: u64| -> bool {
        // is there evidence that the connection was being closed at instant t?
        recs.iter().any(|r| match r {
            Rec::Shut(x, _) | Rec::Done(x, _) => *x == t,
            _ => false,
        })
    };
    let first_close = recs.iter().find_map(|r| match r {
        Rec::Shut(t, _) | Rec::Done(t, _) => Some(*t),
        _ => None,
    });
    let t408: Vec<u64> = recs.iter().filter_map(|r| if let Rec::Head(t, 408, _) = r { Some(*t) } else { None }).collect();
    if recs.iter().any(|r| matches!(r, Rec::Livelock(_))) {
        set("livelock", "connection task woke itself more than 64 times at one instant".into());
    }
    if !t408.is_empty() {
        tags.push("408".into());
    }
    if let Some((_, k)) = &done {
        tags.push(format!("done:{k}"));
    }
    if hang {
        tags.push("hang".into());
    }

    // ---- sentence 1: slow head ⇒ 408 at the deadline (never before), then closed
    let sig_t = c.signal;
    if c.t_req != 0 {
        let lo = (c.accept + c.t_req).saturating_sub(SKEW);
        let hi = c.accept + c.t_req;
        let first_head = hs.first().map(|h| h.0);
        let disturbed = s.eof.map_or(false, |e| e <= hi) || sig_t.map_or(false, |x| x <= hi) || s.blocks;
        if first_head.map_or(true, |t| t > hi) && !disturbed && hi < c.horizon {
            tags.push("slow-head".into());
            match t408.first() {
                None => set("slow-head-no-408", format!("no complete head by {hi} ms and no 408")),
                Some(&t) if t < lo => set("slow-head-408-early", format!("408 at {t} < {lo}")),
                Some(&t) if t > hi => set("slow-head-408-late", format!("408 at {t} > {hi}")),
                Some(&t) => {
                    if !closing_at(t) {
                        set("slow-head-not-closed", format!("408 at {t} but no shutdown/close at that instant"));
                    }
                }
            }
        }
        if let Some(t) = first_head {
            if t < lo && !t408.is_empty() && sig_t.map_or(true, |x| x > t) {
                set("408-despite-timely-head", format!("head complete at {t} < {lo}, 408 at {}", t408[0]));
            }
        }
        if t408.len() > 1 {
            set("slow-head-408-repeated", format!("{} 408 heads written: {:?}", t408.len(), t408));
        }
    } else if !t408.is_empty() {
        set("408-with-timer-disabled", format!("408 at {}", t408[0]));
    }

    // ---- sentence 2: keep-alive
    if let Ka::Ms(k) = c.ka {
        // idle instants: a keep-alive response ended and every request delivered so far is answered
        let mut ends = 0usize;
        let mut last_head_ka = false;
        let mut any_close = false;
        for r in recs {
            match r {
                Rec::Head(_, _, close) => {
                    last_head_ka = !*close;
                    any_close |= *close;
                }
                Rec::End(te) => {
                    ends += 1;
                    let delivered = hs.iter().filter(|h| h.0 <= *te).count();
                    // bytes of a further (incomplete) request already on the wire: not idle
                    let partial = s.toks.iter().filter(|x| x.0 <= *te && x.1 == 'a').count()
                        != s.toks.iter().filter(|x| x.0 <= *te && x.1 == 'b').count()
                        || s.toks.iter().filter(|x| x.0 <= *te && x.1 == 'P').count()
                            != s.toks.iter().filter(|x| x.0 <= *te && x.1 == 'd').count();
                    if !last_head_ka || any_close || partial || delivered != ends || hs.iter().any(|h| h.1) {
                        continue;
                    }
                    // what does the peer do next?
                    let next_bytes = s.toks.iter().map(|x| x.0).find(|t| *t > *te);
                    let other = [s.eof, sig_t].iter().flatten().any(|x| *x <= *te + k) || s.blocks;
                    if other {
                        continue;
                    }
                    let lo = (*te + k).saturating_sub(SKEW);
                    let hi = *te + k;
                    match next_bytes {
                        Some(tn) if tn < lo => {
                            // arrived in time: must not have been closed before, and is served if complete
                            tags.push("ka-in-time".into());
                            if first_close.map_or(false, |t| t < tn) {
                                set("ka-closed-before-timely-request", format!("idle since {te}, request at {tn}, closed at {}", first_close.unwrap()));
                            }
                            let completes = s.toks.iter().any(|(t, ch)| *t == tn && matches!(ch, 'G' | 'C' | 'b' | 'P'));
                            if completes && !recs.iter().any(|r| matches!(r, Rec::Call(t, _) if *t == tn)) {
                                set("ka-timely-request-not-served", format!("idle since {te}, complete request at {tn} not dispatched"));
                            }
                        }
                        Some(tn) if tn <= hi => {
                            tags.push("ka-grey-zone".into());
                        }
                        _ => {
                            if hi < c.horizon {
                                tags.push("ka-expiry".into());
                                match first_close {
                                    None => set("ka-idle-not-closed", format!("idle since {te}, keep-alive {k} ms, never closed")),
                                    Some(t) if t < lo => set("ka-closed-early", format!("idle since {te}, closed at {t} < {lo}")),
                                    Some(t) if t > hi => set("ka-closed-late", format!("idle since {te}, closed at {t} > {hi}")),
                                    _ => {}
                                }
                            }
                        }
                    }
                }
                _ => {}
            }
        }
    }

    // ---- sentence 3: with a disconnect timeout, shutdown never outlasts it
    if c.d_disc != 0 {
        if let Some(ts) = first_shut {
            if ts + c.d_disc < c.horizon {
                tags.push("shutdown-timed".into());
                match &done {
                    Some((td, _)) if *td <= ts + c.d_disc => {}
                    Some((td, _)) => set("shutdown-outlasts-timeout", format!("socket shutdown began at {ts}, completed at {td} > {} ", ts + c.d_disc)),
                    None => set("shutdown-outlasts-timeout", format!("socket shutdown began at {ts}, disconnect timeout {} ms, connection still alive at {} ms", c.d_disc, c.horizon)),
                }
            }
        }
        // the final response announced `connection: close` (or was 408/400): linger (≤ D) + shutdown (≤ D)
        let last_call = recs.iter().rev().find_map(|r| if let Rec::Call(t, _) = r { Some(*t) } else { None });
        let mut last_close_end: Option<u64> = None;
        let mut cur_close = false;
        for r in recs {
            match r {
                Rec::Head(_, _, cl) => {
                    cur_close = *cl;
                    last_close_end = None;
                }
                Rec::End(t) if cur_close => last_close_end = Some(*t),
                _ => {}
            }
        }
        if let Some(tc) = last_close_end {
            let bound = tc + 2 * c.d_disc + SKEW;
            if last_call.map_or(true, |t| t <= tc) && bound < c.horizon && !s.blocks {
                tags.push("close-timed".into());
                match &done {
                    Some((td, _)) if *td <= bound => {}
                    _ => set("close-outlasts-timeout", format!("response with connection: close ended at {tc}; disconnect timeout {} ms; not closed by {bound}", c.d_disc)),
                }
            }
        }
    }

    // ---- sentence 3, "whatever the peer does": a POST whose body is still unread when its (last)
    // response is produced makes the server close; known from the script alone, so it also covers
    // a peer that stops reading (write / flush pending) and never sees the response
    if c.d_disc != 0 {
        let calls: Vec<(u64, char)> = recs.iter().filter_map(|r| if let Rec::Call(t, p) = r { Some((*t, *p)) } else { None }).collect();
        if let Some((tc, 'p')) = calls.last().copied() {
            let (delay, body) = if c.handlers.is_empty() {
                (0, c06_rt::BodyKind::Empty)
            } else {
                c.handlers[(calls.len() - 1).min(c.handlers.len() - 1)]
            };
            let t_resp = tc + delay + if let c06_rt::BodyKind::Stream(g) = body { g } else { 0 };
            let p_count = s.toks.iter().filter(|x| x.1 == 'P' && x.0 <= t_resp).count();
            let d_before = s.toks.iter().filter(|x| x.1 == 'd' && x.0 <= t_resp).count();
            // body bytes arriving in the very poll that produces the response are read first
            let tie = s.toks.iter().any(|x| x.1 == 'd' && x.0 == t_resp);
            let writes_ok_for_stream = !matches!(body, c06_rt::BodyKind::Stream(_)) || !s.blocks;
            let bound = t_resp + 2 * c.d_disc + SKEW;
            if d_before < p_count && !tie && writes_ok_for_stream && bound < c.horizon && sig_t.is_none() {
                tags.push("linger-timed".into());
                match &done {
                    Some((td, _)) if *td <= bound => {}
                    _ => set("linger-outlasts-timeout", format!("response to a POST with unread body produced at {t_resp}; disconnect timeout {} ms; not closed by {bound}", c.d_disc)),
                }
            }
        }
    }

    // ---- sentence 4: graceful shutdown
    if let Some(sg) = sig_t {
        let sg = sg.max(c.accept);
        tags.push("signal".into());
        let calls: Vec<u64> = recs.iter().filter_map(|r| if let Rec::Call(t, _) = r { Some(*t) } else { None }).collect();
        if let Some(t) = calls.iter().find(|t| **t >= sg) {
            set("graceful-started-after-signal", format!("signal at {sg}, handler called at {t}"));
        }
        let undisturbed = s.eof.is_none() && !s.blocks && !hs.iter().any(|h| h.1);
        // a response that announced `connection: close` ended before the signal: the connection
        // was already closing (lingering / shutting down) for reasons that are not the signal's
        let closing_before = {
            let mut cl = false;
            let mut res = false;
            for r in recs {
                match r {
                    Rec::Head(_, _, c2) => cl = *c2,
                    Rec::End(t) if cl && *t < sg => res = true,
                    _ => {}
                }
            }
            res
        };
        if undisturbed && !closing_before && !calls.is_empty() && first_close.map_or(true, |t| t >= sg) {
            // every started request is answered completely
            let heads: Vec<(u64, u16, bool)> =
                recs.iter().filter_map(|r| if let Rec::Head(t, st, cl) = r { Some((*t, *st, *cl)) } else { None }).collect();
            let ends = recs.iter().filter(|r| matches!(r, Rec::End(_))).count();
            let ok_heads = heads.iter().filter(|h| h.1 == 200 || h.1 == 500).count();
            if !hang || true {
                if ok_heads < calls.len() || ends < calls.len() {
                    // only a violation if the handler would have finished before the horizon
                    set("graceful-inflight-not-answered", format!("{} requests started, {} answered, {} completed", calls.len(), ok_heads, ends));
                }
            }
            for h in &heads {
                if h.0 >= sg && !h.2 {
                    set("graceful-response-without-close", format!("signal at {sg}, head at {} without connection: close", h.0));
                }
            }
            if calls.iter().any(|t| *t < sg) {
                tags.push("graceful-inflight".into());
            }
        }
        // the connection is closed once nothing is in flight
        if undisturbed && sg < c.horizon {
            let last_end = recs.iter().rev().find_map(|r| if let Rec::End(t) = r { Some(*t) } else { None });
            let idle_from = match (calls.last(), last_end) {
                (Some(_), Some(e)) => Some(e.max(sg)),
                (Some(_), None) => None,
                (None, _) => Some(sg),
            };
            if let Some(t0) = idle_from {
                // a request body still unread when its response ended: the code lingers (≤ D) first
                let unread_body = s.toks.iter().filter(|x| x.0 <= t0 && x.1 == 'P').count()
                    != s.toks.iter().filter(|x| x.0 <= t0 && x.1 == 'd').count();
                if !closing_before && !unread_body && t408.is_empty() && first_close.map_or(true, |t| t > t0) && first_close.map_or(true, |t| t >= sg) {
                    set("graceful-not-closed", format!("signal at {sg}, nothing in flight since {t0}, first close {:?}", first_close));
                }
            }
        }
    }

    let nontrivial = !t408.is_empty()
        || recs.iter().any(|r| matches!(r, Rec::Call(..)))
        || matches!(&done, Some((_, k)) if k != "ok")
        || sig_t.is_some();
    (fail, tags, nontrivial)
}

// ---------------------------------------------------------------------------------------------
// generator

fn around(rng: &mut Rng, d: u64) -> u64 {
    let offs: [i64; 9] = [-501, -500, -499, -250, -1, 0, 1, 250, 501];
    let o = *rng.pick(&offs);
    (d as i64 + o).max(0) as u64
}

fn cfg_words(t: u64, k: &str, d: u64) -> String {
    format!("T={t} K={k} D={d}")
}

fn pick_ka(rng: &mut Rng) -> (&'static str, u64) {
    *rng.pick(&[("1000", 1000), ("1300", 1300), ("2000", 2000), ("700", 700)])
}

fn gen(ctx: &Ctx) -> Vec<String> {
    let mut rng = Rng::new(ctx.seed);
    let mut out: Vec<String> = Vec::new();
    let ts = [700u64, 1000, 1250, 2000];
    let accepts = [0u64, 0, 130, 300, 499, 500, 730];
    let ds = [0u64, 300, 700, 1000];

    // family 1: slow / split first head around the request deadline
    for _ in 0..ctx.budget(160) {
        let t = *rng.pick(&ts);
        let a = *rng.pick(&accepts);
        let d = *rng.pick(&ds);
        let (ks, _) = if rng.chance(1, 4) { ("off", 0) } else { pick_ka(&mut rng) };
        let dl = 500 * (a / 500) + t;
        let mut w = vec![cfg_words(t, ks, d), format!("A={a}")];
        if rng.chance(1, 2) {
            w.push("sd=p".into());
        }
        match rng.below(5) {
            0 => {}
            1 => w.push(format!("{}:a", a + rng.below(200) as u64)),
            2 => {
                let t1 = a + rng.below(300) as u64;
                w.push(format!("{t1}:a"));
                w.push(format!("{}:b", around(&mut rng, dl).max(t1)));
            }
            3 => w.push(format!("{}:G", around(&mut rng, dl).max(a))),
            _ => {
                let t1 = around(&mut rng, dl).max(a);
                w.push(format!("{t1}:a"));
                w.push(format!("{}:b", t1 + rng.below(3) as u64 * 250));
            }
        }
        for _ in 0..rng.below(3) {
            w.push(format!("{}:w", dl + rng.below(3000) as u64));
        }
        if rng.chance(1, 4) {
            w.push(format!("{}:sr", dl + d + rng.below(3) as u64 * 500));
        }
        out.push(w.join(" "));
    }

    // family 2: keep-alive — next request around the keep-alive deadline
    for _ in 0..ctx.budget(160) {
        let (ks, k) = pick_ka(&mut rng);
        let d = *rng.pick(&ds);
        let a = *rng.pick(&accepts);
        let t0 = a + rng.below(700) as u64;
        let delay = *rng.pick(&[0u64, 0, 120, 400]);
        let body = *rng.pick(&["e", "s", "t150"]);
        let mut w = vec![cfg_words(*rng.pick(&[0u64, 1000, 5000]), ks, d), format!("A={a}"), format!("h={delay}:{body}")];
        if rng.chance(1, 3) {
            w.push("sd=p".into());
        }
        w.push(format!("{t0}:G"));
        let te = t0 + delay + if body == "t150" { 150 } else { 0 };
        let dl = 500 * (te / 500) + k;
        match rng.below(4) {
            0 => {}
            1 => w.push(format!("{}:G", around(&mut rng, dl).max(te + 1))),
            2 => {
                let t1 = around(&mut rng, dl).max(te + 1);
                w.push(format!("{t1}:a"));
                if rng.chance(2, 3) {
                    w.push(format!("{}:b", t1 + *rng.pick(&[1u64, 300, 1500, 4000])));
                }
            }
            _ => {
                let t1 = around(&mut rng, dl).max(te + 1);
                w.push(format!("{t1}:{}", rng.pick(&["C", "GG", "GC", "Pd"])));
            }
        }
        for _ in 0..rng.below(3) {
            w.push(format!("{}:w", dl + rng.below(2500) as u64));
        }
        out.push(w.join(" "));
    }

    // family 3: every way into SHUTDOWN × transport that does not finish × later wake-ups
    for _ in 0..ctx.budget(200) {
        let d = *rng.pick(&[300u64, 700, 1000, 1000, 0]);
        let (ks, k) = if rng.chance(1, 4) { ("off", 0) } else { pick_ka(&mut rng) };
        let t = *rng.pick(&[0u64, 1000, 1250]);
        let a = *rng.pick(&accepts);
        let hc = rng.chance(3, 4);
        let mut w = vec![cfg_words(t, ks, d), format!("A={a}"), "sd=p".into()];
        if !hc {
            w.push("hc=0".into());
        }
        let delay = *rng.pick(&[0u64, 0, 200]);
        w.push(format!("h={delay}:{}", rng.pick(&["e", "s", "t100"])));
        let t0 = a + rng.below(400) as u64;
        let start;
        match rng.below(7) {
            0 => {
                w.push(format!("{t0}:C"));
                start = t0 + delay;
            }
            1 => {
                w.push(format!("{t0}:G"));
                start = t0 + delay + k;
            }
            2 => {
                start = a + t;
            }
            3 => {
                w.push(format!("{t0}:G"));
                let te = t0 + delay + 100 + rng.below(600) as u64;
                w.push(format!("{te}:E"));
                start = te;
            }
            4 => {
                w.push(format!("{t0}:X"));
                start = t0;
            }
            5 => {
                w.push(format!("{t0}:P"));
                if rng.chance(1, 2) {
                    w.push(format!("{}:d", t0 + delay + rng.below(900) as u64));
                }
                if rng.chance(1, 3) {
                    w.push(format!("{}:E", t0 + delay + rng.below(1200) as u64));
                }
                start = t0 + delay + d;
            }
            _ => {
                w.push(format!("{t0}:{}", rng.pick(&["GC", "GG", "PdG", "Pd", "GP"])));
                start = t0 + delay;
            }
        }
        for _ in 0..rng.below(4) {
            w.push(format!("{}:w", around(&mut rng, start + d) + rng.below(2) as u64 * 700));
        }
        match rng.below(4) {
            0 => w.push(format!("{}:sr", around(&mut rng, start + d))),
            1 => {
                let tb = start.saturating_sub(rng.below(300) as u64);
                w.push(format!("{tb}:fb"));
                if rng.chance(1, 2) {
                    w.push(format!("{}:fu", around(&mut rng, start + d)));
                }
            }
            _ => {}
        }
        out.push(w.join(" "));
    }

    // family 4: graceful shutdown signal relative to arrival / handler completion / body streaming
    for _ in 0..ctx.budget(200) {
        let (ks, _) = if rng.chance(1, 5) { ("off", 0) } else { pick_ka(&mut rng) };
        let d = *rng.pick(&ds);
        let a = *rng.pick(&[0u64, 0, 130, 500]);
        let t0 = a + rng.below(600) as u64;
        let delay = *rng.pick(&[0u64, 100, 300, 600]);
        let gap = *rng.pick(&[100u64, 250]);
        let body = match rng.below(5) {
            0 => "e".to_owned(),
            1 => "s".to_owned(),
            2 => "x".to_owned(),
            3 => "y".to_owned(),
            _ => format!("t{gap}"),
        };
        let marks = [t0, t0 + delay, t0 + delay + gap, a];
        let sg = {
            let m = *rng.pick(&marks);
            let offs: [i64; 5] = [-1, 0, 1, -100, 100];
            (m as i64 + *rng.pick(&offs)).max(0) as u64
        };
        let mut w = vec![cfg_words(*rng.pick(&[0u64, 1000, 5000]), ks, d), format!("A={a}"), format!("S={sg}"), format!("h={delay}:{body}")];
        if rng.chance(1, 4) {
            w.push("sd=p".into());
        }
        w.push(format!("{t0}:{}", rng.pick(&["G", "G", "GG", "GGG", "C", "Pd", "a"])));
        if rng.chance(1, 2) {
            let m = *rng.pick(&marks);
            w.push(format!("{}:{}", (m as i64 + *rng.pick(&[-1i64, 0, 1, 50])).max(a as i64), rng.pick(&["G", "GG", "b", "G"])));
        }
        for _ in 0..rng.below(2) {
            w.push(format!("{}:w", sg + rng.below(1500) as u64));
        }
        let line = w.join(" ");
        out.push(line);
    }

    // family 6: lingering (early response to a POST whose body is unread) with a peer that stops reading
    for _ in 0..ctx.budget(80) {
        let d = *rng.pick(&[300u64, 700, 1000]);
        let (ks, _) = if rng.chance(1, 4) { ("off", 0) } else { pick_ka(&mut rng) };
        let a = *rng.pick(&accepts);
        let t0 = a + rng.below(400) as u64;
        let delay = *rng.pick(&[0u64, 0, 200]);
        let mut w = vec![cfg_words(*rng.pick(&[0u64, 1000]), ks, d), format!("A={a}"), format!("h={delay}:{}", rng.pick(&["e", "s"]))];
        if rng.chance(2, 3) {
            w.push("sd=p".into());
        }
        let blk = *rng.pick(&["wb", "fb"]);
        let ublk = if blk == "wb" { "wu" } else { "fu" };
        let tb = if rng.chance(1, 2) { t0 } else { t0 + delay + rng.below(200) as u64 };
        if tb == t0 {
            w.push(format!("{tb}:{blk}"));
            w.push(format!("{t0}:P"));
        } else {
            w.push(format!("{t0}:P"));
            w.push(format!("{tb}:{blk}"));
        }
        if rng.chance(1, 3) {
            w.push(format!("{}:{ublk}", around(&mut rng, t0 + delay + d)));
        }
        if rng.chance(1, 3) {
            w.push(format!("{}:d", t0 + delay + 1 + rng.below(1500) as u64));
        }
        if rng.chance(1, 4) {
            w.push(format!("{}:E", t0 + delay + rng.below(1500) as u64));
        }
        for _ in 0..rng.below(3) {
            w.push(format!("{}:w", around(&mut rng, t0 + delay + d) + rng.below(2) as u64 * d));
        }
        out.push(w.join(" "));
    }

    // family 5: random mix
    for _ in 0..ctx.budget(280) {
        let t = *rng.pick(&[0u64, 700, 1000, 1250]);
        let (ks, _) = match rng.below(6) {
            0 => ("off", 0),
            1 => ("os", 0),
            _ => pick_ka(&mut rng),
        };
        let d = *rng.pick(&ds);
        let a = *rng.pick(&accepts);
        let mut w = vec![cfg_words(t, ks, d), format!("A={a}")];
        if rng.chance(1, 3) {
            w.push("sd=p".into());
        }
        if rng.chance(1, 5) {
            w.push("hc=0".into());
        }
        if rng.chance(1, 4) {
            w.push(format!("S={}", a + rng.below(3000) as u64));
        }
        let nh = rng.range(1, 3);
        let hsv: Vec<String> = (0..nh)
            .map(|_| format!("{}:{}", rng.pick(&[0u64, 0, 150, 500]), rng.pick(&["e", "s", "t100", "t600", "x", "y"])))
            .collect();
        w.push(format!("h={}", hsv.join(",")));
        let mut tcur = a;
        let n = rng.range(0, 5);
        let mut pend_a = false;
        let mut pend_p = false;
        for _ in 0..n {
            tcur += *rng.pick(&[0u64, 1, 200, 499, 500, 501, 800, 1000, 1300, 2000]);
            let tok = if pend_a {
                pend_a = false;
                "b".to_owned()
            } else if pend_p {
                pend_p = false;
                "d".to_owned()
            } else {
                let tk = *rng.pick(&["G", "G", "C", "a", "ab", "P", "Pd", "GG", "X", "GC"]);
                pend_a = tk == "a";
                pend_p = tk == "P";
                tk.to_owned()
            };
            w.push(format!("{tcur}:{tok}"));
        }
        if rng.chance(1, 4) {
            w.push(format!("{}:E", tcur + rng.below(1500) as u64));
        }
        for _ in 0..rng.below(3) {
            w.push(format!("{}:w", a + rng.below(6000) as u64));
        }
        if rng.chance(1, 6) {
            let tb = a + rng.below(3000) as u64;
            w.push(format!("{tb}:{}", rng.pick(&["fb", "wb"])));
            if rng.chance(2, 3) {
                w.push(format!("{}:{}", tb + rng.below(2000) as u64, rng.pick(&["fu", "wu"])));
            }
        }
        if rng.chance(1, 5) {
            w.push(format!("{}:sr", a + rng.below(6000) as u64));
        }
        out.push(w.join(" "));
    }
    out
}

fn run(line: &str) -> CaseResult {
    let case = match parse_case(line) {
        Ok(c) => c,
        Err(_) => {
            let mut r = CaseResult::ok("bad-case".to_owned());
            r.nontrivial = false;
            return r.tag("bad-case");
        }
    };
    let toks: Vec<char> = script_of(&case).toks.iter().map(|x| x.1).collect();
    if !well_formed(&toks) {
        let mut r = CaseResult::ok("unsupported".to_owned());
        r.nontrivial = false;
        return r.tag("unsupported");
    }
    let recs = run_case(&case);
    let (fail, tags, nontrivial) = oracle(&case, &recs);
    CaseResult { output: show(&recs), fail, nontrivial, tags }
}

pub fn prop() -> Prop {
    Prop { rule: RULE, parallel: true, gen: Box::new(gen), run: Box::new(run) }
}
