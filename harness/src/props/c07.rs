//! C07 — request-body channel (`actix_http::h1::Payload::create` pair): exact bytes, truthful
//! ending, no lost wake-ups.  Public API only: `h1::Payload::create`, the `PayloadSender`
//! methods (`feed_data`, `feed_eof`, `set_error`, `need_read`, `is_dropped`, `Drop`), and the
//! reader through `Stream::poll_next` / `unread_data` / drop — either on `h1::Payload` directly
//! or (`wrap=1`) through the `actix_http::Payload::H1` wrapper of `src/payload.rs`.
//!
//! Line protocol: see `lean/ActixModel/Drv/C07.lean`.
use std::{
    collections::VecDeque,
    pin::Pin,
    sync::{Arc, Mutex, OnceLock},
    task::{Context, Poll, Wake, Waker},
};

use actix_http::error::PayloadError;
use bytes::Bytes;
use futures_core::Stream;

use super::Prop;
use crate::common::{CaseResult, Ctx, Rng, Tier};

const RULE: &str = "cases = op sequences on a fresh h1::Payload::create(eof) pair: every sequence over \
{fd:1 fd:32768 fe se:ovf ds nr:1 pn:0 ur:1 dr} up to depth 5 (6 thorough), every sequence over a 17-token alphabet \
(chunk sizes 0,1,32767,32768,40000; two errors; same/different wakers for reader and feeder; is_dropped) up to depth 3 (4), \
both also from create(true) at depth<=3, every sequence over {fd:32768 fe se:ovf ds nr:1 pn:0 dr} up to depth 6 (7), \
reader-side sequences on actix_http::Payload::from(Bytes) of 0/1/10/32768/40000 bytes, plus seeded random sequences up to length 200 in five profiles (streaming, \
back-pressure around 32 KiB, endings, handle drops, uniform), half of them through the actix_http::Payload::H1 wrapper; \
a case is non-trivial if a sender op was accepted and a poll returned something; distinct = distinct (case, output) hashes";

const N_WAKERS: usize = 3;
const MAX_CHUNK: usize = 100_000;
const MAX_CHUNKS: usize = 4096;
/// the property's "buffering limit" (32 KiB), written down independently of the source
const LIMIT: usize = 32 * 1024;

fn pattern() -> &'static [u8] {
    static P: OnceLock<&'static [u8]> = OnceLock::new();
    P.get_or_init(|| {
        let v: Vec<u8> = (0..(MAX_CHUNK + MAX_CHUNKS) as u64)
            .map(|i| {
                let z = (i ^ 0x5bd1_e995).wrapping_mul(0x9E37_79B9_7F4A_7C15);
                (z >> 29) as u8
            })
            .collect();
        Box::leak(v.into_boxed_slice())
    })
}

/// chunk k of length n: the window [k, k+n) of the fixed pattern (zero-copy)
fn chunk(k: usize, n: usize) -> Bytes {
    Bytes::from_static(&pattern()[k..k + n])
}

struct CountingWaker {
    id: usize,
    log: Arc<Mutex<Vec<usize>>>,
}

impl Wake for CountingWaker {
    fn wake(self: Arc<Self>) {
        self.log.lock().unwrap().push(self.id);
    }
    fn wake_by_ref(self: &Arc<Self>) {
        self.log.lock().unwrap().push(self.id);
    }
}

enum Reader {
    H1(actix_http::h1::Payload),
    Wrapped(actix_http::Payload),
}

impl Reader {
    fn poll(&mut self, cx: &mut Context<'_>) -> Poll<Option<Result<Bytes, PayloadError>>> {
        match self {
            Reader::H1(p) => Pin::new(p).poll_next(cx),
            Reader::Wrapped(p) => Pin::new(p).poll_next(cx),
        }
    }
    fn unread(&mut self, b: Bytes) {
        match self {
            Reader::H1(p) => p.unread_data(b),
            Reader::Wrapped(actix_http::Payload::H1 { payload }) => payload.unread_data(b),
            Reader::Wrapped(_) => unreachable!(),
        }
    }
}

fn err_of_tok(t: &str) -> Option<PayloadError> {
    Some(match t {
        "inc" => PayloadError::Incomplete(None),
        "inci" => PayloadError::Incomplete(Some(std::io::Error::new(std::io::ErrorKind::Other, "x"))),
        "enc" => PayloadError::EncodingCorrupted,
        "ovf" => PayloadError::Overflow,
        "unk" => PayloadError::UnknownLength,
        "io" => PayloadError::Io(std::io::Error::new(std::io::ErrorKind::Other, "x")),
        _ => return None,
    })
}

fn tok_of_err(e: &PayloadError) -> &'static str {
    match e {
        PayloadError::Incomplete(None) => "inc",
        PayloadError::Incomplete(Some(_)) => "inci",
        PayloadError::EncodingCorrupted => "enc",
        PayloadError::Overflow => "ovf",
        PayloadError::UnknownLength => "unk",
        PayloadError::Io(_) => "io",
        _ => "other",
    }
}

/// which chunk of this case is `b`?  By address inside the pattern (the channel passes `Bytes`
/// through without copying), else by content among the chunks created so far.
fn identify(b: &Bytes, made: &[(usize, usize)]) -> String {
    let base = pattern().as_ptr() as usize;
    let p = b.as_ptr() as usize;
    if p >= base && p + b.len() <= base + pattern().len() {
        let k = p - base;
        if made.iter().any(|&(mk, mn)| mk == k && mn == b.len()) {
            return format!("D{}:{}", k, b.len());
        }
    }
    for &(k, n) in made {
        if n == b.len() && &pattern()[k..k + n] == b.as_ref() {
            return format!("D{}:{}", k, n);
        }
    }
    format!("D?:{}", b.len())
}

/// The property's own words, evaluated on what the real code did (no model involved).
struct Oracle {
    sender_alive: bool,
    reader_alive: bool,
    /// bytes fed and not yet yielded (byte level: chunk boundaries are not part of the claim)
    pending: VecDeque<u8>,
    eof_signalled: bool,
    err_ever: bool,
    err_outstanding: Option<&'static str>,
    parked_reader: Option<usize>,
    parked_feeder: Option<usize>,
    fails: Vec<(String, String)>,
}

impl Oracle {
    fn fail(&mut self, i: usize, tok: &str, sig: &str, what: String) {
        self.fails.push((sig.to_owned(), format!("op#{} {}: {}", i, tok, what)));
    }
    /// a data / end / error / first sender-drop event happened: a parked reader must be woken by it
    fn reader_event(&mut self, i: usize, tok: &str, wakes: &[usize]) {
        if let Some(w) = self.parked_reader {
            if !wakes.contains(&w) {
                self.fail(i, tok, "reader-not-woken", format!("reader parked on waker {} was not woken (wakes {:?})", w, wakes));
            }
        }
    }
}

fn run(line: &str) -> CaseResult {
    let words: Vec<&str> = line.split_ascii_whitespace().collect();
    let eof = words.iter().any(|w| *w == "eof=1");
    let wrap = words.iter().any(|w| *w == "wrap=1");
    let ops: Vec<&str> = words.iter().copied().filter(|w| !w.contains('=')).collect();

    let log: Arc<Mutex<Vec<usize>>> = Arc::new(Mutex::new(Vec::new()));
    let arcs: Vec<Arc<CountingWaker>> =
        (0..N_WAKERS).map(|id| Arc::new(CountingWaker { id, log: log.clone() })).collect();
    let wakers: Vec<Waker> = arcs.iter().map(|a| Waker::from(a.clone())).collect();
    let base: Vec<usize> = arcs.iter().map(Arc::strong_count).collect();

    // from=<n>: `actix_http::Payload::from(Bytes)` (src/payload.rs) instead of a create() pair
    let from: Option<usize> = words
        .iter()
        .find_map(|w| w.strip_prefix("from="))
        .and_then(|v| v.parse().ok())
        .filter(|n| *n <= MAX_CHUNK);
    let (mut sender, mut reader) = match from {
        Some(n) => (None, Some(Reader::Wrapped(actix_http::Payload::from(chunk(MAX_CHUNKS - 1, n))))),
        None => {
            let (sender, payload) = actix_http::h1::Payload::create(eof);
            let reader = if wrap { Reader::Wrapped(actix_http::Payload::from(payload)) } else { Reader::H1(payload) };
            (Some(sender), Some(reader))
        }
    };

    let mut o = Oracle {
        sender_alive: true,
        reader_alive: true,
        pending: VecDeque::new(),
        eof_signalled: eof,
        err_ever: false,
        err_outstanding: None,
        parked_reader: None,
        parked_feeder: None,
        fails: Vec::new(),
    };
    let mut tags: Vec<String> = Vec::new();
    let mut made: Vec<(usize, usize)> = Vec::new();
    if let Some(n) = from {
        // ground truth for From<Bytes>: a complete body of exactly these bytes, no feeder
        o.sender_alive = false;
        o.eof_signalled = true;
        o.pending.extend(chunk(MAX_CHUNKS - 1, n).iter());
        made.push((MAX_CHUNKS - 1, n));
        tags.push("from-bytes".into());
    }
    let mut outs: Vec<String> = Vec::with_capacity(ops.len());
    let mut k = 0usize; // data-carrying tokens seen
    let mut accepted_sender_op = false;
    let mut poll_answered = false;
    let mut yielded = 0usize;
    let mut max_buffered = 0usize;

    for (i, tok) in ops.iter().enumerate() {
        let parts: Vec<&str> = tok.split(':').collect();
        let my_k = k;
        if tok.starts_with("fd:") || tok.starts_with("ur:") {
            k += 1;
        }
        log.lock().unwrap().clear();
        let both = o.sender_alive && o.reader_alive;
        // ---- run the op on the real code
        let res: String = match parts.as_slice() {
            ["fd", n] => match n.parse::<usize>() {
                Ok(n) if n <= MAX_CHUNK && my_k < MAX_CHUNKS - 1 => match sender.as_mut() {
                    Some(s) => {
                        let b = chunk(my_k, n);
                        if both {
                            made.push((my_k, n));
                            o.pending.extend(b.iter());
                            accepted_sender_op = true;
                        }
                        s.feed_data(b);
                        "ok".into()
                    }
                    None => "gone".into(),
                },
                _ => "bad-op".into(),
            },
            ["ur", n] => match n.parse::<usize>() {
                Ok(n) if n <= MAX_CHUNK && my_k < MAX_CHUNKS - 1 => match reader.as_mut() {
                    Some(r) => {
                        let b = chunk(my_k, n);
                        made.push((my_k, n));
                        for x in b.iter().rev() {
                            o.pending.push_front(*x);
                        }
                        r.unread(b);
                        "ok".into()
                    }
                    None => "gone".into(),
                },
                _ => "bad-op".into(),
            },
            ["fe"] => match sender.as_mut() {
                Some(s) => {
                    s.feed_eof();
                    "ok".into()
                }
                None => "gone".into(),
            },
            ["se", e] => match err_of_tok(e) {
                Some(err) => match sender.as_mut() {
                    Some(s) => {
                        s.set_error(err);
                        "ok".into()
                    }
                    None => "gone".into(),
                },
                None => "bad-op".into(),
            },
            ["ds"] => match sender.take() {
                Some(s) => {
                    drop(s);
                    "ok".into()
                }
                None => "gone".into(),
            },
            ["nr", w] => match w.parse::<usize>() {
                Ok(w) if w < N_WAKERS => match sender.as_ref() {
                    Some(s) => {
                        let mut cx = Context::from_waker(&wakers[w]);
                        format!("{:?}", s.need_read(&mut cx))
                    }
                    None => "gone".into(),
                },
                _ => "bad-op".into(),
            },
            ["isd"] => match sender.as_ref() {
                Some(s) => (s.is_dropped() as u8).to_string(),
                None => "gone".into(),
            },
            ["pn", w] => match w.parse::<usize>() {
                Ok(w) if w < N_WAKERS => match reader.as_mut() {
                    Some(r) => {
                        let mut cx = Context::from_waker(&wakers[w]);
                        let polled = r.poll(&mut cx);
                        let wakes: Vec<usize> = log.lock().unwrap().clone();
                        poll_answered = true;
                        // ---- oracle: what a poll may answer
                        match polled {
                            Poll::Pending => {
                                if !o.pending.is_empty() {
                                    o.fail(i, tok, "pending-with-data", format!("Pending while {} fed bytes are undelivered", o.pending.len()));
                                }
                                if let Some(e) = o.err_outstanding {
                                    o.fail(i, tok, "pending-with-error", format!("Pending while error {} is undelivered", e));
                                }
                                if o.eof_signalled {
                                    o.fail(i, tok, "pending-after-eof", "Pending although the end was signalled".into());
                                }
                                o.parked_reader = Some(w);
                                "P".into()
                            }
                            Poll::Ready(Some(Ok(b))) => {
                                yielded += 1;
                                let n = b.len();
                                let ok = n <= o.pending.len() && o.pending.iter().take(n).copied().eq(b.iter().copied());
                                if !ok {
                                    o.fail(i, tok, "bytes-mismatch", format!("yielded {} bytes that are not the next fed bytes ({} outstanding)", n, o.pending.len()));
                                    o.pending.clear();
                                } else {
                                    o.pending.drain(..n);
                                }
                                if let Some(f) = o.parked_feeder {
                                    if o.pending.len() < LIMIT && !wakes.contains(&f) {
                                        o.fail(i, tok, "feeder-not-woken", format!("buffer drained to {} < {} but paused feeder (waker {}) not woken", o.pending.len(), LIMIT, f));
                                    }
                                }
                                o.parked_reader = None;
                                identify(&b, &made)
                            }
                            Poll::Ready(Some(Err(e))) => {
                                let t = tok_of_err(&e);
                                if !o.pending.is_empty() {
                                    o.fail(i, tok, "error-before-data", format!("error {} reported while {} fed bytes are undelivered", t, o.pending.len()));
                                }
                                match o.err_outstanding {
                                    Some(x) if x == t => {}
                                    other => o.fail(i, tok, "wrong-error", format!("reported {} but outstanding error is {:?}", t, other)),
                                }
                                o.err_outstanding = None;
                                o.parked_reader = None;
                                tags.push(format!("end:E{}", t));
                                format!("E{}", t)
                            }
                            Poll::Ready(None) => {
                                if !o.eof_signalled {
                                    o.fail(i, tok, "clean-end-unsignalled", "clean end although feed_eof was never called".into());
                                }
                                if let Some(e) = o.err_outstanding {
                                    o.fail(i, tok, "clean-end-hides-error", format!("clean end while error {} is undelivered", e));
                                }
                                if !o.pending.is_empty() {
                                    o.fail(i, tok, "clean-end-with-data-left", format!("clean end while {} fed bytes are undelivered", o.pending.len()));
                                }
                                o.parked_reader = None;
                                tags.push("end:N".into());
                                "N".into()
                            }
                        }
                    }
                    None => "gone".into(),
                },
                _ => "bad-op".into(),
            },
            ["dr"] => match reader.take() {
                Some(r) => {
                    drop(r);
                    "ok".into()
                }
                None => "gone".into(),
            },
            _ => "bad-op".into(),
        };
        let wakes: Vec<usize> = log.lock().unwrap().clone();
        tags.push(parts[0].to_owned());

        // ---- oracle: bookkeeping from the op history + wake-up obligations
        if res != "gone" && res != "bad-op" {
            match parts[0] {
                "fd" => {
                    if both {
                        o.reader_event(i, tok, &wakes);
                    }
                }
                "fe" => {
                    if both {
                        accepted_sender_op = true;
                        o.eof_signalled = true;
                        o.reader_event(i, tok, &wakes);
                    }
                }
                "se" => {
                    if both {
                        accepted_sender_op = true;
                        o.err_outstanding = err_of_tok(parts[1]).as_ref().map(tok_of_err);
                        o.err_ever = true;
                        o.reader_event(i, tok, &wakes);
                    }
                }
                "ds" => {
                    if both && !o.eof_signalled && !o.err_ever {
                        // the feeding side disappears first: the body is incomplete
                        o.err_outstanding = Some("inc");
                        o.err_ever = true;
                        o.reader_event(i, tok, &wakes);
                        tags.push("ds:incomplete".into());
                    }
                    o.sender_alive = false;
                }
                "nr" => {
                    let w: usize = parts[1].parse().unwrap();
                    match res.as_str() {
                        "Pause" => {
                            if !o.reader_alive {
                                o.fail(i, tok, "status-wrong", "Pause although the reader is gone".into());
                            }
                            if o.pending.len() < LIMIT {
                                o.fail(i, tok, "pause-below-limit", format!("told to pause with only {} bytes buffered: no drain can ever wake the feeder", o.pending.len()));
                            }
                            o.parked_feeder = Some(w);
                            tags.push("nr:Pause".into());
                        }
                        "Read" => {
                            if !o.reader_alive {
                                o.fail(i, tok, "status-wrong", "Read although the reader is gone".into());
                            }
                            o.parked_feeder = None;
                        }
                        "Dropped" => {
                            if o.reader_alive {
                                o.fail(i, tok, "status-wrong", "Dropped although the reader is alive".into());
                            }
                            o.parked_feeder = None;
                        }
                        other => o.fail(i, tok, "status-wrong", format!("unknown status {}", other)),
                    }
                }
                "isd" => {
                    if (res == "1") == o.reader_alive {
                        o.fail(i, tok, "is-dropped-wrong", format!("is_dropped()={} reader_alive={}", res, o.reader_alive));
                    }
                }
                "ur" => o.parked_reader = None,
                "dr" => {
                    o.reader_alive = false;
                    o.parked_reader = None;
                    if o.parked_feeder.is_some() {
                        tags.push("O1:reader-dropped-while-feeder-parked".into());
                    }
                }
                _ => {}
            }
        }
        for w in &wakes {
            if o.parked_reader == Some(*w) {
                o.parked_reader = None;
            }
            if o.parked_feeder == Some(*w) {
                o.parked_feeder = None;
            }
        }
        max_buffered = max_buffered.max(o.pending.len());

        let held: String = (0..N_WAKERS)
            .map(|j| (Arc::strong_count(&arcs[j]) - base[j]).to_string())
            .collect();
        let mut s = res;
        for w in &wakes {
            s.push('!');
            s.push_str(&w.to_string());
        }
        s.push('@');
        s.push_str(&held);
        outs.push(s);
    }
    if max_buffered >= LIMIT {
        tags.push("buffered>=32K".into());
    }
    if yielded > 0 {
        tags.push("yielded".into());
    }
    let mut r = CaseResult::ok(outs.join(" "));
    r.nontrivial = (accepted_sender_op || from.is_some()) && poll_answered;
    tags.sort();
    tags.dedup();
    r.tags = tags;
    if let Some((sig, d)) = o.fails.into_iter().next() {
        r = r.fail(&sig, d);
    }
    r
}

fn enumerate(alpha: &[&str], depth: usize, prefix: &str, cases: &mut Vec<String>) {
    let mut idx: Vec<usize> = Vec::new();
    for d in 1..=depth {
        idx.clear();
        idx.resize(d, 0);
        'outer: loop {
            let mut s = String::from(prefix);
            for &i in &idx {
                if !s.is_empty() {
                    s.push(' ');
                }
                s.push_str(alpha[i]);
            }
            cases.push(s);
            let mut k = d;
            loop {
                if k == 0 {
                    break 'outer;
                }
                k -= 1;
                idx[k] += 1;
                if idx[k] < alpha.len() {
                    break;
                }
                idx[k] = 0;
            }
        }
    }
}

const SMALL: &[&str] = &["fd:1", "fd:32768", "fe", "se:ovf", "ds", "nr:1", "pn:0", "ur:1", "dr"];
const WIDE: &[&str] = &[
    "fd:0", "fd:1", "fd:32767", "fd:32768", "fd:40000", "fe", "se:ovf", "se:inc", "ds", "nr:0", "nr:1", "pn:0",
    "pn:2", "ur:1", "ur:40000", "dr", "isd",
];
/// depth-7 alphabet (DESIGN: "exhaustive to depth 7"): one chunk size at the limit, both endings,
/// both drops, both polls
const TINY: &[&str] = &["fd:32768", "fe", "se:ovf", "ds", "nr:1", "pn:0", "dr"];
const SIZES: &[usize] = &[0, 1, 2, 100, 4096, 16384, 32767, 32768, 32769, 40000, 65536];
const ERRS: &[&str] = &["inc", "inci", "enc", "ovf", "unk", "io"];

fn random_case(rng: &mut Rng) -> String {
    let profile = rng.below(5);
    let n = if rng.chance(1, 6) { rng.range(30, 200) } else { rng.range(1, 30) };
    let mut toks: Vec<String> = Vec::new();
    if rng.chance(1, 8) {
        toks.push("eof=1".into());
    }
    if rng.chance(1, 2) {
        toks.push("wrap=1".into());
    }
    if rng.chance(1, 25) {
        toks.push(format!("from={}", rng.pick(SIZES)));
    }
    let size = |rng: &mut Rng, big: bool| -> usize {
        if big {
            *rng.pick(&SIZES[4..])
        } else if rng.chance(1, 3) {
            rng.range(0, 300)
        } else {
            *rng.pick(SIZES)
        }
    };
    for j in 0..n {
        let late = j * 4 >= n * 3;
        // weights: fd, pn, nr, ur, fe, se, ds, dr, isd
        let w: [usize; 9] = match profile {
            0 => [30, 40, 10, 3, if late { 6 } else { 1 }, 1, if late { 3 } else { 0 }, 0, 1], // streaming
            1 => [35, 20, 30, 6, 1, 1, 1, 0, 1],                                                // back-pressure
            2 => [15, 30, 5, 3, 12, 12, 10, 2, 2],                                              // endings
            3 => [15, 20, 15, 5, 5, 5, 10, 10, 10],                                             // handle drops
            _ => [12, 12, 12, 12, 12, 12, 8, 6, 6],                                             // uniform
        };
        let total: usize = w.iter().sum();
        let mut x = rng.below(total);
        let mut kind = 0;
        for (i, wi) in w.iter().enumerate() {
            if x < *wi {
                kind = i;
                break;
            }
            x -= wi;
        }
        let wk = |rng: &mut Rng| if rng.chance(3, 4) { 0 } else { rng.below(N_WAKERS) };
        toks.push(match kind {
            0 => {
                let big = profile == 1 && rng.chance(1, 2);
                format!("fd:{}", size(rng, big))
            }
            1 => format!("pn:{}", wk(rng)),
            2 => format!("nr:{}", if rng.chance(1, 2) { 1 } else { rng.below(N_WAKERS) }),
            3 => format!("ur:{}", size(rng, false)),
            4 => "fe".into(),
            5 => format!("se:{}", rng.pick(ERRS)),
            6 => "ds".into(),
            7 => "dr".into(),
            _ => "isd".into(),
        });
    }
    toks.join(" ")
}

fn gen(ctx: &Ctx) -> Vec<String> {
    let (d_small, d_wide, d_tiny) = match ctx.tier {
        Tier::Quick => (5, 3, 6),
        _ => (6, 4, 7),
    };
    let mut cases = Vec::new();
    if ctx.tier != Tier::Burst {
        enumerate(SMALL, d_small, "", &mut cases);
        enumerate(WIDE, d_wide, "", &mut cases);
        enumerate(SMALL, 3, "eof=1", &mut cases);
        enumerate(SMALL, 3, "wrap=1", &mut cases);
        enumerate(TINY, d_tiny, "", &mut cases);
        for n in [0usize, 1, 10, 32768, 40000] {
            enumerate(&["pn:0", "ur:1", "nr:1", "dr", "fd:1", "isd"], 3, &format!("from={}", n), &mut cases);
        }
    }
    let mut rng = Rng::new(ctx.seed);
    for _ in 0..ctx.budget(6000) {
        cases.push(random_case(&mut rng));
    }
    cases
}

pub fn prop() -> Prop {
    let _ = pattern();
    Prop { rule: RULE, parallel: true, gen: Box::new(gen), run: Box::new(run) }
}
