//! C08 — HTTP/2 responses complete and well-described under any flow-control schedule.
//!
//! Real code: `HttpService::build().h2(handler)` over `tokio::io::duplex`, the `h2` crate's client as
//! peer, inside a fresh `actix_rt::System` with the tokio clock paused (a stalled connection makes
//! the virtual clock jump, so "nothing released for a while" and HANG detection are deterministic
//! and instantaneous).
//!
//! Case line (space separated tokens, any token may be deleted by the shrinker):
//!   `[raw] w=<stream window> cw=<connection window> sw=<server stream window> pipe=<duplex buffer> s:<m>:<status>:<kind>:<items>:<hdrs>:<client>` …
//!   m      G | H | P<n> (POST with an n-byte request body that the handler reads to the end first)
//!   kind   n (body::None)  u (`()`)  b (Bytes)  ss (SizedStream)  bs (BodyStream)
//!          xs (raw MessageBody, BodySize::Stream)  xz (raw MessageBody, BodySize::Sized(total))
//!   items  `.`-separated: <len> chunk of that many bytes | t<ms> Pending for ms of virtual time | <n>x<len> n always-ready chunks of len bytes | p Pending once | e body error | - none
//!   hdrs   `,`-separated name=value set by the handler, `-` none
//!   client `.`-separated: a release every chunk at once | b<n> release when ≥ n bytes are unreleased or
//!          when the connection has stalled | d<ms> virtual delay before a stalled stream releases |
//!          r<k> RST_STREAM once ≥ k body bytes were received (r0: right after the response head) |
//!          q<j> send this request only after the client is done with stream j (e.g. has reset it) |
//!          h never release capacity on this stream (ends `held` when the body does not fit the window)
//! Output: one `;`-separated record per stream `k=<status>|<headers sorted by name>|<len>|<fnv32>|<end>`,
//! end ∈ eos | err | rst | held | hang (len/hash only for eos).
use std::{
    cell::RefCell,
    collections::VecDeque,
    convert::Infallible,
    pin::Pin,
    rc::Rc,
    task::{Context, Poll},
    time::Duration,
};

use actix_http::{
    body::{BodySize, BodyStream, BoxBody, MessageBody, SizedStream},
    HttpService, KeepAlive, Request, Response, StatusCode,
};
use actix_service::{fn_service, Service as _, ServiceFactory as _};
use bytes::Bytes;
use futures_core::Stream;
use futures_util::StreamExt as _;

use super::Prop;
use crate::common::{CaseResult, Ctx, Rng, Tier};

const RULE: &str = "cases = one HTTP/2 connection each: client stream window w ∈ {1,7,16384,65535,…}, connection window, \
duplex pipe size, 1–4 concurrent streams; per stream a scripted handler (method GET/HEAD/POST, status incl. 204/304, \
body kind None/()/Bytes/SizedStream/BodyStream/raw MessageBody with chunk lists incl. empty chunks, chunks larger than the \
window and CHUNK_SIZE, Pending, body error; handler headers incl. connection-specific ones and content-length) and a scripted \
client (release per chunk / in batches / only when stalled / never, RST_STREAM after k bytes, request sent only after another \
stream was reset); long always-ready bodies (thousands of chunks) reset mid-body, the handler's body instrumented to count what the sender pulls. non-trivial = at least one stream \
received at least one body byte; distinct = distinct (case, output) hashes";

// ---------------------------------------------------------------------------------------------
// case grammar

#[derive(Clone, Debug, PartialEq)]
enum Item {
    Chunk(usize),
    Pend,
    /// the body stays Pending for this many (virtual) milliseconds: a slow producer / SSE / long poll
    Sleep(u64),
    Err,
}

#[derive(Clone, Debug, PartialEq)]
enum Kind {
    None,
    Unit,
    Bytes,
    SizedStream,
    BodyStream,
    RawStream,
    RawSized,
}

#[derive(Clone, Debug)]
struct Spec {
    head: bool,
    post: Option<usize>,
    status: u16,
    kind: Kind,
    items: Vec<Item>,
    hdrs: Vec<(String, String)>,
    batch: Option<usize>,
    delay_ms: u64,
    reset_at: Option<usize>,
    /// the client never releases capacity on this stream (and resets it once it is clear nothing more comes)
    hold: bool,
    /// the request is sent only after the client is done with stream `after` (eos / reset / error)
    after: Option<usize>,
}

#[derive(Clone, Debug)]
struct Case {
    w: u32,
    cw: u32,
    /// server-side (receive) stream window, for request bodies
    sw: u32,
    pipe: usize,
    /// contract-sampling mode: the peer of the client is a bare `h2` server running a transliteration of
    /// the model's send loop, instrumented to log every (reserved, granted) pair
    raw: bool,
    streams: Vec<Spec>,
}

fn parse_spec(tok: &str) -> Option<Spec> {
    let f: Vec<&str> = tok.split(':').collect();
    if f.len() != 7 || f[0] != "s" {
        return None;
    }
    let (head, post) = match f[1] {
        "G" => (false, None),
        "H" => (true, None),
        m if m.starts_with('P') => (false, Some(m[1..].parse().ok()?)),
        _ => return None,
    };
    let status: u16 = f[2].parse().ok()?;
    // 1xx as a *final* status is refused by every conforming HTTP/2 client (h2: PROTOCOL_ERROR), so the
    // harness cannot observe it; the Lean model keeps those branches, see docs/C08.md
    if !(200..=599).contains(&status) {
        return None;
    }
    let kind = match f[3] {
        "n" => Kind::None,
        "u" => Kind::Unit,
        "b" => Kind::Bytes,
        "ss" => Kind::SizedStream,
        "bs" => Kind::BodyStream,
        "xs" => Kind::RawStream,
        "xz" => Kind::RawSized,
        _ => return None,
    };
    let mut items = Vec::new();
    if f[4] != "-" {
        for it in f[4].split('.') {
            if let Some((cnt, len)) = it.split_once('x') {
                // <count>x<len>: a long run of always-ready chunks
                let (cnt, len): (usize, usize) = (cnt.parse().ok()?, len.parse().ok()?);
                if cnt > 100_000 || cnt.saturating_mul(len) > 4_000_000 {
                    return None;
                }
                items.extend(std::iter::repeat(Item::Chunk(len)).take(cnt));
                continue;
            }
            items.push(match it {
                "p" => Item::Pend,
                t if t.starts_with('t') => Item::Sleep(t[1..].parse().ok()?),
                "e" => Item::Err,
                n => Item::Chunk(n.parse().ok()?),
            });
        }
    }
    let mut hdrs = Vec::new();
    if f[5] != "-" {
        for h in f[5].split(',') {
            let (n, v) = h.split_once('=')?;
            hdrs.push((n.to_owned(), v.to_owned()));
        }
    }
    let (mut batch, mut delay_ms, mut reset_at, mut hold, mut after) = (None, 10, None, false, None);
    for c in f[6].split('.') {
        match c.as_bytes().first() {
            Some(b'a') => batch = None,
            Some(b'h') if c == "h" => hold = true,
            Some(b'b') => batch = Some(c[1..].parse().ok()?),
            Some(b'd') => delay_ms = c[1..].parse().ok()?,
            Some(b'r') => reset_at = Some(c[1..].parse().ok()?),
            Some(b'q') => after = Some(c[1..].parse().ok()?),
            _ => return None,
        }
    }
    Some(Spec { head, post, status, kind, items, hdrs, batch, delay_ms, reset_at, hold, after })
}

fn parse_case(line: &str) -> Option<Case> {
    let mut c = Case { w: 65_535, cw: 65_535, sw: 65_535, pipe: 65_536, raw: false, streams: vec![] };
    for tok in line.split_ascii_whitespace() {
        if let Some(v) = tok.strip_prefix("w=") {
            c.w = v.parse().ok()?;
        } else if let Some(v) = tok.strip_prefix("cw=") {
            c.cw = v.parse().ok()?;
        } else if let Some(v) = tok.strip_prefix("sw=") {
            c.sw = v.parse().ok()?;
        } else if tok == "raw" {
            c.raw = true;
        } else if let Some(v) = tok.strip_prefix("pipe=") {
            c.pipe = v.parse().ok()?;
        } else {
            c.streams.push(parse_spec(tok)?);
        }
    }
    if c.w == 0 || c.sw == 0 || c.pipe == 0 || c.streams.len() > 8 {
        return None;
    }
    Some(c)
}

/// deterministic body content: byte `j` of the body of stream `k` (same formula in Drv/C08.lean)
fn content_byte(k: usize, j: usize) -> u8 {
    ((j * 7 + k * 13 + j / 251) % 256) as u8
}

fn content(k: usize, from: usize, len: usize) -> Bytes {
    Bytes::from((from..from + len).map(|j| content_byte(k, j)).collect::<Vec<u8>>())
}

fn fnv32(bs: &[u8]) -> u32 {
    let mut h: u32 = 2_166_136_261;
    for b in bs {
        h ^= *b as u32;
        h = h.wrapping_mul(16_777_619);
    }
    h
}

// ---------------------------------------------------------------------------------------------
// scripted bodies

enum Ev {
    Chunk(Bytes),
    Pend,
    Sleep(u64),
    Err,
}

fn script(k: usize, items: &[Item]) -> VecDeque<Ev> {
    let mut off = 0;
    items
        .iter()
        .map(|it| match it {
            Item::Chunk(n) => {
                let b = content(k, off, *n);
                off += n;
                Ev::Chunk(b)
            }
            Item::Pend => Ev::Pend,
            Item::Sleep(ms) => Ev::Sleep(*ms),
            Item::Err => Ev::Err,
        })
        .collect()
}

fn total(items: &[Item]) -> usize {
    items.iter().map(|i| if let Item::Chunk(n) = i { *n } else { 0 }).sum()
}

/// what the sender pulled out of a scripted body (harness-side instrumentation of *our* handler's body)
#[derive(Clone, Debug, Default)]
struct PullStat {
    /// bytes of all chunks handed out so far
    bytes: usize,
    /// length of the chunk handed out last
    last: usize,
    chunks: usize,
}

type Probe = Rc<RefCell<PullStat>>;

/// a scripted body: queue of events, the pull probe, and the timer of a `t<ms>` item in progress
struct Script {
    q: VecDeque<Ev>,
    probe: Probe,
    sleep: Option<Pin<Box<tokio::time::Sleep>>>,
}

impl Script {
    fn new(q: VecDeque<Ev>, probe: &Probe) -> Self {
        Script { q, probe: probe.clone(), sleep: None }
    }

    fn poll(&mut self, cx: &mut Context<'_>) -> Poll<Option<Result<Bytes, std::io::Error>>> {
        loop {
            if let Some(sl) = self.sleep.as_mut() {
                match sl.as_mut().poll(cx) {
                    Poll::Pending => return Poll::Pending,
                    Poll::Ready(()) => self.sleep = None,
                }
            }
            return match self.q.pop_front() {
                None => Poll::Ready(None),
                Some(Ev::Chunk(b)) => {
                    let mut p = self.probe.borrow_mut();
                    p.bytes += b.len();
                    p.last = b.len();
                    p.chunks += 1;
                    Poll::Ready(Some(Ok(b)))
                }
                Some(Ev::Pend) => {
                    cx.waker().wake_by_ref();
                    Poll::Pending
                }
                Some(Ev::Sleep(ms)) => {
                    self.sleep = Some(Box::pin(tokio::time::sleep(Duration::from_millis(ms))));
                    continue;
                }
                Some(Ev::Err) => {
                    self.q.clear();
                    Poll::Ready(Some(Err(std::io::Error::new(std::io::ErrorKind::Other, "scripted body error"))))
                }
            };
        }
    }
}

/// a `Stream` for BodyStream / SizedStream
struct ScriptStream(Script);

impl Stream for ScriptStream {
    type Item = Result<Bytes, std::io::Error>;
    fn poll_next(self: Pin<&mut Self>, cx: &mut Context<'_>) -> Poll<Option<Self::Item>> {
        self.get_mut().0.poll(cx)
    }
}

/// a `MessageBody` that hands its chunks (including empty ones) to the sender unfiltered
struct RawBody {
    size: BodySize,
    s: Script,
}

impl MessageBody for RawBody {
    type Error = std::io::Error;
    fn size(&self) -> BodySize {
        self.size
    }
    fn poll_next(self: Pin<&mut Self>, cx: &mut Context<'_>) -> Poll<Option<Result<Bytes, Self::Error>>> {
        self.get_mut().s.poll(cx)
    }
}

use std::future::Future as _;

fn build_response(k: usize, s: &Spec, probe: &Probe) -> Response<BoxBody> {
    let mut rb = Response::build(StatusCode::from_u16(s.status).unwrap_or(StatusCode::OK));
    for (n, v) in &s.hdrs {
        rb.append_header((n.as_str(), v.as_str()));
    }
    let tot = total(&s.items);
    let body = match s.kind {
        Kind::None => BoxBody::new(actix_http::body::None::new()),
        Kind::Unit => BoxBody::new(()),
        Kind::Bytes => BoxBody::new(content(k, 0, tot)),
        Kind::SizedStream => BoxBody::new(SizedStream::new(tot as u64, ScriptStream(Script::new(script(k, &s.items), probe)))),
        Kind::BodyStream => BoxBody::new(BodyStream::new(ScriptStream(Script::new(script(k, &s.items), probe)))),
        Kind::RawStream => BoxBody::new(RawBody { size: BodySize::Stream, s: Script::new(script(k, &s.items), probe) }),
        Kind::RawSized => BoxBody::new(RawBody { size: BodySize::Sized(tot as u64), s: Script::new(script(k, &s.items), probe) }),
    };
    rb.message_body(body).unwrap_or_else(|_| Response::new(StatusCode::INTERNAL_SERVER_ERROR).map_into_boxed_body())
}

// ---------------------------------------------------------------------------------------------
// the run

#[derive(Clone, Debug, Default)]
struct Got {
    status: u16,
    hdrs: Vec<(String, String)>,
    body: Vec<u8>,
    end: &'static str,
    head_seen: bool,
    detail: String,
    pulled: PullStat,
}

const STALL_LIMIT: usize = 40;
/// real (wall-clock) time after which a case is abandoned whatever the code under test does
const REAL_LIMIT: Duration = Duration::from_secs(8);

/// virtual milliseconds the stream's own body is scripted to stay quiet
fn own_sleep_ms(s: &Spec) -> usize {
    s.items.iter().map(|i| if let Item::Sleep(ms) = i { *ms as usize } else { 0 }).sum()
}

async fn client_stream(
    spec: Spec,
    resp: h2::client::ResponseFuture,
    mut tx: h2::SendStream<Bytes>,
    got: Rc<RefCell<Got>>,
) {
    // request body (POST): send as capacity allows
    if let Some(n) = spec.post {
        let mut rest = Bytes::from(vec![0x55u8; n]);
        while !rest.is_empty() {
            tx.reserve_capacity(rest.len());
            match tokio::time::timeout(Duration::from_secs(30), std::future::poll_fn(|cx| tx.poll_capacity(cx))).await {
                Err(_) => {
                    // the server never reopened its receive window
                    let mut g = got.borrow_mut();
                    g.end = "hang";
                    g.detail = format!("request body upload stalled with {} bytes left", rest.len());
                    return;
                }
                Ok(Some(Ok(c))) => {
                    let part = rest.split_to(c.min(rest.len()));
                    if tx.send_data(part, false).is_err() {
                        break;
                    }
                }
                Ok(_) => break,
            }
        }
        let _ = tx.send_data(Bytes::new(), true);
    }
    let resp = match tokio::time::timeout(Duration::from_secs(30), resp).await {
        Err(_) => {
            got.borrow_mut().end = "hang";
            return;
        }
        Ok(Err(e)) => {
            let mut g = got.borrow_mut();
            g.end = "err";
            g.detail = format!("response: {e}");
            return;
        }
        Ok(Ok(r)) => r,
    };
    let (parts, mut body) = resp.into_parts();
    {
        let mut g = got.borrow_mut();
        g.head_seen = true;
        g.status = parts.status.as_u16();
        for (n, v) in parts.headers.iter() {
            g.hdrs.push((n.as_str().to_owned(), String::from_utf8_lossy(v.as_bytes()).into_owned()));
        }
    }
    if spec.reset_at == Some(0) {
        tx.send_reset(h2::Reason::CANCEL);
        got.borrow_mut().end = "rst";
        return;
    }
    let mut unreleased = 0usize;
    let mut stalls = 0usize;
    loop {
        match tokio::time::timeout(Duration::from_millis(spec.delay_ms.max(1)), body.data()).await {
            Ok(Some(Ok(chunk))) => {
                stalls = 0;
                unreleased += chunk.len();
                let n = {
                    let mut g = got.borrow_mut();
                    g.body.extend_from_slice(&chunk);
                    g.body.len()
                };
                if let Some(k) = spec.reset_at {
                    if n >= k {
                        tx.send_reset(h2::Reason::CANCEL);
                        got.borrow_mut().end = "rst";
                        return;
                    }
                }
                let rel = !spec.hold
                    && match spec.batch {
                        None => true,
                        Some(b) => unreleased >= b,
                    };
                if rel && unreleased > 0 {
                    let _ = body.flow_control().release_capacity(unreleased);
                    unreleased = 0;
                }
            }
            Ok(Some(Err(e))) => {
                let mut g = got.borrow_mut();
                g.end = "err";
                g.detail = format!("data: {e}");
                return;
            }
            Ok(None) => {
                got.borrow_mut().end = "eos";
                return;
            }
            Err(_) => {
                // the whole connection was idle for `delay` of virtual time
                if spec.hold {
                    stalls += 1;
                    if stalls * (spec.delay_ms.max(1) as usize) >= 5_000 + own_sleep_ms(&spec) {
                        tx.send_reset(h2::Reason::CANCEL);
                        got.borrow_mut().end = "held";
                        return;
                    }
                } else if unreleased > 0 {
                    let _ = body.flow_control().release_capacity(unreleased);
                    unreleased = 0;
                    stalls = 0;
                } else {
                    stalls += 1;
                    let quiet = own_sleep_ms(&spec);
                    let d = spec.delay_ms.max(1) as usize;
                    if stalls * d >= STALL_LIMIT * 1000 + quiet || stalls >= 2000 + quiet / d {
                        got.borrow_mut().end = "hang";
                        return;
                    }
                }
            }
        }
    }
}

type PollLog = Rc<RefCell<Vec<(usize, usize, usize)>>>;

/// `Model.H2.adjustSize` + `isEof` (only what decides whether there is a body phase)
fn raw_body_phase(s: &Spec) -> bool {
    if s.head || s.status == 204 || s.status == 304 {
        return false;
    }
    match s.kind {
        Kind::None | Kind::Unit => false,
        Kind::Bytes | Kind::SizedStream | Kind::RawSized => total(&s.items) != 0,
        Kind::BodyStream | Kind::RawStream => true,
    }
}

/// `Model.H2.sendBody` / `sendChunk` transliterated, against a real `h2` stream; logs (stream, reserved, granted)
async fn raw_handle(k: usize, s: Spec, mut tx: h2::server::SendResponse<Bytes>, log: PollLog) {
    let phase = raw_body_phase(&s);
    let res = http::Response::builder().status(s.status).body(()).unwrap();
    let Ok(mut stream) = tx.send_response(res, !phase) else { return };
    if !phase {
        return;
    }
    let items: Vec<Ev> = match s.kind {
        Kind::Bytes => vec![Ev::Chunk(content(k, 0, total(&s.items)))],
        _ => script(k, &s.items).into_iter().collect(),
    };
    for it in items {
        let mut chunk = match it {
            Ev::Pend => {
                tokio::task::yield_now().await;
                continue;
            }
            Ev::Sleep(ms) => {
                tokio::time::sleep(Duration::from_millis(ms)).await;
                continue;
            }
            Ev::Err => return,
            Ev::Chunk(b) => b,
        };
        if chunk.is_empty() {
            continue;
        }
        loop {
            let want = chunk.len().min(16_384);
            stream.reserve_capacity(want);
            match std::future::poll_fn(|cx| stream.poll_capacity(cx)).await {
                None => return,
                Some(Err(_)) => return,
                Some(Ok(cap)) => {
                    log.borrow_mut().push((k, want, cap));
                    let n = chunk.len().min(cap);
                    if stream.send_data(chunk.split_to(n), false).is_err() {
                        return;
                    }
                    if chunk.is_empty() {
                        break;
                    }
                }
            }
        }
    }
    let _ = stream.send_data(Bytes::new(), true);
}

async fn raw_server(io: tokio::io::DuplexStream, specs: Rc<Vec<Spec>>, sw: u32, log: PollLog) {
    let mut b = h2::server::Builder::new();
    b.initial_window_size(sw);
    let Ok(mut conn) = b.handshake::<_, Bytes>(io).await else { return };
    while let Some(Ok((req, tx))) = conn.accept().await {
        let k: usize = req.uri().path().trim_start_matches('/').parse().unwrap_or(0);
        let Some(spec) = specs.get(k).cloned() else { continue };
        let log = log.clone();
        actix_rt::spawn(async move {
            let mut body = req.into_body();
            while let Some(Ok(d)) = body.data().await {
                let _ = body.flow_control().release_capacity(d.len());
            }
            raw_handle(k, spec, tx, log).await;
        });
    }
}

async fn scenario(case: Case) -> (Vec<Got>, Vec<(usize, usize, usize)>) {
    let log: PollLog = Rc::new(RefCell::new(Vec::new()));
    let gots = scenario_inner(case, log.clone()).await;
    let polls = log.borrow().clone();
    (gots, polls)
}

async fn scenario_inner(case: Case, log: PollLog) -> Vec<Got> {
    tokio::time::pause();
    let specs = Rc::new(case.streams.clone());
    let hspecs = specs.clone();
    let probes: Rc<Vec<Probe>> = Rc::new(specs.iter().map(|_| Probe::default()).collect());
    let hprobes = probes.clone();
    let factory = HttpService::build()
        .keep_alive(KeepAlive::Disabled)
        .client_request_timeout(Duration::ZERO)
        .client_disconnect_timeout(Duration::ZERO)
        .h2_initial_window_size(case.sw)
        .h2(fn_service(move |mut req: Request| {
            let specs = hspecs.clone();
            let probes = hprobes.clone();
            async move {
                let k: usize = req.path().trim_start_matches('/').parse().unwrap_or(0);
                let spec = specs.get(k).cloned();
                if req.method() == actix_http::Method::POST {
                    // read the request body to its end (Payload::poll_next releases the window)
                    let mut pl = req.take_payload();
                    while let Some(item) = pl.next().await {
                        if item.is_err() {
                            break;
                        }
                    }
                }
                let res = match spec {
                    Some(s) => build_response(k, &s, &probes[k]),
                    None => Response::new(StatusCode::NOT_FOUND).map_into_boxed_body(),
                };
                Ok::<_, Infallible>(res)
            }
        }));
    let svc = match factory.new_service(()).await {
        Ok(s) => s,
        Err(_) => return vec![],
    };
    let (cio, sio) = tokio::io::duplex(case.pipe);
    let server = if case.raw {
        actix_rt::spawn(raw_server(sio, specs.clone(), case.sw, log))
    } else {
        actix_rt::spawn(async move {
            let _ = svc.call((sio, None)).await;
        })
    };
    let gots: Vec<Rc<RefCell<Got>>> = specs.iter().map(|_| Rc::new(RefCell::new(Got::default()))).collect();
    let hs = h2::client::Builder::new()
        .initial_window_size(case.w)
        .initial_connection_window_size(case.cw)
        .handshake::<_, Bytes>(cio);
    let (mut send_req, conn) = match tokio::time::timeout(Duration::from_secs(30), hs).await {
        Ok(Ok(x)) => x,
        _ => {
            return gots
                .iter()
                .map(|g| {
                    let mut g = g.borrow().clone();
                    g.end = "hang";
                    g.detail = "handshake".into();
                    g
                })
                .collect()
        }
    };
    let conn_task = actix_rt::spawn(async move {
        let _ = conn.await;
    });
    let mut tasks = Vec::new();
    // done[k]: the client is finished with stream k (for `q<j>` sequencing)
    let done: Rc<Vec<(std::cell::Cell<bool>, tokio::sync::Notify)>> =
        Rc::new(specs.iter().map(|_| (std::cell::Cell::new(false), tokio::sync::Notify::new())).collect());
    for (k, spec) in specs.iter().enumerate() {
        let method = if spec.head {
            http::Method::HEAD
        } else if spec.post.is_some() {
            http::Method::POST
        } else {
            http::Method::GET
        };
        let req = http::Request::builder().method(method).uri(format!("http://localhost/{k}")).body(()).unwrap();
        let (spec, got, done, mut send_req) = (spec.clone(), gots[k].clone(), done.clone(), send_req.clone());
        tasks.push(actix_rt::spawn(async move {
            if let Some(j) = spec.after.filter(|j| *j < k) {
                let wait = async {
                    while !done[j].0.get() {
                        done[j].1.notified().await;
                    }
                };
                let _ = tokio::time::timeout(Duration::from_secs(500), wait).await;
            }
            let ready = tokio::time::timeout(Duration::from_secs(30), std::future::poll_fn(|cx| send_req.poll_ready(cx))).await;
            if !matches!(ready, Ok(Ok(()))) {
                let mut g = got.borrow_mut();
                g.end = "hang";
                g.detail = "send_request not ready".into();
            } else {
                match send_req.send_request(req, spec.post.is_none()) {
                    Ok((resp, tx)) => client_stream(spec, resp, tx, got).await,
                    Err(e) => {
                        let mut g = got.borrow_mut();
                        g.end = "err";
                        g.detail = format!("send_request: {e}");
                    }
                }
            }
            done[k].0.set(true);
            done[k].1.notify_waiters();
        }));
    }
    // belt and braces: no case may block the run, whatever the code under test does
    let budget = 600 + specs.iter().map(|s| own_sleep_ms(s) as u64 / 1000 + 1).sum::<u64>();
    let _ = tokio::time::timeout(Duration::from_secs(budget), async {
        for t in tasks.iter_mut() {
            let _ = t.await;
        }
    })
    .await;
    for t in &tasks {
        t.abort();
    }
    // let what the client queued last (an RST_STREAM, a window update) reach the server and be acted upon
    tokio::time::sleep(Duration::from_millis(20)).await;
    drop(send_req);
    conn_task.abort();
    server.abort();
    gots.iter()
        .zip(probes.iter())
        .map(|(g, p)| {
            let mut g = g.borrow().clone();
            if g.end.is_empty() {
                g.end = "hang";
            }
            g.pulled = p.borrow().clone();
            g
        })
        .collect()
}

// ---------------------------------------------------------------------------------------------
// canonical output + oracle

fn is_http_date(v: &str) -> bool {
    v.len() == 29 && v.ends_with(" GMT")
}

fn show_headers(h: &[(String, String)]) -> String {
    let mut idx: Vec<usize> = (0..h.len()).collect();
    idx.sort_by(|&a, &b| h[a].0.cmp(&h[b].0).then(a.cmp(&b)));
    let parts: Vec<String> = idx
        .iter()
        .map(|&i| {
            let (n, v) = &h[i];
            if n == "date" && is_http_date(v) {
                "date=@".to_owned()
            } else {
                format!("{n}={v}")
            }
        })
        .collect();
    if parts.is_empty() {
        "-".to_owned()
    } else {
        parts.join(",")
    }
}

fn show(k: usize, s: &Spec, g: &Got, raw: bool) -> String {
    let show_headers = |h: &[(String, String)]| if raw { "*".to_owned() } else { show_headers(h) };
    // a stream that is both reset by the client and failed by its body ends whichever comes first
    let racy = s.reset_at.is_some() && s.items.contains(&Item::Err);
    match g.end {
        "eos" => format!("{k}={}|{}|{}|{:08x}|eos", g.status, show_headers(&g.hdrs), g.body.len(), fnv32(&g.body)),
        "rst" | "err" | "held" if g.head_seen => {
            format!("{k}={}|{}|{}", g.status, show_headers(&g.hdrs), if racy { "abort" } else { g.end })
        }
        e => format!("{k}={e}"),
    }
}

const CONN_SPECIFIC: &[&str] = &["connection", "transfer-encoding", "upgrade", "keep-alive", "proxy-connection"];

fn bodiless(status: u16) -> bool {
    (100..200).contains(&status) || status == 204 || status == 304
}

/// The property's own words evaluated on what the client saw, from the handler script alone.
fn oracle(k: usize, s: &Spec, g: &Got, raw: bool, w: usize) -> Option<(String, String)> {
    // what the handler's body produces
    let err_at = s.items.iter().position(|i| *i == Item::Err);
    let good = &s.items[..err_at.unwrap_or(s.items.len())];
    let produced: Vec<u8> = match s.kind {
        Kind::None | Kind::Unit => vec![],
        Kind::Bytes => content(k, 0, total(&s.items)).to_vec(),
        _ => content(k, 0, total(good)).to_vec(),
    };
    // a body that declares `Sized(0)` is empty by declaration and is never polled
    let declared_empty = matches!(s.kind, Kind::SizedStream | Kind::RawSized) && total(&s.items) == 0;
    let body_fails = err_at.is_some() && !matches!(s.kind, Kind::None | Kind::Unit | Kind::Bytes) && !declared_empty;
    let no_body = s.head || bodiless(s.status);
    let f = |sig: &str, d: String| Some((sig.to_owned(), format!("stream {k}: {d}")));
    if g.end == "hang" {
        return f("hang", format!("stream never completed ({})", g.detail));
    }
    if g.head_seen && !raw {
        if g.status != s.status {
            return f("status", format!("got {} want {}", g.status, s.status));
        }
        for (n, _) in &g.hdrs {
            if CONN_SPECIFIC.contains(&n.as_str()) {
                return f("conn-header", format!("connection-specific header `{n}` on an HTTP/2 response"));
            }
        }
        // "well-described": every header the handler set, other than the connection-specific ones and
        // content-length, reaches the client with the same values in the same order; a date is always there
        let mut names: Vec<&str> = s.hdrs.iter().map(|(n, _)| n.as_str()).collect();
        names.sort();
        names.dedup();
        for n in names {
            if CONN_SPECIFIC.contains(&n) || n == "content-length" {
                continue;
            }
            let want: Vec<&str> = s.hdrs.iter().filter(|(m, _)| m == n).map(|(_, v)| v.as_str()).collect();
            let have: Vec<&str> = g.hdrs.iter().filter(|(m, _)| m == n).map(|(_, v)| v.as_str()).collect();
            if want != have {
                return f("handler-header", format!("handler set `{n}` = {want:?}, client received {have:?}"));
            }
        }
        if !g.hdrs.iter().any(|(n, _)| n == "date") {
            return f("no-date", "response without a date header".into());
        }
        // content-length, when one is sent, describes the handler's body
        let cls: Vec<&String> = g.hdrs.iter().filter(|(n, _)| n == "content-length").map(|(_, v)| v).collect();
        let declared = match s.kind {
            Kind::Bytes => total(&s.items),
            Kind::None | Kind::Unit => 0,
            _ => total(&s.items),
        };
        for v in &cls {
            // 304: a handler-set content-length describes the representation a 200 would carry, not the
            // (never sent) body of this response; it is passed through (same rule as the HTTP/1 encoder)
            if s.status == 304 {
                continue;
            }
            if v.parse::<usize>().ok() != Some(declared) {
                return f("content-length", format!("content-length {v} but the handler's body has {declared} bytes"));
            }
        }
        if cls.len() > 1 {
            return f("content-length", format!("{} content-length headers", cls.len()));
        }
    }
    if !produced.starts_with(&g.body) && !no_body {
        return f("body-bytes", format!("received {} bytes that are not a prefix of the handler's {} bytes", g.body.len(), produced.len()));
    }
    match g.end {
        "eos" => {
            if s.hold && !no_body && produced.len() > w {
                return f("window-overrun", format!("{} bytes delivered through a window of {w} that was never reopened", g.body.len()));
            }
            if no_body {
                if !g.body.is_empty() {
                    return f("body-on-bodiless", format!("{} body bytes on a {} response to {}", g.body.len(), s.status, if s.head { "HEAD" } else { "GET" }));
                }
            } else if body_fails {
                return f("truncated-looks-complete", format!("handler body failed after {} bytes but the stream ended cleanly", produced.len()));
            } else if g.body != produced {
                return f("body-bytes", format!("received {} bytes, handler produced {}", g.body.len(), produced.len()));
            }
            None
        }
        "rst" | "held" if !raw && g.pulled.bytes.saturating_sub(g.pulled.last) > g.body.len() + w => {
            // Every chunk but the last one pulled has been handed to h2 completely, and h2 accepts no more than
            // the window the client opened: initial window + what it released (<= what it received). More than
            // that means the sender went on pulling the body of a stream that was already gone.
            f(
                "pulled-after-reset",
                format!(
                    "the sender pulled {} chunks / {} bytes from the body although the client reset the stream after {} bytes (window {w})",
                    g.pulled.chunks,
                    g.pulled.bytes,
                    g.body.len()
                ),
            )
        }
        "held" => {
            // the client withheld the window: legitimate only if the body does not fit into it
            if !s.hold || no_body || produced.len() <= w {
                return f("stalled", format!("stream stalled after {} of {} bytes with an open window of {w}", g.body.len(), produced.len()));
            }
            None
        }
        "rst" => {
            if s.reset_at.is_none() {
                return f("unexpected-reset", "client did not reset this stream".into());
            }
            None
        }
        "err" => {
            if body_fails && !no_body {
                None
            } else {
                f("stream-error", format!("client saw a stream error on a healthy stream: {}", g.detail))
            }
        }
        e => f("end", format!("unknown end state {e}")),
    }
}

fn run(line: &str) -> CaseResult {
    let Some(case) = parse_case(line) else {
        return CaseResult { output: "bad-case".into(), fail: None, nontrivial: false, tags: vec!["bad-case".into()] };
    };
    let c2 = case.clone();
    // Virtual time only moves when the runtime is idle: a livelock (tasks that keep waking each other) would
    // never let a virtual timeout fire. A watchdog thread with a REAL deadline wakes the root future, which
    // then abandons the case.
    let flag = std::sync::Arc::new(std::sync::atomic::AtomicBool::new(false));
    let slot: std::sync::Arc<std::sync::Mutex<Option<std::task::Waker>>> = Default::default();
    let (f2, s2) = (flag.clone(), slot.clone());
    let dog = std::thread::spawn(move || {
        let t0 = std::time::Instant::now();
        while t0.elapsed() < REAL_LIMIT {
            std::thread::park_timeout(Duration::from_millis(200));
            if f2.load(std::sync::atomic::Ordering::SeqCst) {
                return; // case finished
            }
        }
        f2.store(true, std::sync::atomic::Ordering::SeqCst);
        if let Some(w) = s2.lock().unwrap().take() {
            w.wake();
        }
    });
    let (f3, s3) = (flag.clone(), slot.clone());
    let n_streams = case.streams.len();
    let (gots, polls) = crate::common::block_on_system(async move {
        let mut fut = Box::pin(scenario(c2));
        std::future::poll_fn(move |cx| {
            if f3.load(std::sync::atomic::Ordering::SeqCst) {
                let g = Got { end: "hang", detail: "livelock: no virtual-time progress within the real-time limit".into(), ..Got::default() };
                return Poll::Ready((vec![g; n_streams], Vec::new()));
            }
            *s3.lock().unwrap() = Some(cx.waker().clone());
            fut.as_mut().poll(cx)
        })
        .await
    });
    flag.store(true, std::sync::atomic::Ordering::SeqCst);
    dog.thread().unpark();
    let _ = dog.join();
    if gots.len() != case.streams.len() {
        return CaseResult { output: "setup-failed".into(), fail: Some(("setup".into(), "service could not be built".into())), nontrivial: false, tags: vec![] };
    }
    let out: Vec<String> = gots.iter().enumerate().map(|(k, g)| show(k, &case.streams[k], g, case.raw)).collect();
    let mut res = CaseResult::ok(if out.is_empty() { "-".to_owned() } else { out.join(";") });
    res.nontrivial = gots.iter().any(|g| !g.body.is_empty());
    for (k, (s, g)) in case.streams.iter().zip(&gots).enumerate() {
        if let Some((sig, d)) = oracle(k, s, g, case.raw, case.w as usize) {
            res = res.fail(&sig, d);
        }
        res.tags.push(format!("end:{}", g.end));
        res.tags.push(format!("kind:{:?}", s.kind));
    }
    if case.raw {
        // the assumptions `OracleContract.positive` / `.bounded` of Props/C08.lean, on the real h2 crate
        for (k, want, cap) in &polls {
            if *cap < 1 || cap > want {
                res = res.fail("h2-contract", format!("stream {k}: reserve_capacity({want}) answered by poll_capacity -> {cap}"));
            }
        }
        res.tags.push("mode:raw-h2-contract".into());
        if polls.iter().any(|(_, want, cap)| cap < want) {
            res.tags.push("contract:partial-grant-seen".into());
        }
        res.tags.push(format!("contract-polls:{}", match polls.len() { 0 => "0", 1..=9 => "1-9", 10..=99 => "10-99", _ => "100+" }));
    }
    res.tags.push(format!("streams:{}", case.streams.len()));
    res.tags.push(format!("w:{}", case.w));
    res
}

// ---------------------------------------------------------------------------------------------
// generator

const HDR_POOL: &[&str] = &[
    "connection=close",
    "connection=keep-alive",
    "transfer-encoding=chunked",
    "upgrade=h2c",
    "keep-alive=timeout5",
    "proxy-connection=keep-alive",
    "x-a=1",
    "x-a=2",
    "x-b=3",
    "content-type=text/plain",
    "date=d1",
    "cache-control=no-store",
];

fn gen_stream(rng: &mut Rng, w: usize, big: bool, hold_ok: bool) -> String {
    let method = match rng.below(20) {
        0..=2 => "H".to_owned(),
        3 => format!("P{}", *rng.pick(&[0usize, 10, 3000])),
        _ => "G".to_owned(),
    };
    let status = *rng.pick(&[200u16, 200, 200, 200, 200, 201, 206, 404, 500, 204, 204, 304, 304]);
    let kind = *rng.pick(&["n", "u", "b", "b", "ss", "ss", "bs", "bs", "bs", "xs", "xs", "xs", "xz", "xz"]);
    let streaming = matches!(kind, "ss" | "bs" | "xs" | "xz");
    let reset = rng.chance(1, 8);
    // chunk lengths around the window and CHUNK_SIZE; bounded by what a tiny window can move in reasonable time
    let cap: usize = if w <= 7 { 120 } else if w < 1000 { 2000 } else if big { 140_000 } else { 40_000 };
    let lens: Vec<usize> = [0, 0, 1, 2, 5, w.saturating_sub(1), w, w + 1, 2 * w + 3, 100, 16_383, 16_384, 16_385, 32_768, 65_535, 65_536, 100_000]
        .iter()
        .copied()
        .filter(|n| *n <= cap)
        .collect();
    let n_items = if kind == "n" || kind == "u" { 0 } else if kind == "b" { 1 } else { rng.below(7) };
    let mut items: Vec<String> = Vec::new();
    let mut tot = 0usize;
    let mut has_err = false;
    for _ in 0..n_items {
        let r = rng.below(20);
        if streaming && r < 3 {
            items.push("p".into());
        } else if streaming && r == 3 && !reset {
            items.push("e".into());
            has_err = true;
            break;
        } else {
            let n = *rng.pick(&lens);
            if tot + n <= 2 * cap {
                tot += n;
                items.push(n.to_string());
            }
        }
    }
    let _ = has_err;
    let mut hdrs: Vec<String> = Vec::new();
    for _ in 0..rng.below(5) {
        hdrs.push((*rng.pick(HDR_POOL)).to_owned());
    }
    if rng.chance(1, 4) {
        // a handler-set content-length: the truth for stream-sized bodies (kept), a lie for sized ones (replaced)
        if matches!(kind, "bs" | "xs") || status == 304 {
            hdrs.push(format!("content-length={tot}"));
        } else {
            hdrs.push(format!("content-length={}", tot + 3));
        }
    }
    let mut client: Vec<String> = Vec::new();
    match rng.below(4) {
        0 | 1 => client.push("a".into()),
        2 => client.push(format!("b{}", *rng.pick(&[1usize, 5, w / 2 + 1, w, 3 * w, 1_000_000]))),
        _ => client.push("b1000000".into()),
    }
    if rng.chance(1, 3) {
        client.push(format!("d{}", *rng.pick(&[1u64, 3, 50, 500])));
    }
    if reset {
        client.push(format!("r{}", *rng.pick(&[0usize, 1, tot / 2, tot, tot + 1])));
    } else if hold_ok && rng.chance(1, 8) {
        client = vec!["h".to_owned()];
    }
    format!(
        "s:{method}:{status}:{kind}:{}:{}:{}",
        if items.is_empty() { "-".to_owned() } else { items.join(".") },
        if hdrs.is_empty() { "-".to_owned() } else { hdrs.join(",") },
        client.join(".")
    )
}

fn gen(ctx: &Ctx) -> Vec<String> {
    let mut rng = Rng::new(ctx.seed);
    let mut cases = Vec::new();
    // systematic part: every body kind x status class x method x window, fixed small scripts
    for w in [1usize, 7, 16_384, 65_535] {
        for kind in ["n", "u", "b", "ss", "bs", "xs", "xz"] {
            for status in [200u16, 204, 304] {
                for m in ["G", "H"] {
                    let items = match kind {
                        "n" | "u" => "-",
                        "b" => "40",
                        _ => "5.0.p.30.0.4",
                    };
                    // a handler-set content-length: a lie on sized bodies (must be replaced), the truth on stream bodies (kept)
                    let cl = if matches!(kind, "bs" | "xs") { 39 } else { 9 };
                    cases.push(format!("w={w} s:{m}:{status}:{kind}:{items}:connection=close,x-a=1,content-length={cl},x-a=2:a"));
                }
            }
        }
        // chunk sizes around the window and around CHUNK_SIZE, released only when stalled
        for n in [w.saturating_sub(1).max(1), w, w + 1, 2 * w + 1] {
            if n <= 140_000 {
                cases.push(format!("w={w} s:G:200:xs:{n}.{n}:-:b1000000 s:G:200:b:{n}:-:a"));
            }
        }
    }
    // long always-ready bodies reset by the peer mid-body, with a sibling that runs concurrently and a request
    // that is only sent after the reset: the sender must stop pulling the body and the others must be answered
    for (w, kind, rep, r) in [
        (7usize, "xs", "20000x8", 20usize),
        (100, "bs", "3000x50", 1),
        (16_384, "xz", "20000x8", 40_000),
        (65_535, "ss", "4000x40", 0),
        (7, "xs", "p.3000x1.p.3000x1", 5),
    ] {
        cases.push(format!("w={w} s:G:200:{kind}:{rep}:-:a.r{r} s:G:200:b:40:-:a s:G:200:xs:5.0.3:-:a.q0"));
        cases.push(format!("w={w} s:G:200:{kind}:{rep}:-:h s:G:200:b:40:-:a.q0"));
    }
    cases.push("w=65535 cw=1000000 s:G:200:xs:20000x8:-:a s:G:200:bs:3000x50:-:b1000000".to_owned());
    // k trickling streams (a small chunk, then quiet for a minute of virtual time: SSE / long poll) must not pin
    // the peer's connection window: a sibling with a ready body completes long before they do
    for (w, k, slow, fast) in [
        (65_535usize, 4usize, "xs:1.t60000", "b:1024"),
        (65_535, 6, "bs:10.t60000.10", "xs:30000.30000"),
        (16_384, 5, "xs:1.t60000.1", "b:20000"),
        (1 << 20, 5, "ss:100.t60000.100", "xz:5.0.3"),
        (65_535, 8 - 1, "xs:p.1.t45000.t45000", "bs:7.0.9"),
    ] {
        let mut toks = vec![format!("w={w}")];
        for _ in 0..k {
            toks.push(format!("s:G:200:{slow}:-:a.d500"));
        }
        toks.push(format!("s:G:200:{fast}:-:a"));
        cases.push(toks.join(" "));
    }
    for n in [16_383usize, 16_384, 16_385, 32_768, 32_769, 49_153] {
        cases.push(format!("w=1000000 cw=1000000 s:G:200:xs:{n}:-:a s:G:200:xz:{n}.1:-:b1000000"));
    }
    // random part
    let n = match ctx.tier {
        Tier::Quick => 3000,
        _ => ctx.budget(3000),
    };
    for i in 0..n {
        let w = match rng.below(12) {
            0 | 1 => 1usize,
            2 | 3 => 7,
            4 | 5 | 6 => 16_384,
            7 | 8 | 9 => 65_535,
            _ => *rng.pick(&[2usize, 100, 16_383, 16_385, 70_000, 1 << 20]),
        };
        let mut toks = vec![format!("w={w}")];
        if rng.chance(1, 3) {
            toks.push(format!("cw={}", *rng.pick(&[1000u32, 65_535, 70_000, 1 << 20])));
        }
        if rng.chance(1, 3) {
            toks.push(format!("pipe={}", *rng.pick(&[17usize, 64, 1024, 16_384])));
        }
        if rng.chance(1, 6) {
            toks.push(format!("sw={}", *rng.pick(&[1u32, 100, 1000])));
        }
        if rng.chance(1, 6) {
            toks.push("raw".to_owned());
        }
        if rng.chance(1, 30) {
            // the trickling-siblings family, randomised (default connection window)
            let w = *rng.pick(&[16_384usize, 65_535, 70_000, 1 << 20]);
            let mut toks = vec![format!("w={w}")];
            let k = rng.range(4, 7);
            let kind = *rng.pick(&["xs", "bs", "ss", "xz"]);
            let first = *rng.pick(&[1usize, 10, 1000]);
            let tail = *rng.pick(&["", ".5", ".0.3"]);
            for _ in 0..k {
                toks.push(format!("s:G:200:{kind}:{first}.t{}{tail}:-:a.d500", *rng.pick(&[50_000u64, 60_000])));
            }
            let fast = *rng.pick(&["b:1024", "b:40000", "xs:30000.30000", "bs:7.0.9", "xz:16385"]);
            toks.push(format!("s:G:200:{fast}:-:a"));
            cases.push(toks.join(" "));
            continue;
        }
        if rng.chance(1, 10) {
            // the reset-mid-long-body family, randomised
            let kind = *rng.pick(&["xs", "xs", "bs", "ss", "xz"]);
            let (cnt, len) = *rng.pick(&[(20_000usize, 8usize), (3000, 50), (6000, 1), (1500, 100)]);
            let r = *rng.pick(&[0usize, 1, w / 2 + 1, w, 3 * w + 1]);
            let r = r.min(cnt * len / 2);
            let pre = if rng.chance(1, 3) { "p." } else { "" };
            let cl = if rng.chance(1, 4) { "b1000000" } else { "a" };
            toks.push(format!("s:G:200:{kind}:{pre}{cnt}x{len}:-:{cl}.r{r}"));
            let follow = if rng.chance(1, 2) { ".q0" } else { "" };
            toks.push(format!("s:G:200:b:{}:-:a{follow}", *rng.pick(&[0usize, 10, 300])));
            if rng.chance(1, 2) {
                toks.push(format!("s:{}:200:xs:5.0.3:x-a=1:a.q0", if rng.chance(1, 4) { "H" } else { "G" }));
            }
            cases.push(toks.join(" "));
            continue;
        }
        let ns = rng.range(1, 4);
        let big = i % 8 == 0;
        // a stream whose window is never reopened: at most one, and only where it cannot exhaust the
        // connection-level window that its siblings share (that would be HTTP/2's doing, not actix's)
        let mut hold_ok = w <= 16_384 && !toks.iter().any(|t| t.starts_with("cw="));
        for _ in 0..ns {
            let t = gen_stream(&mut rng, w, big, hold_ok);
            if t.ends_with(":h") {
                hold_ok = false;
            }
            toks.push(t);
        }
        cases.push(toks.join(" "));
    }
    cases
}

pub fn prop() -> Prop {
    Prop { rule: RULE, parallel: true, gen: Box::new(gen), run: Box::new(run) }
}
