//! C09 — app routing picks the first registered match and exposes exactly its parameters.
//!
//! One case = one route table + one or more requests (grammar: `lean/ActixModel/Drv/C09.lean`).
//! The real `App` is built from the table through the public builder API
//! (`web::scope/resource/route`, `.guard`, `.app_data`, `.default_service`), served through
//! `test::init_service`/`call_service`; every handler reports its identity, `match_info()`,
//! `app_data::<Marker>()`, the unprocessed path and `match_pattern()`.
//!
//! Oracle (never looks at the Lean model): a small reference router written from the property
//! sentence (`reference::*`), with its own pattern matcher and its own percent-decoder, plus the
//! generator's ground truth for requests that were built *from* a route of the table
//! (`exp=` annotation).
use std::{collections::HashMap, rc::Rc, sync::Mutex};

use actix_web::{
    dev::{Service, ServiceRequest, ServiceResponse, Transform},
    guard::{self, Guard},
    http::{Method, StatusCode},
    test, web, App, HttpRequest, HttpResponse, Resource, Scope,
};

use super::Prop;
use crate::common::{block_on_system, CaseResult, Ctx, Rng, Tier};

const RULE: &str = "case = one route table (scopes nested up to 3 levels, resources with single / multi patterns \
(static, {name}, {name:\\d+}, tail), App::route sugar, method/header/host/All/Any/Not guards on scopes, resources and \
routes, per-node app_data markers, default services) and 1..24 requests (methods, Host / x-a headers, paths over an \
alphabet with %2F %25 %2B %61, empty segments, trailing slashes, query strings); tables: every table of <= 2 top-level \
nodes over a menu of 6 resource and 4 scope patterns with <= 2 children per scope; every table of <= 2 overlapping top-level nodes over 57 templates combining guards, data, defaults and route sets (x GET/POST x 5 paths); a third exhaustive family with the same marker type registered at up to three levels and read through ServiceRequest::app_data by guards (D~n) and reporting middlewares (w=), and with service factories that are Pending on their first polls (z=, !k) in front of later-registered overlapping services at app, scope and route level; a fourth exhaustive family with literal text containing regex metacharacters after the last dynamic segment (/{name}.json, .v1+x, (a)) x paths differing exactly at such a character; a fifth exhaustive family building the same tables through .configure(|cfg| ..) (children suffix inside the closure; default_service before / after / inside), on app and nested scopes; plus seeded random tables to depth 3 \
with requests derived from a route of the table (and mutations of them) and random requests; a request is non-trivial \
if some service of the table was committed to (a handler, a registered default, a 405, or a non-empty resource path); \
distinct = distinct (case, output) hashes";

// ---------------------------------------------------------------------------------------------
// table AST + parser (shared by the real-code builder and the reference router)
// ---------------------------------------------------------------------------------------------

#[derive(Clone, Debug)]
pub enum G {
    Method(String),
    Header(String, String),
    Host(String),
    All(Vec<G>),
    Any(Vec<G>),
    Not(Box<G>),
    /// `fn_guard(|ctx| ctx.app_data::<Marker>() == Some(n))`: reads app data through `GuardContext`
    Data(u32),
}

#[derive(Clone, Debug)]
pub struct RouteT {
    pub guards: Vec<G>,
    pub handler: u32,
    /// `.wrap(slow k)`: the route's service factory is Pending k times before it is ready
    pub slow: Option<usize>,
}

/// middleware attributes of a scope / resource
#[derive(Clone, Copy, Debug, Default)]
pub struct MwT {
    /// `w=id`: reports the marker it sees through `ServiceRequest::app_data`
    pub report: Option<u32>,
    /// `z=k`: the factory future of the wrapped service is Pending k times
    pub slow: Option<usize>,
}

#[derive(Clone, Debug)]
pub enum NodeT {
    Scope { pat: String, guards: Vec<G>, data: Option<u32>, children: Vec<NodeT>, dflt: Option<u32>, mw: MwT, via: Option<ViaT> },
    Resource { pats: Vec<String>, guards: Vec<G>, data: Option<u32>, routes: Vec<RouteT>, dflt: Option<u32>, mw: MwT },
    /// `App::route(path, route)` / `Scope::route(path, route)`
    RouteSugar { pat: String, route: RouteT },
}

/// `c=<order><k>`: the children from index `k` on are registered through `.configure(|cfg| …)`
#[derive(Clone, Copy, Debug)]
pub struct ViaT {
    /// 'a': `.default_service(..)` is called before `.configure(..)`, 'b': after it,
    /// 'i': the default service and the data are set inside the closure
    pub order: char,
    pub from: usize,
}

#[derive(Clone, Debug)]
pub struct AppT {
    pub data: Option<u32>,
    pub children: Vec<NodeT>,
    pub dflt: Option<u32>,
    pub via: Option<ViaT>,
}

#[derive(Clone, Debug)]
pub struct ReqT {
    pub method: String,
    pub target: String,
    pub headers: Vec<(String, String)>,
    /// generator ground truth: `exp=<handler>:<k=v,..>` — the leaf the path was built from
    pub exp: Option<(u32, Vec<(String, String)>)>,
}

fn atom(s: &str) -> (&str, &str) {
    let end = s.find([',', ')', '&', '>', '~']).unwrap_or(s.len());
    (&s[..end], &s[end..])
}

fn parse_guard(s: &str) -> Option<(G, &str)> {
    if let Some(r) = s.strip_prefix("A(") {
        let (gs, r) = parse_guards(r)?;
        return Some((G::All(gs), r));
    }
    if let Some(r) = s.strip_prefix("Y(") {
        let (gs, r) = parse_guards(r)?;
        return Some((G::Any(gs), r));
    }
    if let Some(r) = s.strip_prefix("N(") {
        let (g, r) = parse_guard(r)?;
        return Some((G::Not(Box::new(g)), r.strip_prefix(')')?));
    }
    if let Some(r) = s.strip_prefix("M~") {
        let (m, r) = atom(r);
        return Some((G::Method(m.to_owned()), r));
    }
    if let Some(r) = s.strip_prefix("D~") {
        let (n, r) = atom(r);
        return Some((G::Data(n.parse().ok()?), r));
    }
    if let Some(r) = s.strip_prefix("O~") {
        let (h, r) = atom(r);
        return Some((G::Host(h.to_owned()), r));
    }
    if let Some(r) = s.strip_prefix("H~") {
        let (k, r) = atom(r);
        let (v, r) = atom(r.strip_prefix('~')?);
        return Some((G::Header(k.to_owned(), v.to_owned()), r));
    }
    None
}

fn parse_guards(mut s: &str) -> Option<(Vec<G>, &str)> {
    let mut out = Vec::new();
    loop {
        let (g, r) = parse_guard(s)?;
        out.push(g);
        if let Some(r) = r.strip_prefix(',') {
            s = r;
        } else {
            return Some((out, r.strip_prefix(')')?));
        }
    }
}

/// `7` or `7!2` (handler id, optional slow-factory count)
fn handler_slow(s: &str) -> Option<(u32, Option<usize>)> {
    match s.split_once('!') {
        Some((h, k)) => Some((h.parse().ok()?, Some(k.parse().ok()?))),
        None => Some((s.parse().ok()?, None)),
    }
}

fn parse_route(t: &str) -> Option<RouteT> {
    if let Some(h) = t.strip_prefix("*>") {
        let (h, slow) = handler_slow(h)?;
        return Some(RouteT { guards: vec![], handler: h, slow });
    }
    let mut guards = Vec::new();
    let mut s = t;
    loop {
        let (g, r) = parse_guard(s)?;
        guards.push(g);
        if let Some(r) = r.strip_prefix('&') {
            s = r;
        } else {
            let (h, slow) = handler_slow(r.strip_prefix('>')?)?;
            return Some(RouteT { guards, handler: h, slow });
        }
    }
}

#[derive(Default)]
struct Attrs {
    guards: Vec<G>,
    data: Option<u32>,
    dflt: Option<u32>,
    mw: MwT,
    via: Option<ViaT>,
}

fn parse_attrs<'a>(toks: &[&'a str], i: &mut usize) -> Option<Attrs> {
    let mut a = Attrs::default();
    while *i < toks.len() {
        let t = toks[*i];
        if let Some(g) = t.strip_prefix("g=") {
            let (g, r) = parse_guard(g)?;
            if !r.is_empty() {
                return None;
            }
            a.guards.push(g);
        } else if let Some(n) = t.strip_prefix("df=") {
            a.dflt = Some(n.parse().ok()?);
        } else if let Some(c) = t.strip_prefix("c=") {
            let order = c.chars().next()?;
            if !matches!(order, 'a' | 'b' | 'i') {
                return None;
            }
            a.via = Some(ViaT { order, from: c[1..].parse().ok()? });
        } else if let Some(n) = t.strip_prefix("w=") {
            a.mw.report = Some(n.parse().ok()?);
        } else if let Some(n) = t.strip_prefix("z=") {
            a.mw.slow = Some(n.parse().ok()?);
        } else if let Some(n) = t.strip_prefix("d=") {
            a.data = Some(n.parse().ok()?);
        } else {
            break;
        }
        *i += 1;
    }
    Some(a)
}

fn parse_nodes(toks: &[&str], i: &mut usize) -> Option<Vec<NodeT>> {
    let mut out = Vec::new();
    loop {
        let t = *toks.get(*i)?;
        *i += 1;
        if t == "}" {
            return Some(out);
        } else if let Some(p) = t.strip_prefix("s:") {
            let a = parse_attrs(toks, i)?;
            if *toks.get(*i)? != "{" {
                return None;
            }
            *i += 1;
            let children = parse_nodes(toks, i)?;
            out.push(NodeT::Scope { pat: p.to_owned(), guards: a.guards, data: a.data, children, dflt: a.dflt, mw: a.mw, via: a.via });
        } else if let Some(p) = t.strip_prefix("r:") {
            let a = parse_attrs(toks, i)?;
            if *toks.get(*i)? != "(" {
                return None;
            }
            *i += 1;
            let mut routes = Vec::new();
            loop {
                let t = *toks.get(*i)?;
                *i += 1;
                if t == ")" {
                    break;
                }
                routes.push(parse_route(t)?);
            }
            out.push(NodeT::Resource {
                pats: p.split('|').map(str::to_owned).collect(),
                guards: a.guards,
                data: a.data,
                routes,
                dflt: a.dflt,
                mw: a.mw,
            });
        } else if let Some(p) = t.strip_prefix("t:") {
            let r = parse_route(toks.get(*i)?)?;
            *i += 1;
            out.push(NodeT::RouteSugar { pat: p.to_owned(), route: r });
        } else {
            return None;
        }
    }
}

fn parse_app(toks: &[&str]) -> Option<AppT> {
    if *toks.first()? != "app" {
        return None;
    }
    let mut i = 1;
    let a = parse_attrs(toks, &mut i)?;
    if !a.guards.is_empty() || a.mw.report.is_some() || a.mw.slow.is_some() || *toks.get(i)? != "{" {
        return None;
    }
    i += 1;
    let children = parse_nodes(toks, &mut i)?;
    if i != toks.len() {
        return None;
    }
    Some(AppT { data: a.data, children, dflt: a.dflt, via: a.via })
}

fn parse_req(toks: &[&str]) -> Option<ReqT> {
    let mut r = ReqT { method: toks.first()?.to_string(), target: toks.get(1)?.to_string(), headers: vec![], exp: None };
    for t in &toks[2..] {
        if let Some(e) = t.strip_prefix("exp=") {
            let (h, ps) = e.split_once(':')?;
            let ps = ps
                .split(',')
                .filter(|s| !s.is_empty())
                .map(|kv| kv.split_once('=').map(|(k, v)| (k.to_owned(), v.to_owned())))
                .collect::<Option<Vec<_>>>()?;
            r.exp = Some((h.parse().ok()?, ps));
        } else if let Some((k, v)) = t.split_once('=') {
            r.headers.push((k.to_owned(), v.to_owned()));
        }
    }
    Some(r)
}

pub fn parse_case(line: &str) -> Option<(AppT, Vec<ReqT>)> {
    let toks: Vec<&str> = line.split_ascii_whitespace().collect();
    let mut parts = toks.split(|t| *t == ";;");
    let app = parse_app(parts.next()?)?;
    let reqs = parts.map(parse_req).collect::<Option<Vec<_>>>()?;
    Some((app, reqs))
}

// ---------------------------------------------------------------------------------------------
// the real application
// ---------------------------------------------------------------------------------------------

struct Marker(u32);

fn leak(s: &str) -> &'static str {
    static TABLE: Mutex<Option<HashMap<String, &'static str>>> = Mutex::new(None);
    let mut t = TABLE.lock().unwrap();
    let t = t.get_or_insert_with(HashMap::new);
    if let Some(v) = t.get(s) {
        return v;
    }
    let v: &'static str = Box::leak(s.to_owned().into_boxed_str());
    t.insert(s.to_owned(), v);
    v
}

fn mk_guard(g: &G) -> Rc<dyn Guard> {
    match g {
        G::Method(m) => Rc::new(guard::Method(Method::from_bytes(m.as_bytes()).unwrap())),
        G::Header(k, v) => Rc::new(guard::Header(leak(k), leak(v))),
        G::Host(h) => Rc::new(guard::Host(h)),
        G::All(gs) => {
            let mut a = guard::All(mk_guard(&gs[0]));
            for g in &gs[1..] {
                a = a.and(mk_guard(g));
            }
            Rc::new(a)
        }
        G::Any(gs) => {
            let mut a = guard::Any(mk_guard(&gs[0]));
            for g in &gs[1..] {
                a = a.or(mk_guard(g));
            }
            Rc::new(a)
        }
        G::Not(g) => Rc::new(guard::Not(mk_guard(g))),
        G::Data(n) => {
            let n = *n;
            // `GuardContext::app_data` is `ServiceRequest::app_data`
            Rc::new(guard::fn_guard(move |ctx| ctx.app_data::<Marker>().map(|m| m.0) == Some(n)))
        }
    }
}

/// a future that is Pending `0` times more (self-waking)
struct YieldN(usize);

impl std::future::Future for YieldN {
    type Output = ();
    fn poll(mut self: std::pin::Pin<&mut Self>, cx: &mut std::task::Context<'_>) -> std::task::Poll<()> {
        if self.0 == 0 {
            std::task::Poll::Ready(())
        } else {
            self.0 -= 1;
            cx.waker().wake_by_ref();
            std::task::Poll::Pending
        }
    }
}

/// Test middleware. Its *factory* future is Pending `slow` times (so that the order in which the
/// service factories of siblings complete differs from their registration order); the service
/// optionally reports, in an `x-mw` response header, the marker it sees through
/// `ServiceRequest::app_data`.
#[derive(Clone, Copy)]
struct Mw {
    slow: usize,
    report: Option<u32>,
}

impl From<MwT> for Mw {
    fn from(m: MwT) -> Self {
        Mw { slow: m.slow.unwrap_or(0), report: m.report }
    }
}

impl MwT {
    fn any(&self) -> bool {
        self.report.is_some() || self.slow.is_some()
    }
}

struct MwService<S> {
    service: S,
    report: Option<u32>,
}

impl<S, B> Transform<S, ServiceRequest> for Mw
where
    S: Service<ServiceRequest, Response = ServiceResponse<B>, Error = actix_web::Error> + 'static,
    B: 'static,
{
    type Response = ServiceResponse<B>;
    type Error = actix_web::Error;
    type Transform = MwService<S>;
    type InitError = ();
    type Future = std::pin::Pin<Box<dyn std::future::Future<Output = Result<Self::Transform, ()>>>>;

    fn new_transform(&self, service: S) -> Self::Future {
        let Mw { slow, report } = *self;
        Box::pin(async move {
            YieldN(slow).await;
            Ok(MwService { service, report })
        })
    }
}

impl<S, B> Service<ServiceRequest> for MwService<S>
where
    S: Service<ServiceRequest, Response = ServiceResponse<B>, Error = actix_web::Error> + 'static,
    B: 'static,
{
    type Response = ServiceResponse<B>;
    type Error = actix_web::Error;
    type Future = std::pin::Pin<Box<dyn std::future::Future<Output = Result<Self::Response, Self::Error>>>>;

    actix_web::dev::forward_ready!(service);

    fn call(&self, req: ServiceRequest) -> Self::Future {
        let seen = self.report.map(|id| {
            let m = req.app_data::<Marker>().map(|m| m.0.to_string()).unwrap_or_else(|| "-".into());
            format!("{id}:{m}")
        });
        let fut = self.service.call(req);
        Box::pin(async move {
            let mut res = fut.await?;
            if let Some(seen) = seen {
                res.headers_mut().append(
                    actix_web::http::header::HeaderName::from_static("x-mw"),
                    actix_web::http::header::HeaderValue::from_str(&seen).unwrap(),
                );
            }
            Ok(res)
        })
    }
}

/// what a handler sees of the request
fn report(who: &str, req: &HttpRequest, with_pattern: bool) -> String {
    let mi: Vec<String> = req.match_info().iter().map(|(k, v)| format!("{k}={v}")).collect();
    let d = req.app_data::<Marker>().map(|m| m.0.to_string()).unwrap_or_else(|| "-".into());
    let mp = if with_pattern { req.match_pattern().unwrap_or_else(|| "?".into()) } else { "-".into() };
    format!("{who} mi=[{}] un={} d={} mp={}", mi.join(","), req.match_info().unprocessed(), d, mp)
}

fn mk_route(r: &RouteT) -> actix_web::Route {
    let mut route = web::route();
    for g in &r.guards {
        route = route.guard(mk_guard(g));
    }
    let id = r.handler;
    let route = route.to(move |req: HttpRequest| {
        let body = report(&format!("h{id}"), &req, true);
        async move { HttpResponse::Ok().body(body) }
    });
    match r.slow {
        Some(k) => route.wrap(Mw { slow: k, report: None }),
        None => route,
    }
}

fn mk_default(id: u32) -> actix_web::Route {
    web::to(move |req: HttpRequest| {
        let body = report(&format!("df{id}"), &req, false);
        async move { HttpResponse::Ok().body(body) }
    })
}

fn mk_resource(pats: &[String], guards: &[G], data: Option<u32>, routes: &[RouteT], dflt: Option<u32>) -> Resource {
    let mut r = if pats.len() == 1 { web::resource(pats[0].as_str()) } else { web::resource(pats.to_vec()) };
    for g in guards {
        r = r.guard(mk_guard(g));
    }
    if let Some(d) = data {
        r = r.app_data(Marker(d));
    }
    for rt in routes {
        r = r.route(mk_route(rt));
    }
    if let Some(d) = dflt {
        r = r.default_service(mk_default(d));
    }
    r
}

/// something services can be registered on: `App`, `Scope`, or the `ServiceConfig` of a
/// `.configure(|cfg| …)` closure
trait Parent: Sized {
    fn svc<F: actix_web::dev::HttpServiceFactory + 'static>(self, f: F) -> Self;
    fn rt(self, path: &str, route: actix_web::Route) -> Self;
}

impl Parent for Scope {
    fn svc<F: actix_web::dev::HttpServiceFactory + 'static>(self, f: F) -> Self {
        self.service(f)
    }
    fn rt(self, path: &str, route: actix_web::Route) -> Self {
        self.route(path, route)
    }
}

impl<T> Parent for App<T>
where
    T: actix_web::dev::ServiceFactory<ServiceRequest, Config = (), Error = actix_web::Error, InitError = ()>,
{
    fn svc<F: actix_web::dev::HttpServiceFactory + 'static>(self, f: F) -> Self {
        self.service(f)
    }
    fn rt(self, path: &str, route: actix_web::Route) -> Self {
        self.route(path, route)
    }
}

impl Parent for &mut web::ServiceConfig {
    fn svc<F: actix_web::dev::HttpServiceFactory + 'static>(self, f: F) -> Self {
        self.service(f)
    }
    fn rt(self, path: &str, route: actix_web::Route) -> Self {
        self.route(path, route)
    }
}

fn add_children<P: Parent>(mut p: P, children: &[NodeT]) -> P {
    for c in children {
        p = match c {
            NodeT::Scope { mw, .. } if mw.any() => p.svc(mk_scope(c).wrap(Mw::from(*mw))),
            NodeT::Scope { .. } => p.svc(mk_scope(c)),
            NodeT::Resource { pats, guards, data, routes, dflt, mw } if mw.any() => {
                p.svc(mk_resource(pats, guards, *data, routes, *dflt).wrap(Mw::from(*mw)))
            }
            NodeT::Resource { pats, guards, data, routes, dflt, .. } => p.svc(mk_resource(pats, guards, *data, routes, *dflt)),
            NodeT::RouteSugar { pat, route } => p.rt(pat, mk_route(route)),
        };
    }
    p
}

/// the three builder orders of a level whose children `from..` go through `.configure(..)`
macro_rules! build_level {
    ($b:expr, $data:expr, $children:expr, $dflt:expr, $via:expr) => {{
        let mut b = $b;
        let (data, children, dflt): (Option<u32>, &[NodeT], Option<u32>) = ($data, $children, $dflt);
        match $via {
            None => {
                if let Some(d) = data {
                    b = b.app_data(Marker(d));
                }
                b = add_children(b, children);
                if let Some(d) = dflt {
                    b = b.default_service(mk_default(d));
                }
            }
            Some(ViaT { order, from }) => {
                let from = from.min(children.len());
                let (direct, through) = children.split_at(from);
                let inside = order == 'i';
                if let (Some(d), false) = (data, inside) {
                    b = b.app_data(Marker(d));
                }
                b = add_children(b, direct);
                if let (Some(d), 'a') = (dflt, order) {
                    b = b.default_service(mk_default(d));
                }
                b = b.configure(|cfg| {
                    if let (Some(d), true) = (data, inside) {
                        cfg.app_data(Marker(d));
                    }
                    add_children(&mut *cfg, through);
                    if let (Some(d), true) = (dflt, inside) {
                        cfg.default_service(mk_default(d));
                    }
                });
                if let (Some(d), 'b') = (dflt, order) {
                    b = b.default_service(mk_default(d));
                }
            }
        }
        b
    }};
}

fn mk_scope(n: &NodeT) -> Scope {
    let NodeT::Scope { pat, guards, data, children, dflt, via, .. } = n else { unreachable!() };
    let mut s = web::scope(pat);
    for g in guards {
        s = s.guard(mk_guard(g));
    }
    build_level!(s, *data, children, *dflt, *via)
}

async fn run_impl(app: &AppT, reqs: &[ReqT]) -> Vec<String> {
    let a = build_level!(App::new(), app.data, &app.children, app.dflt, app.via);
    let srv = test::init_service(a).await;
    let mut outs = Vec::new();
    for r in reqs {
        let Ok(method) = Method::from_bytes(r.method.as_bytes()) else {
            outs.push("bad-request".to_owned());
            continue;
        };
        // only origin-form targets (a path, optionally a query) are in the protocol
        if !r.target.starts_with('/') || r.target.parse::<actix_web::http::Uri>().is_err() {
            outs.push("bad-request".to_owned());
            continue;
        }
        let mut tr = test::TestRequest::default().method(method).uri(&r.target);
        for (k, v) in &r.headers {
            tr = tr.append_header((k.as_str(), v.as_str()));
        }
        let resp: ServiceResponse = match srv.call(tr.to_request()).await {
            Ok(r) => r,
            Err(e) => {
                outs.push(format!("error:{}", e.as_response_error().status_code().as_u16()));
                continue;
            }
        };
        let status = resp.status();
        // reporting middlewares append on the way out (innermost first): print outermost first
        let mut mw: Vec<String> =
            resp.headers().get_all("x-mw").map(|v| v.to_str().unwrap_or("?").to_owned()).collect();
        mw.reverse();
        let out = if status == StatusCode::OK {
            let body = test::read_body(resp).await;
            String::from_utf8_lossy(&body).into_owned()
        } else {
            // built-in default services: read the request state they were called with
            report(&status.as_u16().to_string(), resp.request(), false)
        };
        outs.push(format!("{out} mw=[{}]", mw.join(",")));
    }
    outs
}

// ---------------------------------------------------------------------------------------------
// reference router: the property sentence, executed naively
// ---------------------------------------------------------------------------------------------

mod reference {
    use super::{AppT, NodeT, ReqT, G};

    #[derive(Debug, PartialEq, Eq, Clone)]
    pub struct Outcome {
        pub who: String,
        pub params: Vec<(String, String)>,
        pub rest: String,
        pub data: Option<u32>,
        /// what the reporting middlewares on the way saw, outermost first
        pub mw: Vec<String>,
    }

    /// percent-decode everything except the escapes of `%`, `/`, `+` (these stay as written)
    pub fn decode(path: &str) -> String {
        let b = path.as_bytes();
        let mut out = Vec::new();
        let mut i = 0;
        while i < b.len() {
            if b[i] == b'%' && i + 2 < b.len() {
                let hex = std::str::from_utf8(&b[i + 1..i + 3]).ok().and_then(|h| u8::from_str_radix(h, 16).ok());
                // from_str_radix accepts a leading '+': exclude by checking both are hex digits
                let both_hex = b[i + 1].is_ascii_hexdigit() && b[i + 2].is_ascii_hexdigit();
                if let (Some(v), true) = (hex, both_hex) {
                    if v != b'%' && v != b'/' && v != b'+' {
                        out.push(v);
                        i += 3;
                        continue;
                    }
                }
            }
            out.push(b[i]);
            i += 1;
        }
        String::from_utf8_lossy(&out).into_owned()
    }

    enum Piece {
        Text(String),
        /// one path segment (non-empty, no '/')
        Seg(String),
        /// non-empty run of digits
        Digits(String),
        /// everything that is left
        Tail(String),
    }

    fn pieces(pat: &str) -> Vec<Piece> {
        let mut out = Vec::new();
        let mut rest = pat;
        while let Some(open) = rest.find('{') {
            if open > 0 {
                out.push(Piece::Text(rest[..open].to_owned()));
            }
            let close = open + rest[open..].find('}').expect("closing brace");
            let inner = &rest[open + 1..close];
            rest = &rest[close + 1..];
            let (name, re) = match inner.split_once(':') {
                Some((n, r)) => (n, Some(r)),
                None => (inner, None),
            };
            if rest == "*" {
                out.push(Piece::Tail(name.to_owned()));
                rest = "";
            } else {
                out.push(match re {
                    None => Piece::Seg(name.to_owned()),
                    Some(r"\d+") => Piece::Digits(name.to_owned()),
                    Some(".*") => Piece::Tail(name.to_owned()),
                    Some(other) => panic!("reference router: unsupported regex {other}"),
                });
            }
        }
        if !rest.is_empty() {
            out.push(Piece::Text(rest.to_owned()));
        }
        out
    }

    /// does `pat` match a prefix of `path` that ends at a segment boundary (or all of it when
    /// `whole`)? Returns the matched length and the parameter values. A dynamic segment takes as
    /// much as it can and gives back one character at a time while the rest does not fit; literal
    /// text is compared character by character, whatever it contains.
    pub fn match_pattern(pat: &str, whole: bool, path: &str) -> Option<(usize, Vec<(String, String)>)> {
        fn go(ps: &[Piece], whole: bool, path: &str, at: usize) -> Option<(usize, Vec<(String, String)>)> {
            let rest = &path[at..];
            let Some((p, more)) = ps.split_first() else {
                return (rest.is_empty() || (!whole && rest.starts_with('/'))).then(|| (at, Vec::new()));
            };
            let run = |ok: &dyn Fn(u8) -> bool, name: &String| {
                let max = rest.bytes().take_while(|b| ok(*b)).count();
                (1..=max).rev().find_map(|n| {
                    go(more, whole, path, at + n).map(|(end, mut ps)| {
                        ps.insert(0, (name.clone(), rest[..n].to_owned()));
                        (end, ps)
                    })
                })
            };
            match p {
                Piece::Text(t) => rest.starts_with(t.as_str()).then(|| go(more, whole, path, at + t.len())).flatten(),
                Piece::Seg(name) => run(&|b| b != b'/', name),
                Piece::Digits(name) => run(&|b| b.is_ascii_digit(), name),
                Piece::Tail(name) => Some((path.len(), vec![(name.clone(), rest.to_owned())])),
            }
        }
        go(&pieces(pat), whole, path, 0)
    }

    fn with_slash(p: &str) -> String {
        if p.is_empty() || p.starts_with('/') {
            p.to_owned()
        } else {
            format!("/{p}")
        }
    }

    fn header<'a>(req: &'a ReqT, name: &str) -> Option<&'a str> {
        req.headers.iter().find(|(k, _)| k.eq_ignore_ascii_case(name)).map(|(_, v)| v.as_str())
    }

    /// `data`: the innermost registration of the marker at the place the guard stands
    pub fn holds(g: &G, req: &ReqT, data: Option<u32>) -> bool {
        match g {
            G::Data(n) => data == Some(*n),
            G::Method(m) => req.method == *m,
            G::Header(k, v) => header(req, k) == Some(v.as_str()),
            G::Host(h) => header(req, "host").map(|v| v.split(':').next().unwrap_or("")) == Some(h.as_str()),
            G::All(gs) => gs.iter().all(|g| holds(g, req, data)),
            G::Any(gs) => gs.iter().any(|g| holds(g, req, data)),
            G::Not(g) => !holds(g, req, data),
        }
    }

    struct Ctx<'a> {
        req: &'a ReqT,
        path: &'a str,
    }

    /// the services registered in `nodes`, searched in registration order; `None` = nobody matched
    fn search(
        cx: &Ctx<'_>,
        nodes: &[NodeT],
        at: usize,
        params: &[(String, String)],
        data: Option<u32>,
        nearest_default: &str,
        mw: &[String],
    ) -> Option<Outcome> {
        let seen = |m: &super::MwT, data: Option<u32>, mw: &[String]| {
            let mut mw = mw.to_vec();
            if let Some(id) = m.report {
                mw.push(format!("{id}:{}", data.map(|d| d.to_string()).unwrap_or_else(|| "-".into())));
            }
            mw
        };
        for n in nodes {
            let rest = &cx.path[at..];
            match n {
                NodeT::Scope { pat, guards, data: d, children, dflt, mw: m, .. } => {
                    let Some((len, ps)) = match_pattern(&with_slash(pat), false, rest) else { continue };
                    // a guard of the scope stands outside the scope: it sees the enclosing data
                    if !guards.iter().all(|g| holds(g, cx.req, data)) {
                        continue;
                    }
                    // committed: everything below is decided inside this scope
                    let mut params = params.to_vec();
                    params.extend(ps);
                    let data = d.or(data);
                    let mw = seen(m, data, mw);
                    let own = dflt.map(|d| format!("df{d}"));
                    let nearest = own.as_deref().unwrap_or(nearest_default);
                    return Some(search(cx, children, at + len, &params, data, nearest, &mw).unwrap_or_else(|| Outcome {
                        who: nearest.to_owned(),
                        params,
                        rest: cx.path[at + len..].to_owned(),
                        data,
                        mw,
                    }));
                }
                NodeT::Resource { pats, guards, data: d, routes, dflt, mw: m } => {
                    let Some((len, ps)) = pats.iter().find_map(|p| match_pattern(&with_slash(p), true, rest)) else {
                        continue;
                    };
                    if !guards.iter().all(|g| holds(g, cx.req, data)) {
                        continue;
                    }
                    let mut params = params.to_vec();
                    params.extend(ps);
                    // route guards stand inside the resource: they see the resource's own data
                    let data = d.or(data);
                    let who = match routes.iter().find(|r| r.guards.iter().all(|g| holds(g, cx.req, data))) {
                        Some(r) => format!("h{}", r.handler),
                        None => dflt.map(|d| format!("df{d}")).unwrap_or_else(|| "405".to_owned()),
                    };
                    return Some(Outcome { who, params, rest: cx.path[at + len..].to_owned(), data, mw: seen(m, data, mw) });
                }
                NodeT::RouteSugar { pat, route } => {
                    let Some((len, ps)) = match_pattern(&with_slash(pat), true, rest) else { continue };
                    if !route.guards.iter().all(|g| holds(g, cx.req, data)) {
                        continue;
                    }
                    let mut params = params.to_vec();
                    params.extend(ps);
                    return Some(Outcome {
                        who: format!("h{}", route.handler),
                        params,
                        rest: cx.path[at + len..].to_owned(),
                        data,
                        mw: mw.to_vec(),
                    });
                }
            }
        }
        None
    }

    pub fn route(app: &AppT, req: &ReqT) -> Outcome {
        let raw = req.target.split('?').next().unwrap_or("");
        let path = decode(raw);
        let cx = Ctx { req, path: &path };
        let app_default = app.dflt.map(|d| format!("df{d}")).unwrap_or_else(|| "404".to_owned());
        search(&cx, &app.children, 0, &[], app.data, &app_default, &[]).unwrap_or_else(|| Outcome {
            who: app_default.clone(),
            params: vec![],
            rest: path.clone(),
            data: app.data,
            mw: vec![],
        })
    }
}

/// all guards on the way to handler `h` (scope, resource and route guards), if `h` is in the table
fn guards_to(nodes: &[NodeT], h: u32) -> Option<Vec<G>> {
    for n in nodes {
        match n {
            NodeT::Scope { guards, children, .. } => {
                if let Some(mut gs) = guards_to(children, h) {
                    gs.extend(guards.iter().cloned());
                    return Some(gs);
                }
            }
            NodeT::Resource { guards, routes, .. } => {
                if let Some(r) = routes.iter().find(|r| r.handler == h) {
                    let mut gs = guards.clone();
                    gs.extend(r.guards.iter().cloned());
                    return Some(gs);
                }
            }
            NodeT::RouteSugar { route, .. } => {
                if route.handler == h {
                    return Some(route.guards.clone());
                }
            }
        }
    }
    None
}

fn reads_data(g: &G) -> bool {
    match g {
        G::Data(_) => true,
        G::All(gs) | G::Any(gs) => gs.iter().any(reads_data),
        G::Not(g) => reads_data(g),
        _ => false,
    }
}

/// parse an implementation output line back into its fields
fn parse_out(o: &str) -> Option<reference::Outcome> {
    let mut it = o.split(' ');
    let who = it.next()?.to_owned();
    let mi = it.next()?.strip_prefix("mi=[")?.strip_suffix(']')?;
    let params = mi
        .split(',')
        .filter(|s| !s.is_empty())
        .map(|kv| kv.split_once('=').map(|(k, v)| (k.to_owned(), v.to_owned())))
        .collect::<Option<Vec<_>>>()?;
    let rest = it.next()?.strip_prefix("un=")?.to_owned();
    let d = it.next()?.strip_prefix("d=")?;
    let data = if d == "-" { None } else { Some(d.parse().ok()?) };
    let _mp = it.next()?.strip_prefix("mp=")?;
    let mw = it.next()?.strip_prefix("mw=[")?.strip_suffix(']')?;
    let mw = mw.split(',').filter(|s| !s.is_empty()).map(str::to_owned).collect();
    Some(reference::Outcome { who, params, rest, data, mw })
}

fn is_default_like(who: &str) -> bool {
    who.starts_with("df") || who == "404"
}

fn run(line: &str) -> CaseResult {
    let Some((app, reqs)) = parse_case(line) else {
        return CaseResult { output: "bad-table".into(), fail: None, nontrivial: false, tags: vec!["bad-table".into()] };
    };
    let outs = block_on_system(run_impl(&app, &reqs));
    let mut fails: Vec<(String, String)> = Vec::new();
    let mut tags: Vec<String> = Vec::new();
    let mut nontrivial = false;
    for (r, o) in reqs.iter().zip(&outs) {
        if o == "bad-request" {
            tags.push("bad-request".into());
            continue;
        }
        let want = reference::route(&app, r);
        let Some(got) = parse_out(o) else {
            fails.push(("unparsable-output".into(), format!("{} {} -> {o}", r.method, r.target)));
            continue;
        };
        let what = format!("{} {} {:?}", r.method, r.target, r.headers);
        if got.who != want.who {
            let sig = if want.who == "405" || got.who == "405" {
                "405"
            } else if is_default_like(&want.who) && is_default_like(&got.who) {
                "default-nearest"
            } else {
                "first-match"
            };
            fails.push((sig.into(), format!("{what}: handled by {} but the first registered match is {}", got.who, want.who)));
        } else if got.params != want.params {
            fails.push(("params-exact".into(), format!("{what}: match_info {:?}, route patterns give {:?}", got.params, want.params)));
        } else if got.data != want.data {
            fails.push(("data-innermost".into(), format!("{what}: app_data {:?}, innermost registration is {:?}", got.data, want.data)));
        } else if got.mw != want.mw {
            fails.push((
                "data-innermost-service-request".into(),
                format!("{what}: middlewares saw {:?} through ServiceRequest::app_data, innermost registrations are {:?}", got.mw, want.mw),
            ));
        } else if got.rest != want.rest {
            fails.push(("unprocessed".into(), format!("{what}: unprocessed {:?} want {:?}", got.rest, want.rest)));
        }
        // generator ground truth: the path was built from the route to handler `h` with these values;
        // it must be served by that handler with exactly these values, or by a service registered earlier
        // (guards that read app data depend on where they stand: leave those to the reference router)
        if let Some((h, ps)) = r.exp.as_ref().filter(|(h, _)| {
            guards_to(&app.children, *h).is_some_and(|gs| gs.iter().all(|g| !reads_data(g) && reference::holds(g, r, None)))
        }) {
            tags.push("ground-truth-checked".into());
            if got.who == format!("h{h}") {
                if got.params != *ps {
                    fails.push(("params-exact".into(), format!("{what}: built from values {:?}, handler saw {:?}", ps, got.params)));
                }
            } else if got.who.starts_with('h') {
                let gh: u32 = got.who[1..].parse().unwrap_or(u32::MAX);
                // handler ids are assigned in registration (depth-first) order by the generator
                if gh > *h {
                    fails.push(("first-match".into(), format!("{what}: built for h{h}, served by later-registered {}", got.who)));
                }
            }
        }
        if got.who.starts_with('h') {
            nontrivial = true;
            tags.push("handler".into());
            if !got.params.is_empty() {
                tags.push("with-params".into());
            }
        } else if got.who.starts_with("df") {
            nontrivial = true;
            tags.push("default-service".into());
        } else if got.who == "405" {
            nontrivial = true;
            tags.push("405".into());
        } else {
            tags.push("404".into());
            if got.rest.len() < reference::decode(r.target.split('?').next().unwrap_or("")).len() {
                nontrivial = true;
                tags.push("404-inside-scope".into());
            }
        }
        if got.data.is_some() {
            tags.push("data".into());
        }
        if !got.mw.is_empty() {
            tags.push("mw-report".into());
        }
        if r.target.contains('%') {
            tags.push("pct-path".into());
        }
        if r.target.contains("//") || r.target.ends_with('/') {
            tags.push("empty-segment".into());
        }
    }
    tags.sort();
    tags.dedup();
    CaseResult { output: outs.join(" | "), fail: fails.into_iter().next(), nontrivial, tags }
}

// ---------------------------------------------------------------------------------------------
// generator
// ---------------------------------------------------------------------------------------------

const LEAF_MENU: &[&str] = &["/x", "", "/", "/{id}", "/{t}*", "x"];
const SCOPE_MENU: &[&str] = &["/a", "", "/a/", "/{p}"];

const PROBES: &[&str] = &[
    "/", "/x", "/x/", "//x", "/a", "/a/", "/a/x", "/a//x", "/a//", "/a/x/", "/ax", "/a/5", "/5", "/5/x", "/5//x", "/x/x",
    "/a%2Fx", "/%61/x", "/a/a/x", "/a/%78", "/x%2F", "/a/x%25", "/a/a", "/x?q=/a",
];

struct Ids {
    next: u32,
}
impl Ids {
    fn fresh(&mut self) -> u32 {
        self.next += 1;
        self.next
    }
}

fn exhaustive_small(cases: &mut Vec<String>) {
    // level-2 nodes: a leaf, or a scope with 0..2 leaf children
    let mut nodes: Vec<Vec<String>> = Vec::new(); // token lists with `#` as handler placeholder
    for l in LEAF_MENU {
        nodes.push(vec![format!("r:{l}"), "(".into(), "*>#".into(), ")".into()]);
    }
    for s in SCOPE_MENU {
        let mut kid_lists: Vec<Vec<&str>> = vec![vec![]];
        for a in LEAF_MENU {
            kid_lists.push(vec![a]);
            for b in LEAF_MENU {
                kid_lists.push(vec![a, b]);
            }
        }
        for kids in kid_lists {
            let mut t = vec![format!("s:{s}"), "{".into()];
            for k in kids {
                t.extend([format!("r:{k}"), "(".into(), "*>#".into(), ")".into()]);
            }
            t.push("}".into());
            nodes.push(t);
        }
    }
    let reqs: String = PROBES.iter().map(|p| format!(" ;; GET {p}")).collect();
    let render = |tops: &[&Vec<String>]| {
        let mut n = 0;
        let mut s = String::from("app {");
        for t in tops {
            for tok in t.iter() {
                s.push(' ');
                if tok == "*>#" {
                    n += 1;
                    s.push_str(&format!("*>{n}"));
                } else {
                    s.push_str(tok);
                }
            }
        }
        s.push_str(" }");
        s.push_str(&reqs);
        s
    };
    for a in &nodes {
        cases.push(render(&[a]));
    }
    for a in &nodes {
        for b in &nodes {
            cases.push(render(&[a, b]));
        }
    }
}

/// second exhaustive family: fixed patterns, every combination of guards / data / defaults /
/// route sets on one or two overlapping top-level nodes (a prefix that is also a resource, an
/// empty scope, a guard that rejects the first of two overlapping patterns, nested defaults)
fn exhaustive_attrs(cases: &mut Vec<String>) {
    let mut templates: Vec<String> = Vec::new();
    let scope_attrs = ["", " g=M~GET", " df=#", " d=#", " g=M~GET df=#"];
    let scope_kids = [
        "",
        " r:/x ( *># )",
        " r:/x ( M~GET># )",
        " s:/b { r:/x ( *># ) }",
        " s:/b df=# { }",
        " s:/b d=# { r:/x d=# ( M~POST># ) }",
    ];
    for a in scope_attrs {
        for k in scope_kids {
            templates.push(format!("s:/a{a} {{{k} }}"));
        }
    }
    for pat in ["/a/x", "/a"] {
        for a in ["", " g=M~POST", " df=#", " d=#"] {
            for r in ["*>#", "M~GET># M~POST>#", ""] {
                templates.push(format!("r:{pat}{a} ( {r} )"));
            }
        }
    }
    templates.push("t:/a/x M~GET>#".into());
    templates.push("t:/a/b/x *>#".into());
    let reqs: String = ["/a", "/a/x", "/a/b/x", "/a/b/y", "/a/y"]
        .iter()
        .flat_map(|p| [format!(" ;; GET {p}"), format!(" ;; POST {p}")])
        .collect();
    let mut emit = |head: &str, tops: &[&String]| {
        let body = format!("{head} {{ {} }}", tops.iter().map(|t| t.as_str()).collect::<Vec<_>>().join(" "));
        let mut n = 0;
        let mut s = String::new();
        for ch in body.chars() {
            if ch == '#' {
                n += 1;
                s.push_str(&n.to_string());
            } else {
                s.push(ch);
            }
        }
        s.push_str(&reqs);
        cases.push(s.split_whitespace().collect::<Vec<_>>().join(" "));
    };
    for head in ["app", "app d=# df=#"] {
        for a in &templates {
            emit(head, &[a]);
        }
        for a in &templates {
            for b in &templates {
                emit(head, &[a, b]);
            }
        }
    }
}

/// third exhaustive family: (a) app data read through `ServiceRequest::app_data` — by guards
/// (`D~n`) standing at every level and by reporting middlewares (`w=`) — with the same marker
/// type registered at up to three nesting levels; (b) service factories that are not ready on
/// their first poll (`z=`, `!k`) in front of later-registered overlapping services, at the app
/// level (`AppRoutingFactory`), inside a scope (`ScopeFactory`) and among the routes of a resource
/// (`ResourceFactory`): the routing table must follow registration order, not completion order
fn exhaustive_srvreq_and_startup(cases: &mut Vec<String>) {
    let reqs = " ;; GET /a/x ;; POST /a/x ;; GET /a/y ;; GET /a";
    let mut firsts: Vec<String> = Vec::new();
    for z in ["", " z=1", " z=3"] {
        for d in ["", " d=2"] {
            for w in ["", " w=5"] {
                for g in ["", " g=D~1", " g=D~2"] {
                    firsts.push(format!("s:/a{z}{d}{w} {{ r:/x{g} ( *>10 ) r:/x d=3 w=6 ( D~3>11 D~2>12 *>13 ) }}"));
                }
                for inner in ["s:/x z=1 { r: ( *>14 ) } r:/x ( *>15 )", "r:/x ( M~POST>16!2 D~2>17!1 *>18 ) r:/y z=2 ( *>19 )"] {
                    firsts.push(format!("s:/a{z}{d}{w} {{ {inner} }}"));
                }
            }
        }
        for g in ["", " g=D~1", " g=N(D~1)"] {
            firsts.push(format!("r:/a/x{z}{g} d=4 w=7 ( D~4>20 *>21 )"));
            firsts.push(format!("r:/a/x{z}{g} ( M~POST>22!2 *>23 )"));
        }
        firsts.push(format!("t:/a/x D~1>24{}", if z.is_empty() { "".to_owned() } else { z.replace(" z=", "!") }));
    }
    let seconds = ["", "r:/a/x ( *>30 )", "s:/a { r:/x ( *>31 ) r:/y ( *>32 ) }", "t:/a/x *>33", "s:/a z=1 w=8 { r:/x ( *>34 ) }", "r:/a/{id} d=9 ( D~9>35 )"];
    for head in ["app", "app d=1", "app d=1 df=40"] {
        for a in &firsts {
            for b in seconds {
                cases.push(format!("{head} {{ {a} {b} }}{reqs}").split_whitespace().collect::<Vec<_>>().join(" "));
            }
        }
    }
}

/// fourth exhaustive family: literal text containing regex metacharacters after the last dynamic
/// segment (`/{name}.json`, `/{n}.v1+x`, `/{n}(a)`): the literal must be compared literally, so a
/// path that differs exactly at such a character goes to a later registration / the default, with
/// untruncated parameters, and a two-segment pattern never takes a three-segment path
fn exhaustive_literal_suffix(cases: &mut Vec<String>) {
    let lits = [".json", ".v1+x", "(a)", ".j", ".txt"];
    let mut paths: Vec<String> = Vec::new();
    for l in lits {
        let mut variants = vec![l.to_owned()];
        for (i, c) in l.char_indices() {
            if ".+()".contains(c) {
                for r in ["/", "z"] {
                    let mut v = l.to_owned();
                    v.replace_range(i..i + 1, r);
                    variants.push(v);
                }
            }
        }
        for v in &variants {
            for base in ["/s", "/a.b", "/x/s"] {
                paths.push(format!("{base}{v}"));
            }
        }
        paths.push(format!("/s{l}{l}"));
        paths.push(format!("/s{l}/x"));
    }
    paths.sort();
    paths.dedup();
    let reqs: String = paths.iter().map(|p| format!(" ;; GET {p}")).collect();
    let firsts = ["/{name}.json", "/{n}.v1+x", "/{n}(a)", "/x/{n}.j", "/{a}.{b}", "/{n}.json|/{n}.txt", "/{n}.json/{m}.j"];
    let seconds = ["", "r:/{slug} ( *>5 )", "r:/{a}/{b} ( *>6 )", "r:/{t}* ( *>7 )", "r:/x/{k} ( *>8 ) r:/{p}/{q}/{r} ( *>9 )"];
    for head in ["app", "app df=20"] {
        for f in firsts {
            for sec in seconds {
                cases.push(format!("{head} {{ r:{f} ( *>1 ) {sec} }}{reqs}").split_whitespace().collect::<Vec<_>>().join(" "));
                if !f.contains('|') {
                    cases.push(
                        format!("{head} {{ s:{f} {{ r:/x ( *>1 ) r: ( *>2 ) }} {sec} }}{reqs}").split_whitespace().collect::<Vec<_>>().join(" "),
                    );
                }
            }
        }
    }
}

/// fifth exhaustive family: the same tables built through `.configure(|cfg| …)` — children from
/// index k on registered inside the closure — with `.default_service(..)` called before the
/// configure call, after it, or inside the closure, on the app and on (nested) scopes
fn exhaustive_configure(cases: &mut Vec<String>) {
    let reqs = " ;; GET /a/b/z ;; GET /a/z ;; GET /z ;; GET /a/d ;; GET /a/b/c ;; GET /y ;; GET /x";
    let vias = ["", " c=a0", " c=a1", " c=a3", " c=b0", " c=b1", " c=i0", " c=i2"];
    for hd in ["", " df=9", " d=1 df=9"] {
        for av in vias {
            for sd in ["", " df=7", " d=2 df=7"] {
                for sv in vias {
                    for bv in ["", " c=a0", " df=5 c=a1"] {
                        if av.is_empty() && sv.is_empty() && bv.is_empty() {
                            continue;
                        }
                        cases.push(format!(
                            "app{hd}{av} {{ r:/x ( *>1 ) s:/a{sd}{sv} {{ s:/b{bv} {{ r:/c ( *>2 ) }} r:/d ( *>3 ) }} r:/y ( *>4 ) }}{reqs}"
                        ));
                    }
                }
            }
        }
    }
}

const R_SCOPE_PATS: &[&str] = &["/a", "a", "/a/", "", "/", "/{p}", "/a/{p}", "/{p:\\d+}", "/a/b", "/b", "/{p}.d", "/a.b"];
const R_LEAF_PATS: &[&str] = &[
    "/x", "x", "", "/", "/{id}", "/{id}/x", "/x/{id:\\d+}", "/{t}*", "/f/{t:.*}", "/a", "/a/x", "/x/", "/x|/y/{id}", "/{id}|/x",
    "/v{id}", "/{a}/{b}", "/b", "/{name}.json", "/{id}.v1+x", "/{id}(a)", "/x/{id}.j", "/{a}-{b}", "/{n}.json|/{n}.txt", "/f.x",
];
const R_GUARDS: &[&str] =
    &["M~GET", "M~POST", "H~x-a~1", "O~ex1", "N(M~GET)", "Y(M~GET,M~POST)", "A(M~GET,H~x-a~1)", "N(Y(M~PUT,H~x-a~2))"];
const R_ROUTE_GUARDS: &[&str] = &["*", "*", "M~GET", "M~POST", "M~GET&H~x-a~1", "Y(M~PUT,M~POST)", "N(M~GET)", "O~ex1"];
const SEG_VALUES: &[&str] = &["5", "ab", "a%2Fb", "%61", "1%2B", "%25", "x", "12", "a.b", "a+b", "%41%42"];
const RAND_SEGS: &[&str] =
    &["a", "b", "x", "y", "f", "5", "12", "", "a%2Fx", "%61", "%2f", "%25", "%2B", "v7", "%", "%4", "%zz", "a+b", "%2561", "x%2Fx"];

/// a route of the table: list of (registered pattern, is_scope) down to a handler id
#[derive(Clone)]
struct Leaf {
    pats: Vec<String>,
    handler: u32,
    /// usable as ground truth (first pattern of a multi-pattern resource only)
    truth: bool,
}

/// a guard that reads app data: mostly for a marker that is registered somewhere above
fn data_guard(rng: &mut Rng, visible: &[u32]) -> String {
    let n = if !visible.is_empty() && rng.chance(4, 5) { *rng.pick(visible) } else { rng.range(1, 9) as u32 };
    if rng.chance(1, 5) {
        format!("N(D~{n})")
    } else {
        format!("D~{n}")
    }
}

fn gen_guard_attr(rng: &mut Rng, out: &mut String, p_num: usize, visible: &[u32]) {
    if rng.chance(p_num, 10) {
        out.push_str(&format!(" g={}", rng.pick(R_GUARDS)));
        if rng.chance(1, 6) {
            out.push_str(&format!(" g={}", rng.pick(R_GUARDS)));
        }
    }
    if rng.chance(1, 8) {
        out.push_str(&format!(" g={}", data_guard(rng, visible)));
    }
}

/// middleware attributes: reporting middleware, slow service factory
fn gen_mw_attr(rng: &mut Rng, ids: &mut Ids, out: &mut String) {
    if rng.chance(1, 5) {
        out.push_str(&format!(" w={}", ids.fresh()));
    }
    if rng.chance(1, 6) {
        out.push_str(&format!(" z={}", rng.range(1, 3)));
    }
}

/// register a suffix of the children through `.configure(..)`, in one of the three orders
fn gen_via_attr(rng: &mut Rng, out: &mut String) {
    if rng.chance(1, 4) {
        out.push_str(&format!(" c={}{}", rng.pick(&['a', 'b', 'i']), rng.below(3)));
    }
}

fn route_guard(rng: &mut Rng, visible: &[u32]) -> String {
    if rng.chance(1, 8) {
        data_guard(rng, visible)
    } else {
        (*rng.pick(R_ROUTE_GUARDS)).to_owned()
    }
}

fn slow_suffix(rng: &mut Rng) -> String {
    if rng.chance(1, 10) {
        format!("!{}", rng.range(1, 3))
    } else {
        String::new()
    }
}

fn gen_nodes(
    rng: &mut Rng,
    ids: &mut Ids,
    depth: usize,
    prefix: &[String],
    out: &mut String,
    leaves: &mut Vec<Leaf>,
    visible: &[u32],
) {
    let n = if depth == 0 { rng.range(1, 4) } else { rng.range(0, 3) };
    for _ in 0..n {
        let kind = rng.below(10);
        if kind < 3 && depth < 2 {
            let p = *rng.pick(R_SCOPE_PATS);
            out.push_str(&format!(" s:{p}"));
            gen_guard_attr(rng, out, 2, visible);
            let mut inner = visible.to_vec();
            if rng.chance(1, 3) {
                let d = ids.fresh();
                inner.push(d);
                out.push_str(&format!(" d={d}"));
            }
            gen_mw_attr(rng, ids, out);
            gen_via_attr(rng, out);
            let df = rng.chance(1, 3).then(|| ids.fresh());
            if let Some(d) = df {
                out.push_str(&format!(" df={d}"));
            }
            out.push_str(" {");
            let mut pre = prefix.to_vec();
            pre.push(with_slash(p));
            gen_nodes(rng, ids, depth + 1, &pre, out, leaves, &inner);
            out.push_str(" }");
        } else if kind < 4 {
            let p = *rng.pick(R_LEAF_PATS);
            let p = p.split('|').next().unwrap();
            let h = ids.fresh();
            let g = route_guard(rng, visible);
            out.push_str(&format!(" t:{p} {g}>{h}{}", slow_suffix(rng)));
            let mut pre = prefix.to_vec();
            pre.push(with_slash(p));
            leaves.push(Leaf { pats: pre, handler: h, truth: true });
        } else {
            let p = *rng.pick(R_LEAF_PATS);
            out.push_str(&format!(" r:{p}"));
            gen_guard_attr(rng, out, 2, visible);
            let mut inner = visible.to_vec();
            if rng.chance(1, 4) {
                let d = ids.fresh();
                inner.push(d);
                out.push_str(&format!(" d={d}"));
            }
            gen_mw_attr(rng, ids, out);
            if rng.chance(1, 5) {
                out.push_str(&format!(" df={}", ids.fresh()));
            }
            out.push_str(" (");
            let nr = if rng.chance(1, 12) { 0 } else { rng.range(1, 3) };
            for _ in 0..nr {
                let h = ids.fresh();
                out.push_str(&format!(" {}>{h}{}", route_guard(rng, &inner), slow_suffix(rng)));
                for (k, alt) in p.split('|').enumerate() {
                    let mut pre = prefix.to_vec();
                    pre.push(with_slash(alt));
                    leaves.push(Leaf { pats: pre, handler: h, truth: k == 0 });
                }
            }
            out.push_str(" )");
        }
    }
}

fn with_slash(p: &str) -> String {
    if p.is_empty() || p.starts_with('/') {
        p.to_owned()
    } else {
        format!("/{p}")
    }
}

/// instantiate the patterns of a route with values; returns the raw path and the (decoded)
/// parameter values a handler has to see
fn instantiate(rng: &mut Rng, leaf: &Leaf) -> (String, Vec<(String, String)>) {
    let mut path = String::new();
    let mut params = Vec::new();
    for pat in &leaf.pats {
        let mut rest = pat.as_str();
        while let Some(open) = rest.find('{') {
            path.push_str(&rest[..open]);
            let close = rest.find('}').unwrap();
            let inner = &rest[open + 1..close];
            rest = &rest[close + 1..];
            let (name, re) = inner.split_once(':').map(|(n, r)| (n, Some(r))).unwrap_or((inner, None));
            let v: String = if rest == "*" || re == Some(".*") {
                if rest == "*" {
                    rest = "";
                }
                match rng.below(4) {
                    0 => String::new(),
                    1 => "p".into(),
                    2 => "p/q%2Fr/".into(),
                    _ => "%61/b".into(),
                }
            } else if re == Some("\\d+") {
                (*rng.pick(&["5", "12", "007", "%35"])).into()
            } else if pat.chars().any(|c| ".+()-".contains(c)) {
                // several ways to split a value at the literal would make the ground truth ambiguous
                (*rng.pick(&["5", "ab", "x", "12", "%61", "%41%42"])).into()
            } else {
                (*rng.pick(SEG_VALUES)).into()
            };
            path.push_str(&v);
            params.push((name.to_owned(), reference::decode(&v)));
        }
        path.push_str(rest);
    }
    if path.is_empty() {
        path.push('/');
    }
    (path, params)
}

fn mutate(rng: &mut Rng, p: &str) -> String {
    let mut s = p.to_owned();
    // a literal that is a regex metacharacter replaced by something else (the pattern must stop matching)
    if rng.chance(1, 4) {
        let end = s.find('?').unwrap_or(s.len());
        let metas: Vec<usize> = s[..end].char_indices().filter(|(_, c)| ".+()$-".contains(*c)).map(|(i, _)| i).collect();
        if !metas.is_empty() {
            let i = *rng.pick(&metas);
            s.replace_range(i..i + 1, *rng.pick(&["/", "z", "-", "%2E"]));
            return s;
        }
    }
    match rng.below(8) {
        0 => s.push('/'),
        1 => s.push_str("/zz"),
        2 => {
            if let Some(i) = s.rfind('/') {
                s.insert(i, '/');
            }
        }
        3 => {
            if let Some(i) = s[1..].find('/') {
                s.replace_range(i + 1..i + 2, "%2F");
            }
        }
        4 => {
            if let Some(i) = s.find(|c: char| c.is_ascii_lowercase()) {
                let c = s.as_bytes()[i];
                s.replace_range(i..i + 1, &format!("%{c:02X}"));
            }
        }
        5 => {
            if s.len() > 1 {
                s.pop();
            }
        }
        6 => s.push_str("?x=/a/b"),
        _ => s = format!("/{}", s.trim_start_matches('/').replacen('/', "//", 1)),
    }
    if !s.starts_with('/') {
        s.insert(0, '/');
    }
    s
}

fn gen_request(rng: &mut Rng, leaves: &[Leaf]) -> String {
    let method = *rng.pick(&["GET", "GET", "GET", "POST", "PUT"]);
    let mut exp = String::new();
    let target = if !leaves.is_empty() && rng.chance(7, 10) {
        let leaf = rng.pick(leaves);
        let (p, ps) = instantiate(rng, leaf);
        if rng.chance(1, 3) {
            mutate(rng, &p)
        } else {
            // valid only as ground truth when the path is a well-formed URI target
            if p.starts_with('/') && leaf.truth && leaf.pats.iter().any(|p| !p.is_empty()) {
                let kv: Vec<String> = ps.iter().map(|(k, v)| format!("{k}={v}")).collect();
                if kv.iter().all(|s| !s.contains(',') && !s.contains(' ')) {
                    exp = format!(" exp={}:{}", leaf.handler, kv.join(","));
                }
            }
            p
        }
    } else {
        let n = rng.range(1, 4);
        let mut s = String::new();
        for _ in 0..n {
            s.push('/');
            s.push_str(*rng.pick(RAND_SEGS));
        }
        if rng.chance(1, 6) {
            s.push('/');
        }
        s
    };
    let mut r = format!("{method} {target}");
    if rng.chance(1, 2) {
        r.push_str(&format!(" host={}", rng.pick(&["ex1", "ex2", "ex1:80", "EX1"])));
    }
    if rng.chance(1, 2) {
        r.push_str(&format!(" x-a={}", rng.pick(&["1", "2"])));
        if rng.chance(1, 5) {
            r.push_str(&format!(" x-a={}", rng.pick(&["1", "2"])));
        }
    }
    r.push_str(&exp);
    r
}

fn gen(ctx: &Ctx) -> Vec<String> {
    let mut cases = Vec::new();
    if ctx.tier != Tier::Burst {
        exhaustive_small(&mut cases);
        exhaustive_attrs(&mut cases);
        exhaustive_srvreq_and_startup(&mut cases);
        exhaustive_literal_suffix(&mut cases);
        exhaustive_configure(&mut cases);
    }
    let mut rng = Rng::new(ctx.seed);
    for _ in 0..ctx.budget(6000) {
        let mut ids = Ids { next: 0 };
        let mut s = String::from("app");
        let mut visible = Vec::new();
        if rng.chance(1, 3) {
            let d = ids.fresh();
            visible.push(d);
            s.push_str(&format!(" d={d}"));
        }
        let df = rng.chance(1, 2).then(|| ids.fresh());
        if let Some(d) = df {
            s.push_str(&format!(" df={d}"));
        }
        gen_via_attr(&mut rng, &mut s);
        s.push_str(" {");
        let mut leaves = Vec::new();
        gen_nodes(&mut rng, &mut ids, 0, &[], &mut s, &mut leaves, &visible);
        s.push_str(" }");
        let nreq = rng.range(1, 12);
        for _ in 0..nreq {
            s.push_str(" ;; ");
            s.push_str(&gen_request(&mut rng, &leaves));
        }
        cases.push(s);
    }
    cases
}

pub fn prop() -> Prop {
    Prop { rule: RULE, parallel: true, gen: Box::new(gen), run: Box::new(run) }
}
