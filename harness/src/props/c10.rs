//! C10 — path patterns match exactly their language; partial percent-decoding.
//! Public `actix_router` API only (`Quoter`, `ResourceDef`, `Path`).
//!
//! Case lines (first word selects the sub-model; strings are lower-case hex of their UTF-8
//! bytes, `-` = empty):
//!   q <protected> <in1> <in2> …      Quoter::new(b"", protected).requote(in_k) for every k
use actix_router::Quoter;

use super::Prop;
use crate::common::{hex, unhex, CaseResult, Ctx, Rng};

const RULE: &str = "q-cases: Quoter::requote on all 1- and 2-byte strings, all 3-byte strings starting with '%', \
all strings over {%,2,F,5,/,a,x} up to length 6 (batched 64 inputs per line) for the protected sets {}, {%/+}, {/}, {+}, \
plus seeded random byte strings (escape-dense) up to 2000 bytes and random protected sets (incl. non-ASCII => panic); \
a q-case is non-trivial if at least one input was changed by decoding; distinct = distinct (case, output) hashes";

// ---------------------------------------------------------------- Quoter

/// independent reference: tokenise left to right into `%HH` escapes and plain bytes
fn ref_decode(prot: &[u8], s: &[u8]) -> (Vec<u8>, usize) {
    let hexv = |b: u8| -> Option<u8> {
        match b {
            b'0'..=b'9' => Some(b - b'0'),
            b'a'..=b'f' => Some(b - b'a' + 10),
            b'A'..=b'F' => Some(b - b'A' + 10),
            _ => None,
        }
    };
    let mut out = Vec::new();
    let mut decoded = 0usize;
    let mut i = 0;
    while i < s.len() {
        if s[i] == b'%' && i + 2 < s.len() {
            if let (Some(h), Some(l)) = (hexv(s[i + 1]), hexv(s[i + 2])) {
                let v = h * 16 + l;
                if !prot.contains(&v) {
                    out.push(v);
                    decoded += 1;
                    i += 3;
                    continue;
                }
            }
        }
        out.push(s[i]);
        i += 1;
    }
    (out, decoded)
}

fn run_q(words: &[&str]) -> CaseResult {
    let prot = match unhex(words[1]) {
        Some(p) => p,
        None => return CaseResult::ok("bad-case".into()),
    };
    let q = match std::panic::catch_unwind(|| Quoter::new(b"", &prot)) {
        Ok(q) => q,
        Err(_) => {
            // documented: "Panics if any of the protected bytes are not in the 0-127 ASCII range"
            let mut r = CaseResult::ok("panic-new".into()).tag("q-panic-new");
            r.nontrivial = false;
            if prot.iter().all(|b| *b < 128) {
                r = r.fail("quoter-new-panic", format!("Quoter::new panicked on ASCII protected set {}", hex(&prot)));
            }
            return r;
        }
    };
    if prot.iter().any(|b| *b >= 128) {
        return CaseResult::ok("no-panic".into())
            .fail("quoter-new-no-panic", format!("Quoter::new accepted non-ASCII protected set {}", hex(&prot)));
    }
    let mut outs = Vec::new();
    let mut res = CaseResult::ok(String::new()).tag("q");
    let mut changed = 0usize;
    for w in &words[2..] {
        let Some(input) = unhex(w) else {
            outs.push("bad-case".to_owned());
            continue;
        };
        let got = q.requote(&input);
        let (want, n) = ref_decode(&prot, &input);
        // property text: "decodes every non-protected valid escape and nothing else"
        match &got {
            None => {
                if n != 0 {
                    res = res.fail("requote-missed", format!("in={} returned None, reference decodes {} escapes", w, n));
                }
            }
            Some(out) => {
                changed += 1;
                if n == 0 {
                    res = res.fail("requote-spurious", format!("in={} returned Some({}) but nothing is decodable", w, hex(out)));
                } else if *out != want {
                    res = res.fail("requote-value", format!("in={} got {} want {}", w, hex(out), hex(&want)));
                }
                // metamorphic: a protected, non-hex, non-% separator splits input and output alike
                for &sep in prot.iter().filter(|b| **b != b'%' && !b.is_ascii_hexdigit()) {
                    let a: Vec<Vec<u8>> = out.split(|b| *b == sep).map(|s| s.to_vec()).collect();
                    let b: Vec<Vec<u8>> = input
                        .split(|b| *b == sep)
                        .map(|s| q.requote(s).unwrap_or_else(|| s.to_vec()))
                        .collect();
                    if a != b {
                        res = res.fail("requote-separator", format!("in={} sep={:02x}: segments differ", w, sep));
                    }
                }
            }
        }
        outs.push(match got {
            None => "none".to_owned(),
            Some(o) => format!("some:{}", hex(&o)),
        });
    }
    if changed > 0 {
        res = res.tag("q-changed");
    }
    res.nontrivial = changed > 0;
    res.output = outs.join(" ");
    res
}

fn gen_q(ctx: &Ctx, rng: &mut Rng, cases: &mut Vec<String>) {
    let prots: [&[u8]; 4] = [b"", b"%/+", b"/", b"+"];
    let mut inputs: Vec<Vec<u8>> = Vec::new();
    for a in 0..=255u8 {
        inputs.push(vec![a]);
    }
    for a in 0..=255u8 {
        for b in 0..=255u8 {
            inputs.push(vec![a, b]);
            inputs.push(vec![b'%', a, b]);
        }
    }
    const AL: &[u8] = b"%2F5/ax";
    for len in 3..=6usize {
        let mut idx = vec![0usize; len];
        'outer: loop {
            inputs.push(idx.iter().map(|&i| AL[i]).collect());
            let mut k = len;
            loop {
                if k == 0 {
                    break 'outer;
                }
                k -= 1;
                idx[k] += 1;
                if idx[k] < AL.len() {
                    break;
                }
                idx[k] = 0;
            }
        }
    }
    // the exhaustive set is run with the default protected set; a quarter of it with each other set
    for (pi, prot) in prots.iter().enumerate() {
        for (ci, chunk) in inputs.chunks(64).enumerate() {
            if pi != 1 && (ci + pi) % 4 != 0 {
                continue;
            }
            let mut s = format!("q {}", hex(prot));
            for i in chunk {
                s.push(' ');
                s.push_str(&hex(i));
            }
            cases.push(s);
        }
    }
    // random, escape-dense
    const DENSE: &[u8] = b"%%%%0123456789abcdefABCDEF/+ gx\x80\xff";
    for _ in 0..ctx.budget(600) {
        let prot: Vec<u8> = if rng.chance(1, 12) {
            let n = rng.range(1, 4);
            rng.bytes(n)
        } else if rng.chance(1, 2) {
            b"%/+".to_vec()
        } else {
            let n = rng.below(5);
            (0..n).map(|_| (rng.next() % 128) as u8).collect()
        };
        let mut s = format!("q {}", hex(&prot));
        let k = rng.range(1, 8);
        for _ in 0..k {
            let n = if rng.chance(1, 10) { rng.range(100, 2000) } else { rng.range(0, 40) };
            let v: Vec<u8> = (0..n)
                .map(|_| if rng.chance(1, 6) { rng.next() as u8 } else { *rng.pick(DENSE) })
                .collect();
            s.push(' ');
            s.push_str(&hex(&v));
        }
        cases.push(s);
    }
}

fn gen(ctx: &Ctx) -> Vec<String> {
    let mut rng = Rng::new(ctx.seed);
    let mut cases = Vec::new();
    gen_q(ctx, &mut rng, &mut cases);
    cases
}

fn run(line: &str) -> CaseResult {
    let words: Vec<&str> = line.split_ascii_whitespace().collect();
    match words.first().copied() {
        Some("q") if words.len() >= 2 => run_q(&words),
        _ => {
            let mut r = CaseResult::ok("bad-case".into());
            r.nontrivial = false;
            r
        }
    }
}

pub fn prop() -> Prop {
    Prop { rule: RULE, parallel: true, gen: Box::new(gen), run: Box::new(run) }
}
