//! C10 — path patterns match exactly their language; partial percent-decoding.
//! Public `actix_router` API only (`Quoter`, `ResourceDef`, `Path`).
//!
//! Case lines (first word selects the sub-model; strings are lower-case hex of their UTF-8
//! bytes, `-` = empty):
//!   q <protected> <in1> <in2> …      Quoter::new(b"", protected).requote(in_k) for every k
//!   u <path> …                       Url::new(Uri).path() (DEFAULT_QUOTER of url.rs, protected `%/+`)
//!   m <F|P> <pats> <path>…           ResourceDef::new / ::prefix; per path is_match/find_match/capture_match_info
//!   b <F|P> <pats> <val>…            resource_path_from_iter, then capture_match_info on the built path
//!   bm <F|P> <pats> <name>=<val>…    resource_path_from_map (later duplicates win, as in HashMap::insert)
//!   k <path> <F|P>:<pat>[,<pat>…]…   successive capture_match_info calls on one Path (comma list = Patterns::List)
//!     <pats> = `S <pat>` (Patterns::Single) | `L<n> <pat>×n` (Patterns::List)
use std::panic::{catch_unwind, AssertUnwindSafe};

use actix_router::{Path, Patterns, Quoter, ResourceDef, Url};

use super::Prop;
use crate::common::{hex, unhex, CaseResult, Ctx, Rng};

const RULE: &str = "m-cases: one ResourceDef (full or prefix; single pattern or pattern list) x up to 256 paths, \
per path is_match / find_match / capture_match_info with offsets and values: exhaustive patterns of 1-2 segments from a menu of 10 shapes \
and 3 segments from a menu of 6 (static /a / a -, {x}, {x:\\d+}, {x:[ab]{2}}, {x:.*}, {x:[^/]*}, {x:a?}, tail {t}*) x all paths over {a,1,/,%,2,F} \
up to length 4 (5 in thorough), pattern lists of 0/1/2, random regexes of the modelled fragment x sampled+mutated Unicode paths, malformed patterns, \
long paths up to 65535 bytes; b/bm-cases: resource_path_from_iter / from_map then capture; k-cases: chained captures on one Path; \
an m/b/k case is non-trivial if at least one path matched (b: values legal for the pattern); u-cases: Url::new(Uri).path() (the DEFAULT_QUOTER) \
on every http-valid path over {/,%,2,5,F,f,B,4,a} up to length 5 plus random escape-rich paths; q-cases: Quoter::requote on all 1- and 2-byte strings, all 3-byte strings starting with '%', \
all strings over {%,2,F,5,/,a,x} up to length 6 (batched 64 inputs per line) for the protected sets {}, {%/+}, {/}, {+}, \
plus seeded random byte strings (escape-dense) up to 2000 bytes and random protected sets (incl. non-ASCII => panic); \
a q-case is non-trivial if at least one input was changed by decoding; distinct = distinct (case, output) hashes";

// ---------------------------------------------------------------- Quoter

/// independent reference: tokenise left to right into `%HH` escapes and plain bytes
fn ref_decode(prot: &[u8], s: &[u8]) -> (Vec<u8>, usize) {
    let hexv = |b: u8| -> Option<u8> {
        match b {
            b'0'..=b'9' => Some(b - b'0'),
            b'a'..=b'f' => Some(b - b'a' + 10),
            b'A'..=b'F' => Some(b - b'A' + 10),
            _ => None,
        }
    };
    let mut out = Vec::new();
    let mut decoded = 0usize;
    let mut i = 0;
    while i < s.len() {
        if s[i] == b'%' && i + 2 < s.len() {
            if let (Some(h), Some(l)) = (hexv(s[i + 1]), hexv(s[i + 2])) {
                let v = h * 16 + l;
                if !prot.contains(&v) {
                    out.push(v);
                    decoded += 1;
                    i += 3;
                    continue;
                }
            }
        }
        out.push(s[i]);
        i += 1;
    }
    (out, decoded)
}

fn run_q(words: &[&str]) -> CaseResult {
    let prot = match unhex(words[1]) {
        Some(p) => p,
        None => return CaseResult::ok("bad-case".into()),
    };
    let q = match std::panic::catch_unwind(|| Quoter::new(b"", &prot)) {
        Ok(q) => q,
        Err(_) => {
            // documented: "Panics if any of the protected bytes are not in the 0-127 ASCII range"
            let mut r = CaseResult::ok("panic-new".into()).tag("q-panic-new");
            r.nontrivial = false;
            if prot.iter().all(|b| *b < 128) {
                r = r.fail("quoter-new-panic", format!("Quoter::new panicked on ASCII protected set {}", hex(&prot)));
            }
            return r;
        }
    };
    if prot.iter().any(|b| *b >= 128) {
        return CaseResult::ok("no-panic".into())
            .fail("quoter-new-no-panic", format!("Quoter::new accepted non-ASCII protected set {}", hex(&prot)));
    }
    let mut outs = Vec::new();
    let mut res = CaseResult::ok(String::new()).tag("q");
    let mut changed = 0usize;
    for w in &words[2..] {
        let Some(input) = unhex(w) else {
            outs.push("bad-case".to_owned());
            continue;
        };
        let got = q.requote(&input);
        let (want, n) = ref_decode(&prot, &input);
        // property text: "decodes every non-protected valid escape and nothing else"
        match &got {
            None => {
                if n != 0 {
                    res = res.fail("requote-missed", format!("in={} returned None, reference decodes {} escapes", w, n));
                }
            }
            Some(out) => {
                changed += 1;
                if n == 0 {
                    res = res.fail("requote-spurious", format!("in={} returned Some({}) but nothing is decodable", w, hex(out)));
                } else if *out != want {
                    res = res.fail("requote-value", format!("in={} got {} want {}", w, hex(out), hex(&want)));
                }
                // metamorphic: a protected, non-hex, non-% separator splits input and output alike
                for &sep in prot.iter().filter(|b| **b != b'%' && !b.is_ascii_hexdigit()) {
                    let a: Vec<Vec<u8>> = out.split(|b| *b == sep).map(|s| s.to_vec()).collect();
                    let b: Vec<Vec<u8>> = input
                        .split(|b| *b == sep)
                        .map(|s| q.requote(s).unwrap_or_else(|| s.to_vec()))
                        .collect();
                    if a != b {
                        res = res.fail("requote-separator", format!("in={} sep={:02x}: segments differ", w, sep));
                    }
                }
            }
        }
        outs.push(match got {
            None => "none".to_owned(),
            Some(o) => format!("some:{}", hex(&o)),
        });
    }
    if changed > 0 {
        res = res.tag("q-changed");
    }
    res.nontrivial = changed > 0;
    res.output = outs.join(" ");
    res
}

/// `u <path>…`: the quoter that `Url::new` really uses (url.rs `DEFAULT_QUOTER`)
fn run_u(words: &[&str]) -> CaseResult {
    let mut res = CaseResult::ok(String::new()).tag("u");
    let mut outs = Vec::new();
    let mut changed = 0;
    for w in &words[1..] {
        let Some(p) = unhex_str(w) else {
            outs.push("bad-case".to_owned());
            continue;
        };
        let Ok(uri) = http::Uri::try_from(p.as_str()) else {
            outs.push("bad-uri".to_owned());
            continue;
        };
        let url = Url::new(uri);
        let got = url.path().to_owned();
        let (want, n) = ref_decode(b"%/+", p.as_bytes());
        if n > 0 {
            changed += 1;
        }
        if got.as_bytes() != &want[..] {
            res = res.fail("url-path-decoding", format!("Url::new({:?}).path() = {:?}, reference {:?}", p, got, String::from_utf8_lossy(&want)));
        }
        // the segment structure is untouched: same number of '/', and each segment decodes on its own
        let a: Vec<&str> = got.split('/').collect();
        let b: Vec<Vec<u8>> = p.split('/').map(|s| ref_decode(b"%/+", s.as_bytes()).0).collect();
        if a.len() != b.len() || a.iter().zip(&b).any(|(x, y)| x.as_bytes() != &y[..]) {
            res = res.fail("url-slash-moved", format!("Url::new({:?}).path() = {:?}: '/' structure changed", p, got));
        }
        outs.push(hs(&got));
    }
    res.nontrivial = changed > 0;
    res.output = outs.join(" ");
    res
}

fn gen_u(ctx: &Ctx, rng: &mut Rng, cases: &mut Vec<String>) {
    // exhaustive over a small alphabet, only what http::Uri accepts as a path; escapes stay ASCII
    // so that `from_utf8_lossy` (not modelled) is the identity
    const AL: &[char] = &['/', '%', '2', '5', 'F', 'f', 'B', '4', 'a'];
    let mut all = all_strings(AL, 5);
    for _ in 0..ctx.budget(3000) {
        let n = rng.range(1, 40);
        let mut s = String::from("/");
        for _ in 0..n {
            match rng.below(6) {
                0 => s.push_str(*rng.pick(&["%2F", "%2f", "%25", "%2B", "%41", "%7e", "%2", "%", "%G1", "%20", "%3A", "%C3%A9", "%E6%97%A5"][..])),
                1 => s.push('/'),
                _ => s.push(*rng.pick(&['a', 'b', '1', '-', '.', '_', '~', '+', ':', '@'][..])),
            }
        }
        all.push(s);
    }
    let ok: Vec<String> = all
        .into_iter()
        .filter(|s| s.starts_with('/') && http::Uri::try_from(s.as_str()).map_or(false, |u| u.path() == s))
        // `requote_str_lossy` replaces invalid UTF-8 by U+FFFD (not modelled): keep decodings that are valid UTF-8
        .filter(|s| String::from_utf8(ref_decode(b"%/+", s.as_bytes()).0).is_ok())
        .collect();
    for chunk in ok.chunks(64) {
        let mut line = String::from("u");
        for p in chunk {
            line.push(' ');
            line.push_str(&hs(p));
        }
        cases.push(line);
    }
}

fn gen_q(ctx: &Ctx, rng: &mut Rng, cases: &mut Vec<String>) {
    let prots: [&[u8]; 4] = [b"", b"%/+", b"/", b"+"];
    let mut inputs: Vec<Vec<u8>> = Vec::new();
    for a in 0..=255u8 {
        inputs.push(vec![a]);
    }
    for a in 0..=255u8 {
        for b in 0..=255u8 {
            inputs.push(vec![a, b]);
            inputs.push(vec![b'%', a, b]);
        }
    }
    const AL: &[u8] = b"%2F5/ax";
    for len in 3..=6usize {
        let mut idx = vec![0usize; len];
        'outer: loop {
            inputs.push(idx.iter().map(|&i| AL[i]).collect());
            let mut k = len;
            loop {
                if k == 0 {
                    break 'outer;
                }
                k -= 1;
                idx[k] += 1;
                if idx[k] < AL.len() {
                    break;
                }
                idx[k] = 0;
            }
        }
    }
    // the exhaustive set is run with the default protected set; a quarter of it with each other set
    for (pi, prot) in prots.iter().enumerate() {
        for (ci, chunk) in inputs.chunks(64).enumerate() {
            if pi != 1 && (ci + pi) % 4 != 0 {
                continue;
            }
            let mut s = format!("q {}", hex(prot));
            for i in chunk {
                s.push(' ');
                s.push_str(&hex(i));
            }
            cases.push(s);
        }
    }
    // random, escape-dense
    const DENSE: &[u8] = b"%%%%0123456789abcdefABCDEF/+ gx\x80\xff";
    for _ in 0..ctx.budget(600) {
        let prot: Vec<u8> = if rng.chance(1, 12) {
            let n = rng.range(1, 4);
            rng.bytes(n)
        } else if rng.chance(1, 2) {
            b"%/+".to_vec()
        } else {
            let n = rng.below(5);
            (0..n).map(|_| (rng.next() % 128) as u8).collect()
        };
        let mut s = format!("q {}", hex(&prot));
        let k = rng.range(1, 8);
        for _ in 0..k {
            let n = if rng.chance(1, 10) { rng.range(100, 2000) } else { rng.range(0, 40) };
            let v: Vec<u8> = (0..n)
                .map(|_| if rng.chance(1, 6) { rng.next() as u8 } else { *rng.pick(DENSE) })
                .collect();
            s.push(' ');
            s.push_str(&hex(&v));
        }
        cases.push(s);
    }
}

// ---------------------------------------------------------------- patterns: real code

fn hs(x: &str) -> String {
    hex(x.as_bytes())
}

/// hex string, or `part+part+…` where a part is hex or `*<n>:<hex>` (the bytes repeated n times)
fn unhex_str(w: &str) -> Option<String> {
    if !w.contains('+') && !w.starts_with('*') {
        return String::from_utf8(unhex(w)?).ok();
    }
    let mut out = Vec::new();
    for part in w.split('+') {
        match part.strip_prefix('*') {
            Some(rep) => {
                let (n, h) = rep.split_once(':')?;
                let n: usize = n.parse().ok()?;
                let b = unhex(h)?;
                for _ in 0..n {
                    out.extend_from_slice(&b);
                }
            }
            None => out.extend_from_slice(&unhex(part)?),
        }
    }
    String::from_utf8(out).ok()
}

/// `S <pat>` | `L<n> <pat>×n` → (patterns, is_single, rest)
fn take_patterns<'a>(ws: &'a [&'a str]) -> Option<(Vec<String>, bool, &'a [&'a str])> {
    match ws.first().copied()? {
        "S" => Some((vec![unhex_str(ws.get(1)?)?], true, &ws[2..])),
        spec if spec.starts_with('L') => {
            let n: usize = spec[1..].parse().ok()?;
            if ws.len() < 1 + n {
                return None;
            }
            let ps: Option<Vec<String>> = ws[1..1 + n].iter().map(|w| unhex_str(w)).collect();
            Some((ps?, false, &ws[1 + n..]))
        }
        _ => None,
    }
}

fn mk_def(prefix: bool, pats: &[String], single: bool) -> Option<ResourceDef> {
    let pats = pats.to_vec();
    catch_unwind(AssertUnwindSafe(move || {
        if single {
            if prefix {
                ResourceDef::prefix(pats[0].as_str())
            } else {
                ResourceDef::new(pats[0].as_str())
            }
        } else if prefix {
            ResourceDef::prefix(Patterns::List(pats))
        } else {
            ResourceDef::new(Patterns::List(pats))
        }
    }))
    .ok()
}

/// observable state of a `Path` after a successful capture: skip and (name, start, end, value)
struct Seen {
    skip: usize,
    segs: Vec<(String, Option<(usize, usize, String)>)>,
}

fn observe(p: &Path<&str>) -> Seen {
    let full = p.as_str();
    let skip = full.len() - p.unprocessed().len();
    let base = full.as_ptr() as usize;
    // `iter()` slices the path; bad offsets make it panic, then every value is unreadable
    let all = catch_unwind(AssertUnwindSafe(|| {
        p.iter()
            .map(|(k, v)| {
                let st = v.as_ptr() as usize - base;
                (k.to_owned(), Some((st, st + v.len(), v.to_owned())))
            })
            .collect::<Vec<_>>()
    }));
    let segs = match all {
        Ok(v) => v,
        Err(_) => (0..p.segment_count()).map(|i| (format!("?{i}"), None)).collect(),
    };
    Seen { skip, segs }
}

fn show_seen(s: &Seen) -> String {
    let parts: Vec<String> = s
        .segs
        .iter()
        .map(|(n, v)| match v {
            Some((st, en, val)) => format!("{}={}-{}:{}", n, st, en, hs(val)),
            None => format!("{}=!", n),
        })
        .collect();
    format!("{}{{{}}}", s.skip, parts.join(","))
}

// ---------------------------------------------------------------- patterns: independent reference
// The property's own words: static text matches itself, a dynamic segment matches a non-empty run
// without '/', a custom regex / tail segment matches its language, prefixes stop only at a segment
// boundary.  Evaluated by set-of-positions reachability (no backtracking, no priorities).

#[derive(Clone, Debug)]
enum RAtom {
    Lit(char),
    Cls(bool, Vec<(char, char)>),
    Any,
}

impl RAtom {
    fn ok(&self, c: char) -> bool {
        match self {
            RAtom::Lit(x) => *x == c,
            RAtom::Cls(neg, rs) => *neg != rs.iter().any(|(lo, hi)| *lo <= c && c <= *hi),
            RAtom::Any => true,
        }
    }
}

#[derive(Clone, Debug)]
struct RPiece {
    a: RAtom,
    min: usize,
    max: Option<usize>,
}

#[derive(Clone, Debug)]
enum RSeg {
    Const(Vec<char>),
    Var(String, Vec<RPiece>),
}

#[derive(Clone, Debug)]
struct RPat {
    segs: Vec<RSeg>,
    tail: bool,
}

fn ref_class(cs: &[char], mut i: usize) -> Option<(RAtom, usize)> {
    // cs[i] is the char after '['
    let neg = cs.get(i) == Some(&'^');
    if neg {
        i += 1;
    }
    let mut rs = Vec::new();
    loop {
        let c = *cs.get(i)?;
        if c == ']' {
            if rs.is_empty() {
                return None;
            }
            return Some((RAtom::Cls(neg, rs), i + 1));
        }
        if c == '\\' {
            match *cs.get(i + 1)? {
                'd' => rs.push(('0', '9')),
                e if e.is_ascii_punctuation() && e != '<' && e != '>' => rs.push((e, e)),
                _ => return None,
            }
            i += 2;
            continue;
        }
        if "[&~-^".contains(c) {
            return None;
        }
        if cs.get(i + 1) == Some(&'-') && cs.get(i + 2).map_or(false, |h| !"]\\[".contains(*h)) {
            let hi = cs[i + 2];
            if c > hi {
                return None;
            }
            rs.push((c, hi));
            i += 3;
        } else if cs.get(i + 1) == Some(&'-') {
            return None;
        } else {
            rs.push((c, c));
            i += 1;
        }
    }
}

fn ref_regex(re: &str) -> Option<Vec<RPiece>> {
    let cs: Vec<char> = re.chars().collect();
    let mut i = 0;
    let mut out = Vec::new();
    while i < cs.len() {
        let (a, mut j) = match cs[i] {
            '.' => (RAtom::Any, i + 1),
            '\\' => match *cs.get(i + 1)? {
                'd' => (RAtom::Cls(false, vec![('0', '9')]), i + 2),
                e if e.is_ascii_punctuation() && e != '<' && e != '>' => (RAtom::Lit(e), i + 2),
                _ => return None,
            },
            '[' => ref_class(&cs, i + 1)?,
            c if "\\.+*?()|[]{}^$".contains(c) => return None,
            c => (RAtom::Lit(c), i + 1),
        };
        let (min, max) = match cs.get(j) {
            Some('+') => {
                j += 1;
                (1, None)
            }
            Some('*') => {
                j += 1;
                (0, None)
            }
            Some('?') => {
                j += 1;
                (0, Some(1))
            }
            Some('{') => {
                let close = j + cs[j..].iter().position(|c| *c == '}')?;
                let body: String = cs[j + 1..close].iter().collect();
                j = close + 1;
                let num = |s: &str| -> Option<usize> {
                    if s.is_empty() || !s.chars().all(|c| c.is_ascii_digit()) {
                        None
                    } else {
                        s.parse().ok()
                    }
                };
                match body.split_once(',') {
                    None => {
                        let n = num(&body)?;
                        (n, Some(n))
                    }
                    Some((a, "")) => (num(a)?, None),
                    Some((a, b)) => {
                        let (a, b) = (num(a)?, num(b)?);
                        if a > b {
                            return None;
                        }
                        (a, Some(b))
                    }
                }
            }
            _ => (1, Some(1)),
        };
        if matches!(cs.get(j), Some('+' | '*' | '?' | '{')) && j > i + 1 && matches!(cs.get(j - 1), Some('+' | '*' | '?' | '}')) {
            return None; // lazy / stacked quantifier: outside the fragment
        }
        out.push(RPiece { a, min, max });
        i = j;
    }
    Some(out)
}

/// independent pattern reader; `None` = not a pattern this reference understands
fn ref_parse(pat: &str, force_dynamic: bool) -> Option<RPat> {
    let cs: Vec<char> = pat.chars().collect();
    if !cs.contains(&'{') {
        if cs.last() == Some(&'*') {
            return None; // unnamed tail: the code only warns; no defined meaning
        }
        let _ = force_dynamic;
        return Some(RPat { segs: vec![RSeg::Const(cs)], tail: false });
    }
    let mut segs = Vec::new();
    let mut i = 0;
    let mut lit = Vec::new();
    let mut tail = false;
    let mut names: Vec<String> = Vec::new();
    while i < cs.len() {
        if cs[i] != '{' {
            lit.push(cs[i]);
            i += 1;
            continue;
        }
        // matching close brace
        let mut depth = 0usize;
        let mut j = i;
        let close = loop {
            match cs.get(j)? {
                '{' => depth += 1,
                '}' => {
                    depth -= 1;
                    if depth == 0 {
                        break j;
                    }
                }
                _ => {}
            }
            j += 1;
        };
        let inner: String = cs[i + 1..close].iter().collect();
        let is_tail = close + 2 == cs.len() && cs[close + 1] == '*';
        let (name, re) = match inner.split_once(':') {
            Some((n, r)) => {
                if is_tail {
                    return None;
                }
                (n.to_owned(), ref_regex(r)?)
            }
            None => (
                inner.clone(),
                if is_tail {
                    vec![RPiece { a: RAtom::Any, min: 0, max: None }]
                } else {
                    vec![RPiece { a: RAtom::Cls(true, vec![('/', '/')]), min: 1, max: None }]
                },
            ),
        };
        let mut ch = name.chars();
        let first_ok = ch.next().map_or(false, |c| c == '_' || c.is_ascii_alphabetic());
        if !first_ok || !ch.all(|c| c == '_' || c.is_ascii_alphanumeric()) || names.contains(&name) {
            return None;
        }
        names.push(name.clone());
        segs.push(RSeg::Const(std::mem::take(&mut lit)));
        segs.push(RSeg::Var(name, re));
        i = close + 1;
        if is_tail {
            tail = true;
            i += 1;
        }
    }
    if lit.last() == Some(&'*') {
        return None;
    }
    if !lit.is_empty() {
        segs.push(RSeg::Const(lit));
    }
    if names.len() > 16 {
        return None;
    }
    Some(RPat { segs, tail })
}

/// all positions (char indices) reachable after `pieces`, starting from any position in `from`
fn reach_re(pieces: &[RPiece], path: &[char], from: &[bool]) -> Vec<bool> {
    let n = path.len();
    let mut cur = from.to_vec();
    for p in pieces {
        let mut nxt = vec![false; n + 1];
        for st in 0..=n {
            if !cur[st] {
                continue;
            }
            let mut run = 0;
            while st + run < n && p.a.ok(path[st + run]) && p.max.map_or(true, |m| run < m) {
                run += 1;
            }
            for k in p.min..=run {
                nxt[st + k] = true;
            }
        }
        cur = nxt;
    }
    cur
}

fn in_lang(pieces: &[RPiece], val: &[char]) -> bool {
    let mut from = vec![false; val.len() + 1];
    from[0] = true;
    reach_re(pieces, val, &from)[val.len()]
}

fn suffix_ok(p: &RPat, prefix: bool, path: &[char], e: usize) -> bool {
    if p.tail {
        true
    } else if prefix {
        e == path.len() || path[e] == '/'
    } else {
        e == path.len()
    }
}

/// ground truth "does the pattern match the path" + the set of admissible match ends (char idx)
fn ref_ends(p: &RPat, prefix: bool, path: &[char]) -> Vec<usize> {
    let n = path.len();
    let mut cur = vec![false; n + 1];
    cur[0] = true;
    for seg in &p.segs {
        match seg {
            RSeg::Const(s) => {
                let mut nxt = vec![false; n + 1];
                for st in 0..=n {
                    if cur[st] && st + s.len() <= n && path[st..st + s.len()] == s[..] {
                        nxt[st + s.len()] = true;
                    }
                }
                cur = nxt;
            }
            RSeg::Var(_, re) => cur = reach_re(re, path, &cur),
        }
    }
    (0..=n).filter(|&e| cur[e] && suffix_ok(p, prefix, path, e)).collect()
}

/// number of ways (capped at 2) to split `path` entirely into the pattern's segments
fn count_decomps(p: &RPat, path: &[char]) -> u32 {
    let n = path.len();
    let mut cur = vec![0u32; n + 1];
    cur[0] = 1;
    for seg in &p.segs {
        let mut nxt = vec![0u32; n + 1];
        for st in 0..=n {
            if cur[st] == 0 {
                continue;
            }
            match seg {
                RSeg::Const(s) => {
                    if st + s.len() <= n && path[st..st + s.len()] == s[..] {
                        nxt[st + s.len()] = (nxt[st + s.len()] + cur[st]).min(2);
                    }
                }
                RSeg::Var(_, re) => {
                    for e in st..=n {
                        if in_lang(re, &path[st..e]) {
                            nxt[e] = (nxt[e] + cur[st]).min(2);
                        }
                    }
                }
            }
        }
        cur = nxt;
    }
    cur[n]
}

/// check one successful capture against the words of the property; `Err(detail)` if it fails
fn check_capture(p: &RPat, prefix: bool, path: &str, seen: &Seen) -> Result<(), (String, String)> {
    let chars: Vec<char> = path.chars().collect();
    let vars: Vec<(&String, &Vec<RPiece>)> = p
        .segs
        .iter()
        .filter_map(|s| if let RSeg::Var(n, re) = s { Some((n, re)) } else { None })
        .collect();
    if vars.len() != seen.segs.len() {
        return Err(("capture-count".into(), format!("{} values for {} dynamic segments", seen.segs.len(), vars.len())));
    }
    let mut pos = 0usize; // byte offset
    let mut vi = 0;
    for seg in &p.segs {
        match seg {
            RSeg::Const(s) => {
                let s: String = s.iter().collect();
                if !path[pos.min(path.len())..].starts_with(&s) {
                    return Err(("capture-not-concatenation".into(), format!("static text {:?} not at byte {}", s, pos)));
                }
                pos += s.len();
            }
            RSeg::Var(name, re) => {
                let (n, v) = &seen.segs[vi];
                vi += 1;
                let Some((st, en, val)) = v else {
                    return Err(("capture-slice-panic".into(), format!("value of {} cannot be read", n)));
                };
                if n != name {
                    return Err(("capture-name".into(), format!("got {} want {}", n, name)));
                }
                if *st != pos || path.get(*st..*en) != Some(val.as_str()) {
                    return Err(("capture-not-substring".into(), format!("{}: offsets {}-{} value {:?}, expected start {}", n, st, en, val, pos)));
                }
                let vc: Vec<char> = val.chars().collect();
                if !in_lang(re, &vc) {
                    return Err(("capture-not-in-language".into(), format!("{}={:?} is not in the segment's language", n, val)));
                }
                pos = *en;
            }
        }
    }
    if pos != seen.skip {
        return Err(("capture-length".into(), format!("statics+values end at byte {}, matched length {}", pos, seen.skip)));
    }
    let e = path[..pos].chars().count();
    if !suffix_ok(p, prefix, &chars, e) {
        return Err(("capture-boundary".into(), format!("match ends at byte {} which is not a segment boundary", pos)));
    }
    Ok(())
}

// ---------------------------------------------------------------- m / b / k cases

fn run_m(prefix: bool, ws: &[&str]) -> CaseResult {
    let Some((pats, single, paths)) = take_patterns(ws) else {
        return CaseResult::ok("bad-case".into());
    };
    let mut res = CaseResult::ok(String::new());
    res.nontrivial = false;
    let Some(rd) = mk_def(prefix, &pats, single) else {
        res.output = "panic".into();
        return res.tag("m-new-panic");
    };
    let refs: Vec<Option<RPat>> = pats.iter().map(|p| ref_parse(p, !single)).collect();
    let all_ref = refs.iter().all(|r| r.is_some());
    res = res.tag(if !single {
        "m-set"
    } else if pats[0].contains('{') || pats[0].ends_with('*') {
        "m-dynamic"
    } else {
        "m-static"
    });
    res = res.tag(if prefix { "m-prefix" } else { "m-full" });
    let mut outs = Vec::new();
    let (mut n_match, mut n_cap) = (0usize, 0usize);
    for w in paths {
        let Some(path) = unhex_str(w) else {
            outs.push("bad-case".to_owned());
            continue;
        };
        let had_fail = res.fail.is_some();
        let minimal = format!(" | minimal case: m {} {} {}", if prefix { "P" } else { "F" }, pats_words(&pats, single), w);
        let in_scope = path.len() < 65536; // `http::Uri` never hands out longer paths
        let is = rd.is_match(&path);
        let find = rd.find_match(&path);
        let mut p = Path::new(path.as_str());
        let cap = catch_unwind(AssertUnwindSafe(|| rd.capture_match_info(&mut p)));
        let cap_s = match cap {
            Err(_) => {
                if in_scope {
                    res = res.fail("capture-panic", format!("capture_match_info panicked on path {}", w));
                }
                "PANIC".to_owned()
            }
            Ok(false) => "-".to_owned(),
            Ok(true) => {
                let seen = observe(&p);
                n_match += 1;
                if !seen.segs.is_empty() {
                    n_cap += 1;
                }
                if in_scope {
                    // the three ways agree on the length
                    if find != Some(seen.skip) {
                        res = res.fail("three-disagree-length", format!("path {}: find_match={:?} capture skip={}", w, find, seen.skip));
                    }
                    if all_ref {
                        // first pattern (in order) whose language contains a boundary-ended prefix
                        let chars: Vec<char> = path.chars().collect();
                        let first = refs.iter().flatten().find(|r| !ref_ends(r, prefix, &chars).is_empty());
                        match first {
                            None => res = res.fail("match-not-in-language", format!("path {} matched but no pattern's language contains a prefix of it", w)),
                            Some(r) => {
                                if let Err((sig, d)) = check_capture(r, prefix, &path, &seen) {
                                    res = res.fail(&sig, format!("path {}: {}", w, d));
                                }
                            }
                        }
                    }
                }
                show_seen(&seen)
            }
        };
        if in_scope {
            let cap_ok = cap_s != "-" && cap_s != "PANIC";
            if is != find.is_some() || is != cap_ok {
                res = res.fail(
                    "three-disagree",
                    format!("path {}: is_match={} find_match={:?} capture_match_info={}", w, is, find, cap_s),
                );
            }
            if all_ref {
                let chars: Vec<char> = path.chars().collect();
                let truth = refs.iter().flatten().any(|r| !ref_ends(r, prefix, &chars).is_empty());
                if truth != is {
                    res = res.fail(
                        if truth { "language-missed" } else { "language-extra" },
                        format!("path {}: is_match={} but the pattern language says {}", w, is, truth),
                    );
                }
            }
        } else {
            res = res.tag("m-over-64k");
            // fix 448eed6: a dynamic pattern / pattern list never captures a path longer than u16::MAX
            // (no truncated offsets, no panic); the static arm is not guarded
            let is_static = single && !pats[0].contains('{') && !pats[0].ends_with('*');
            if !is_static && cap_s != "-" {
                res = res.fail("long-path-captured", format!("path of {} bytes: capture_match_info = {}", path.len(), &cap_s[..cap_s.len().min(60)]));
            }
        }
        if !had_fail {
            if let Some((_, d)) = res.fail.as_mut() {
                d.push_str(&minimal);
            }
        }
        outs.push(format!(
            "{}/{}/{}",
            is as u8,
            find.map(|n| n.to_string()).unwrap_or_else(|| "-".into()),
            cap_s
        ));
    }
    if n_match > 0 {
        res = res.tag("m-matched");
    }
    if n_cap > 0 {
        res = res.tag("m-captured");
    }
    if !all_ref {
        res = res.tag("m-no-reference");
    }
    res.nontrivial = n_match > 0;
    res.output = outs.join(" ");
    res
}

fn run_b(prefix: bool, ws: &[&str]) -> CaseResult {
    let Some((pats, single, vals)) = take_patterns(ws) else {
        return CaseResult::ok("bad-case".into());
    };
    let mut res = CaseResult::ok(String::new()).tag("b");
    res.nontrivial = false;
    let Some(rd) = mk_def(prefix, &pats, single) else {
        res.output = "panic".into();
        return res.tag("b-new-panic");
    };
    let vals: Vec<String> = match vals.iter().map(|w| unhex_str(w)).collect() {
        Some(v) => v,
        None => return CaseResult::ok("bad-case".into()),
    };
    let mut built = String::new();
    let ok = rd.resource_path_from_iter(&mut built, &vals);
    let mut p = Path::new(built.as_str());
    let cap = catch_unwind(AssertUnwindSafe(|| rd.capture_match_info(&mut p)));
    let cap_s = match &cap {
        Err(_) => "PANIC".to_owned(),
        Ok(false) => "-".to_owned(),
        Ok(true) => show_seen(&observe(&p)),
    };
    res.output = format!("{}:{} {}", ok as u8, hs(&built), cap_s);
    // oracle: "a path built from a pattern and values matches that pattern and yields those values back"
    if let (true, Some(r)) = (ok, ref_parse(&pats[0], !single)) {
        let vars: Vec<&Vec<RPiece>> = r.segs.iter().filter_map(|s| if let RSeg::Var(_, re) = s { Some(re) } else { None }).collect();
        let used = &vals[..vars.len().min(vals.len())];
        let legal = used.len() == vars.len()
            && used.iter().zip(&vars).all(|(v, re)| in_lang(re, &v.chars().collect::<Vec<_>>()))
            && built.len() < 65536;
        if legal {
            res.nontrivial = true;
            res = res.tag("b-legal");
            match cap {
                Ok(true) => {
                    let seen = observe(&p);
                    let got: Vec<String> = seen.segs.iter().map(|(_, v)| v.as_ref().map(|x| x.2.clone()).unwrap_or_default()).collect();
                    // re-building from what was captured must give the same path
                    let mut again = String::new();
                    let ok2 = rd.resource_path_from_iter(&mut again, &got);
                    if !ok2 || again != built {
                        res = res.fail("build-rebuild", format!("built {:?}, captured {:?}, rebuilt {:?}", built, got, again));
                    }
                    if single && got != used {
                        // are the given values simply not recoverable (two different value tuples build this path)?
                        let ways = count_decomps(&r, &built.chars().collect::<Vec<_>>());
                        let sig = if ways >= 2 { "build-values-ambiguous" } else { "build-values-wrong" };
                        res = res
                            .tag("b-values-differ")
                            .fail(sig, format!("pattern {:?} values {:?} built {:?} captured back {:?}", pats[0], used, built, got));
                    }
                }
                _ => {
                    res = res.fail("build-no-match", format!("pattern {:?} values {:?} built {:?} does not match", pats[0], used, built));
                }
            }
        }
    }
    res
}

fn run_bm(prefix: bool, ws: &[&str]) -> CaseResult {
    let Some((pats, single, kvs)) = take_patterns(ws) else {
        return CaseResult::ok("bad-case".into());
    };
    let mut res = CaseResult::ok(String::new()).tag("bm");
    res.nontrivial = false;
    let Some(rd) = mk_def(prefix, &pats, single) else {
        res.output = "panic".into();
        return res;
    };
    let mut map = std::collections::HashMap::new();
    for kv in kvs {
        let Some((k, v)) = kv.split_once('=') else { return CaseResult::ok("bad-case".into()) };
        let (Some(k), Some(v)) = (unhex_str(k), unhex_str(v)) else { return CaseResult::ok("bad-case".into()) };
        map.insert(k, v);
    }
    let mut built = String::new();
    let ok = rd.resource_path_from_map(&mut built, &map);
    res.output = format!("{}:{}", ok as u8, hs(&built));
    // oracle: from_map with the names of the first pattern = from_iter with the values in order
    if let Some(r) = ref_parse(&pats[0], !single) {
        let names: Vec<&String> = r.segs.iter().filter_map(|s| if let RSeg::Var(n, _) = s { Some(n) } else { None }).collect();
        if let Some(vals) = names.iter().map(|n| map.get(*n).cloned()).collect::<Option<Vec<String>>>() {
            let mut again = String::new();
            let ok2 = rd.resource_path_from_iter(&mut again, &vals);
            res.nontrivial = ok && !vals.is_empty();
            if !ok || !ok2 || again != built {
                res = res.fail("build-map-vs-iter", format!("from_map {:?}/{} from_iter {:?}/{}", built, ok, again, ok2));
            }
        } else if ok {
            res = res.fail("build-map-missing", format!("from_map succeeded although a name is missing: {:?}", built));
        }
    }
    res
}

fn run_k(ws: &[&str]) -> CaseResult {
    let Some(path) = ws.first().and_then(|w| unhex_str(w)) else {
        return CaseResult::ok("bad-case".into());
    };
    let mut res = CaseResult::ok(String::new()).tag("k");
    res.nontrivial = false;
    let mut outs = Vec::new();
    let mut p = Path::new(path.as_str());
    let mut prev_skip = 0usize;
    for step in &ws[1..] {
        let Some((flag, pat)) = step.split_once(':') else {
            outs.push("bad-case".to_owned());
            break;
        };
        // one pattern, or a comma-separated pattern list (Patterns::List)
        let Some(pats) = pat.split(',').map(unhex_str).collect::<Option<Vec<String>>>() else {
            outs.push("bad-case".to_owned());
            break;
        };
        let single = pats.len() == 1;
        let pat = pats[0].clone();
        let prefix = flag == "P";
        let Some(rd) = mk_def(prefix, &pats, single) else {
            outs.push("panic".to_owned());
            break;
        };
        let is_static = single && !pat.contains('{') && !pat.ends_with('*');
        let before = p.unprocessed().to_owned();
        let nseg = p.segment_count();
        match catch_unwind(AssertUnwindSafe(|| rd.capture_match_info(&mut p))) {
            Err(_) => {
                if path.len() < 65536 || !is_static {
                    res = res.fail("capture-panic", format!("capture_match_info panicked at step {}", step));
                }
                outs.push("PANIC".to_owned());
                break;
            }
            Ok(false) => {
                if p.unprocessed() != before || p.segment_count() != nseg {
                    res = res.fail("chain-touched", format!("step {} returned false but changed the path state", step));
                }
                outs.push("-".to_owned());
            }
            Ok(true) => {
                let seen = observe(&p);
                res.nontrivial = true;
                if path.len() > 65535 && !is_static {
                    // `Path` offsets are u16 and absolute: whatever an outer prefix has already consumed, a dynamic
                    // pattern / pattern list must decline a path longer than u16::MAX (fix 448eed6)
                    res = res.fail(
                        "long-path-captured",
                        format!("path of {} bytes, skip {} before step {}: capture_match_info = {}", path.len(), prev_skip, step, &show_seen(&seen).chars().take(80).collect::<String>()),
                    );
                }
                if path.len() < 65536 {
                    // the step behaves on the unprocessed rest exactly like a fresh match on that rest
                    let mut fresh = Path::new(before.as_str());
                    let ok = rd.capture_match_info(&mut fresh);
                    let f = observe(&fresh);
                    let shifted: Vec<_> = f
                        .segs
                        .iter()
                        .map(|(n, v)| (n.clone(), v.as_ref().map(|(s, e, x)| (s + prev_skip, e + prev_skip, x.clone()))))
                        .collect();
                    if !ok || seen.skip != prev_skip + f.skip || seen.segs[nseg..] != shifted[..] {
                        res = res.fail("chain-offsets", format!("step {}: state {} vs fresh match {} shifted by {}", step, show_seen(&seen), show_seen(&f), prev_skip));
                    }
                }
                prev_skip = seen.skip;
                outs.push(show_seen(&seen));
            }
        }
    }
    res.output = outs.join(" ");
    res
}

// ---------------------------------------------------------------- generators

fn all_strings(alpha: &[char], max_len: usize) -> Vec<String> {
    let mut out = vec![String::new()];
    let mut start = 0;
    for _ in 0..max_len {
        let end = out.len();
        for i in start..end {
            for c in alpha {
                let mut s = out[i].clone();
                s.push(*c);
                out.push(s);
            }
        }
        start = end;
    }
    out
}

fn pats_words(pats: &[String], single: bool) -> String {
    if single {
        format!("S {}", hs(&pats[0]))
    } else {
        let v: Vec<String> = pats.iter().map(|p| hs(p)).collect();
        format!("L{} {}", pats.len(), v.join(" ")).trim_end().to_owned()
    }
}

fn push_m(cases: &mut Vec<String>, prefix: bool, pats: &[String], single: bool, paths: &[String]) {
    for chunk in paths.chunks(256) {
        let mut s = format!("m {} {}", if prefix { "P" } else { "F" }, pats_words(pats, single));
        for p in chunk {
            s.push(' ');
            s.push_str(&hs(p));
        }
        cases.push(s);
    }
}

const NAMES: [&str; 4] = ["x", "y", "z", "w"];

/// menu of segment shapes; `#` is replaced by the positional name
const MENU: &[&str] = &["/a", "/", "a", "-", "{#}", "{#:\\d+}", "{#:[ab]{2}}", "{#:.*}", "{#:[^/]*}", "{#:a?}"];
const MENU3: &[&str] = &["/a", "/", "{#}", "{#:\\d+}", "{#:[a1]{1,2}}", "-"];

fn inst(seg: &str, i: usize) -> String {
    seg.replace('#', NAMES[i])
}

fn gen_exhaustive(ctx: &Ctx, cases: &mut Vec<String>) {
    let alpha = ['a', '1', '/', '%', '2', 'F'];
    let deep = !matches!(ctx.tier, crate::common::Tier::Quick);
    let paths4 = all_strings(&alpha, if deep { 5 } else { 4 });
    let mut pats: Vec<String> = Vec::new();
    for a in MENU {
        pats.push(inst(a, 0));
        pats.push(format!("{}{{t}}*", inst(a, 0)));
        for b in MENU {
            pats.push(format!("{}{}", inst(a, 0), inst(b, 1)));
        }
    }
    pats.push("{t}*".into());
    pats.push("".into());
    for a in MENU3 {
        for b in MENU3 {
            for c in MENU3 {
                pats.push(format!("{}{}{}", inst(a, 0), inst(b, 1), inst(c, 2)));
            }
            pats.push(format!("{}{}{{t}}*", inst(a, 0), inst(b, 1)));
        }
    }
    for p in &pats {
        for prefix in [false, true] {
            push_m(cases, prefix, &[p.clone()], true, &paths4);
        }
    }
    // multi-byte characters: byte offsets vs character counts, exhaustively on a tiny alphabet
    let upaths = all_strings(&['a', '/', 'é', '😀'], 4);
    for a in MENU {
        for prefix in [false, true] {
            push_m(cases, prefix, &[inst(a, 0)], true, &upaths);
            push_m(cases, prefix, &[format!("/é{}", inst(a, 0))], true, &upaths);
            push_m(cases, prefix, &[format!("{}{{y:.{{1,2}}}}", inst(a, 0))], true, &upaths);
        }
    }
    // pattern lists of ≤ 2 (and the degenerate lists of 0 and 1)
    let small = ["/a", "/{x}", "{x}", "/{x:\\d+}", "/a/{x}", "/{x}/{y}", "{x}-{y}", "/{t}*", "/a{x:[ab]{2}}", ""];
    let paths3 = all_strings(&alpha, 4);
    for prefix in [false, true] {
        push_m(cases, prefix, &[], false, &paths3[..40]);
        for a in small {
            push_m(cases, prefix, &[a.to_owned()], false, &paths3);
            for b in small {
                push_m(cases, prefix, &[a.to_owned(), b.to_owned()], false, &paths3);
            }
        }
    }
}

/// a random regex of the fragment, as text
fn rand_regex(rng: &mut Rng) -> String {
    const ATOMS: &[&str] = &["a", "1", "\\d", "[a-z_]", ".", "[ab]", "[^/]", "[a-c1]", "[^a/]", "\\.", "-", "[\\d_]", "é", "%", "F", "[^1-2]"];
    const QUANTS: &[&str] = &["", "", "+", "*", "?", "{2}", "{1,2}", "{0,1}", "{1,}", "{0}", "{3}"];
    let n = rng.range(1, 3);
    let mut s = String::new();
    for _ in 0..n {
        s.push_str(*rng.pick(ATOMS));
        s.push_str(*rng.pick(QUANTS));
    }
    s
}

fn rand_pattern(rng: &mut Rng) -> String {
    const STATICS: &[&str] = &["/", "/a", "/user", "a", "-", ".", "/é", "/a.b", "_", "//", "/1", "%2F", "/a}"];
    let n = rng.range(0, 4);
    let mut s = String::new();
    let mut vi = 0;
    for i in 0..n {
        match rng.below(5) {
            0 | 1 => s.push_str(*rng.pick(STATICS)),
            2 => {
                s.push_str(&format!("{{v{}}}", vi));
                vi += 1;
            }
            3 => {
                s.push_str(&format!("{{v{}:{}}}", vi, rand_regex(rng)));
                vi += 1;
            }
            _ => {
                if i + 1 == n && rng.chance(1, 2) {
                    s.push_str(&format!("{{v{}}}*", vi));
                    vi += 1;
                } else {
                    s.push('/');
                    s.push_str(&format!("{{v{}}}", vi));
                    vi += 1;
                }
            }
        }
    }
    s
}

/// a random member of the language of `re` (or a near miss)
fn sample_re(rng: &mut Rng, re: &[RPiece], out: &mut String) {
    const POOL: &[char] = &['a', 'b', 'c', '1', '2', '9', '/', '-', '.', '_', '%', 'F', 'é', '日', '😀', '\n', 'x', ' '];
    for p in re {
        let hi = p.max.unwrap_or(p.min + 3).max(p.min);
        let k = rng.range(p.min, hi);
        for _ in 0..k {
            // rejection-sample a matching char
            for _ in 0..40 {
                let c = *rng.pick(POOL);
                if p.a.ok(c) {
                    out.push(c);
                    break;
                }
            }
        }
    }
}

fn sample_path(rng: &mut Rng, r: &RPat) -> String {
    let mut s = String::new();
    for seg in &r.segs {
        match seg {
            RSeg::Const(c) => s.extend(c.iter()),
            RSeg::Var(_, re) => sample_re(rng, re, &mut s),
        }
    }
    s
}

fn mutate(rng: &mut Rng, s: &str) -> String {
    const POOL: &[char] = &['a', '1', '/', '-', '.', '%', 'é', 'b', '2', '_', '日'];
    let mut cs: Vec<char> = s.chars().collect();
    match rng.below(5) {
        0 if !cs.is_empty() => {
            let i = rng.below(cs.len());
            cs.remove(i);
        }
        1 => {
            let i = rng.below(cs.len() + 1);
            cs.insert(i, *rng.pick(POOL));
        }
        2 => {
            cs.push('/');
            for _ in 0..rng.below(4) {
                cs.push(*rng.pick(POOL));
            }
        }
        3 if !cs.is_empty() => {
            let i = rng.below(cs.len());
            cs[i] = *rng.pick(POOL);
        }
        _ => {
            for _ in 0..rng.range(1, 3) {
                cs.push(*rng.pick(POOL));
            }
        }
    }
    cs.into_iter().collect()
}

fn gen_random(ctx: &Ctx, rng: &mut Rng, cases: &mut Vec<String>) {
    for _ in 0..ctx.budget(3000) {
        let npat = if rng.chance(1, 5) { rng.range(2, 3) } else { 1 };
        let pats: Vec<String> = (0..npat).map(|_| rand_pattern(rng)).collect();
        let single = npat == 1 && !rng.chance(1, 20);
        let prefix = rng.chance(1, 2);
        let mut paths = Vec::new();
        for p in &pats {
            if let Some(r) = ref_parse(p, !single) {
                for _ in 0..4 {
                    let s = sample_path(rng, &r);
                    paths.push(mutate(rng, &s));
                    if prefix && rng.chance(1, 2) {
                        paths.push(format!("{}/{}", s, if rng.chance(1, 2) { "rest" } else { "" }));
                    }
                    paths.push(s);
                }
            }
        }
        for _ in 0..3 {
            let n = rng.below(8);
            paths.push((0..n).map(|_| *rng.pick(&['a', '1', '/', '-', '.', 'é', 'b'])).collect());
        }
        push_m(cases, prefix, &pats, single, &paths);
        // build + re-capture
        if single && rng.chance(1, 2) {
            if let Some(r) = ref_parse(&pats[0], false) {
                let mut vals = Vec::new();
                for seg in &r.segs {
                    if let RSeg::Var(_, re) = seg {
                        let mut v = String::new();
                        sample_re(rng, re, &mut v);
                        vals.push(v);
                    }
                }
                if rng.chance(1, 10) && !vals.is_empty() {
                    vals.pop();
                }
                if rng.chance(1, 10) {
                    vals.push("extra".into());
                }
                let vs: Vec<String> = vals.iter().map(|v| hs(v)).collect();
                cases.push(format!("b {} {} {}", if prefix { "P" } else { "F" }, pats_words(&pats, true), vs.join(" ")).trim_end().to_owned());
                // the same through resource_path_from_map (names of the pattern, shuffled, maybe one missing / extra / doubled)
                let mut kvs: Vec<String> = r
                    .segs
                    .iter()
                    .filter_map(|s| if let RSeg::Var(n, _) = s { Some(n.clone()) } else { None })
                    .zip(vals.iter())
                    .map(|(n, v)| format!("{}={}", hs(&n), hs(v)))
                    .collect();
                if kvs.len() > 1 && rng.chance(1, 2) {
                    let i = rng.below(kvs.len());
                    kvs.swap(0, i);
                }
                if rng.chance(1, 8) {
                    kvs.push(format!("{}={}", hs("zz"), hs("1")));
                }
                if rng.chance(1, 8) && !kvs.is_empty() {
                    let again = format!("{}={}", kvs[0].split('=').next().unwrap(), hs("dup"));
                    kvs.push(again);
                }
                cases.push(format!("bm {} {} {}", if prefix { "P" } else { "F" }, pats_words(&pats, true), kvs.join(" ")).trim_end().to_owned());
            }
        }
    }
    // chained prefix → resource matching on one Path
    for _ in 0..ctx.budget(400) {
        let a = rand_pattern(rng);
        let b = rand_pattern(rng);
        let (Some(ra), Some(rb)) = (ref_parse(&a, false), ref_parse(&b, false)) else { continue };
        let mut path = sample_path(rng, &ra);
        if rng.chance(3, 4) && !b.starts_with('/') {
            path.push('/');
        }
        path.push_str(&sample_path(rng, &rb));
        if rng.chance(1, 4) {
            path = mutate(rng, &path);
        }
        cases.push(format!("k {} P:{} F:{} P:{}", hs(&path), hs(&a), hs(&b), hs(&b)));
    }
    // chains straddling the u16 limit: a static prefix consumes part of a path that is (just) longer than 65535
    // bytes, so that the unprocessed rest fits in a u16 again; then dynamic patterns / pattern lists whose captures
    // end before or beyond absolute offset 65535.  Also the same shapes at and just below the limit (must capture).
    for i in 0..ctx.budget(48) {
        let pre = match i % 4 {
            0 => rng.range(2, 40),
            1 => rng.range(900, 1100),
            2 => rng.range(2, 30_000),
            _ => rng.range(2, 300),
        };
        let total = match i % 6 {
            0 => 65_536,
            1 => 65_535 + rng.range(1, 64),
            2 => 65_535 + rng.range(1, pre),
            3 => 65_535,
            4 => 65_535 - rng.below(3),
            _ => 65_536 + rng.below(pre),
        };
        // path = "/" s^(pre-1) "/x/" t^(rest)
        let rest = total - pre - 3;
        let path = format!("2f+*{}:73+2f782f+*{}:74", pre - 1, rest);
        let outer = format!("P:2f+*{}:73", pre - 1);
        const INNER: &[&str] = &["/{id}/{tail}*", "/{id}/{t}", "/x/{t:.*}", "/{id}", "/{a:[a-z]}/{b:t+}", "/x/{t}"];
        let inner = *rng.pick(INNER);
        let step2 = match rng.below(4) {
            0 => format!("F:{},{}", hs(inner), hs("/never/{id}/{tail}")),
            1 => format!("P:{}", hs(inner)),
            _ => format!("F:{}", hs(inner)),
        };
        let step3 = *rng.pick(&["P:2f7b717d", "F:2f7b717d2a", "P:2f+*3:74", "F:2f7b613a2e2a7d"][..]);
        cases.push(format!("k {} {} {} P:{} {}", path, outer, step2, hs("/{id}"), step3));
    }
    // malformed patterns (constructor panics) and degenerate ones (warnings only)
    const BAD: &[&str] = &[
        "/{a", "/{a}/{a}", "/{}", "/{1a}", "/{a:\\d+}*", "/{a-b}", "/{a}/{b}/{c}/{d}/{e}/{f}/{g}/{h}/{i}/{j}/{k}/{l}/{m}/{n}/{o}/{p}/{q}",
        "/{a}/{b}/{c}/{d}/{e}/{f}/{g}/{h}/{i}/{j}/{k}/{l}/{m}/{n}/{o}/{p}", "/a*", "/a/*", "*", "/{a}**", "/{a}*/b", "/{a}/b*", "/{a{b}}",
        "/{_}", "/{a.b}", "{a}{b}",
    ];
    let some_paths: Vec<String> = ["", "/", "/a", "/a/", "/a/b", "/x/y/z/1/2/3/4/5/6/7/8/9/a/b/c/d", "/x/y/z/1/2/3/4/5/6/7/8/9/a/b/c/d/e", "/a*", "/ab", "/a/*", "/q*/b", "/q/b*", "ab"]
        .iter()
        .map(|s| s.to_string())
        .collect();
    for b in BAD {
        for prefix in [false, true] {
            push_m(cases, prefix, &[b.to_string()], true, &some_paths);
            push_m(cases, prefix, &[b.to_string(), "/a".into()], false, &some_paths);
        }
    }
    // long paths up to the URL limit (http::Uri: < 65535 bytes)
    for i in 0..ctx.budget(40) {
        let total = match i {
            0 => 65_534,
            1 => 65_535,
            2 => 32_768,
            _ => rng.range(1000, 65_534),
        };
        const LP: &[&str] = &["/{a}/{b}", "/u/{t}*", "/{a}-{b}", "/{a:[a-z0-9_]+}/x", "/{a}/x", "/{a:.*}/{b}"];
        let pat = *rng.pick(LP);
        // shape: "/" + run + mid + run, sized to `total`; written compactly as repeated blocks
        const MID: &[&str] = &["/", "-", "/x", "//"];
        let mid = *rng.pick(MID);
        let left = rng.range(1, total - 10);
        let right = total - 1 - left - mid.len();
        const BLK: &[&str] = &["a", "ab1_", "b", "_1"];
        let (b1, b2) = (*rng.pick(BLK), *rng.pick(BLK));
        let word = format!(
            "2f+*{}:{}+{}+{}+*{}:{}+{}",
            left / b1.len(),
            hs(b1),
            hs(&b1[..left % b1.len()]).replace('-', ""),
            hs(mid),
            right / b2.len(),
            hs(b2),
            hs(&b2[..right % b2.len()]).replace('-', "")
        )
        .replace("++", "+");
        let word = word.trim_end_matches('+').to_owned();
        cases.push(format!("m {} S {} {}", if rng.chance(1, 3) { "P" } else { "F" }, hs(pat), word));
    }
}

fn gen(ctx: &Ctx) -> Vec<String> {
    let mut rng = Rng::new(ctx.seed);
    let mut cases = Vec::new();
    gen_q(ctx, &mut rng, &mut cases);
    gen_u(ctx, &mut rng, &mut cases);
    gen_exhaustive(ctx, &mut cases);
    gen_random(ctx, &mut rng, &mut cases);
    cases
}

fn run(line: &str) -> CaseResult {
    let words: Vec<&str> = line.split_ascii_whitespace().collect();
    match words.first().copied() {
        Some("q") if words.len() >= 2 => run_q(&words),
        Some("u") => run_u(&words),
        Some("m") if words.len() >= 3 => run_m(words[1] == "P", &words[2..]),
        Some("b") if words.len() >= 3 => run_b(words[1] == "P", &words[2..]),
        Some("bm") if words.len() >= 3 => run_bm(words[1] == "P", &words[2..]),
        Some("k") if words.len() >= 2 => run_k(&words[1..]),
        _ => {
            let mut r = CaseResult::ok("bad-case".into());
            r.nontrivial = false;
            r
        }
    }
}

pub fn prop() -> Prop {
    Prop { rule: RULE, parallel: true, gen: Box::new(gen), run: Box::new(run) }
}
