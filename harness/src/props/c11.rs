//! C11 — requests are isolated although `HttpRequest` allocations are recycled.
//!
//! One case = one history of tokens through ONE service instance (grammar: see
//! `lean/ActixModel/Drv/C11.lean`).  The application is fixed (`build_app`, mirrored by
//! `ActixModel.ReqPool.theCfg`): nested scopes with per-scope/per-resource app data, named and
//! unnamed resources, a guarded pair, an app-level middleware (which attaches a per-tenant data
//! container with `ServiceRequest::add_data_container` when the `x-t` header asks for it, whether or
//! not any route matches) and a dumping default service.
//! Every handler/middleware dumps everything reachable from `HttpRequest`.
//!
//! Oracles (none of them uses the model):
//!  * projection: for every request k of the history, the sub-history that concerns only k
//!    (its `R` token and the `D/V/E/C` tokens on handles of k) is replayed on a FRESH service
//!    instance; every dump must be identical ("determined by that request and the application
//!    configuration alone");
//!  * ground truth: method/uri/version/peer/headers in each dump equal the request that was sent;
//!  * release: the number of live request-extension values equals the number inserted into
//!    requests that still have a live handle; connection data lives exactly as long as its
//!    connection or a request of it; application data lives exactly as long as the service or a
//!    request handle (book-keeping of the harness itself).
use std::{
    cell::{Cell, RefCell},
    collections::{BTreeMap, BTreeSet},
    future::Future,
    pin::Pin,
    rc::Rc,
    task::Poll,
};

use actix_http::Request;
use actix_service::Service;
use actix_web::{
    dev::{ServiceRequest, ServiceResponse},
    guard, test, web, App, HttpMessage, HttpRequest, HttpResponse,
};

use super::Prop;
use crate::common::{block_on_system, CaseResult, Ctx, Rng};

const RULE: &str = "case = history of tokens through one service instance of a fixed app (nested scopes with scoped \
app_data, named/unnamed/guarded resources, default service, app-level middleware that attaches a per-tenant data container on header x-t before routing): R = request (method, uri, version, \
peer (set, unset, or never mentioned by the builder), headers, request-level extensions; handler actions: insert typed extensions, stash clones, never complete, park while later requests run), \
D/V/E/C = drop / dump / extend / clone a stashed handle, G = resume a parked handler, X = drop the service; histories of 1..40 tokens plus long ones \
with >128 simultaneously live requests; a case is non-trivial if at least one request was served from a recycled \
allocation (harness book-keeping of the pool); distinct = distinct (case, output) hashes";

// ---------------------------------------------------------------------------------------------
// probe types

#[derive(Clone)]
struct Alive(Rc<Cell<isize>>);
impl Alive {
    fn new(c: &Rc<Cell<isize>>) -> Self {
        c.set(c.get() + 1);
        Alive(c.clone())
    }
}
impl Drop for Alive {
    fn drop(&mut self) {
        self.0.set(self.0.get() - 1);
    }
}

struct E1(u32, #[allow(dead_code)] Alive);
struct E2(u32, #[allow(dead_code)] Alive);
struct E3(u32, #[allow(dead_code)] Alive);
struct DA(u32, #[allow(dead_code)] Option<Alive>);
struct DB(u32);
struct DC(u32);
/// per-tenant marker attached by the app-level middleware with `ServiceRequest::add_data_container`
struct DT(u32);
pub struct ConnProbe(pub u32, #[allow(dead_code)] Alive);

#[derive(Clone, Debug, PartialEq)]
enum Act {
    Ext(u32, u32),
    Stash(u32),
    Cancel,
    /// park on gate n after the other actions
    Park(u32),
}

#[derive(Default)]
struct Shared {
    acts: RefCell<Vec<Act>>,
    dumps: RefCell<Vec<String>>,
    stash: RefCell<BTreeMap<u32, HttpRequest>>,
    ext_alive: Rc<Cell<isize>>,
    conn_alive: Rc<Cell<isize>>,
    app_alive: Rc<Cell<isize>>,
    /// gates of parked handlers
    parked: RefCell<BTreeMap<u32, tokio::sync::oneshot::Sender<()>>>,
}

fn insert_ext(req: &HttpRequest, alive: &Rc<Cell<isize>>, t: u32, v: u32) {
    let a = Alive::new(alive);
    match t {
        1 => {
            req.extensions_mut().insert(E1(v, a));
        }
        2 => {
            req.extensions_mut().insert(E2(v, a));
        }
        3 => {
            req.extensions_mut().insert(E3(v, a));
        }
        _ => {}
    }
}

fn opt(v: Option<u32>) -> String {
    v.map(|n| n.to_string()).unwrap_or_else(|| "-".into())
}

/// everything reachable from an `HttpRequest`, canonical
fn dump(r: &HttpRequest) -> String {
    let ver = match r.version() {
        actix_web::http::Version::HTTP_10 => "10",
        actix_web::http::Version::HTTP_11 => "11",
        actix_web::http::Version::HTTP_2 => "2",
        _ => "?",
    };
    let hs: Vec<String> = ["x-a", "x-b", "x-g", "host"]
        .iter()
        .map(|n| {
            let vs: Vec<String> = r.headers().get_all(*n).map(|v| v.to_str().unwrap_or("?").to_owned()).collect();
            if vs.is_empty() {
                "-".to_owned()
            } else {
                vs.join(",")
            }
        })
        .collect();
    let ps: Vec<String> = r.match_info().iter().map(|(k, v)| format!("{k}:{v}")).collect();
    // derived data cached in the request extensions on first use
    let ci = r.connection_info().host().to_owned();
    let ext = r.extensions();
    let xs = [ext.get::<E1>().map(|e| e.0), ext.get::<E2>().map(|e| e.0), ext.get::<E3>().map(|e| e.0)];
    let ds = [
        r.app_data::<DA>().map(|d| d.0),
        r.app_data::<DB>().map(|d| d.0),
        r.app_data::<DC>().map(|d| d.0),
        r.app_data::<DT>().map(|d| d.0),
    ];
    format!(
        "m={};u={};v={};p={};H={}/n{};P={};U={};X={};c={};D={};ci={};n={};t={}",
        r.method(),
        r.uri(),
        ver,
        opt(r.peer_addr().map(|a| a.port() as u32)),
        hs.join("/"),
        r.headers().len(),
        ps.join(","),
        r.match_info().unprocessed(),
        xs.iter().map(|x| opt(*x)).collect::<Vec<_>>().join(","),
        opt(r.conn_data::<ConnProbe>().map(|c| c.0)),
        ds.iter().map(|x| opt(*x)).collect::<Vec<_>>().join(","),
        ci,
        r.match_name().unwrap_or("-"),
        r.match_pattern().unwrap_or_else(|| "-".into()),
    )
}

async fn handler(req: HttpRequest, sh: Rc<Shared>) -> HttpResponse {
    sh.dumps.borrow_mut().push(dump(&req));
    let acts = sh.acts.borrow().clone();
    let mut cancel = false;
    for a in &acts {
        match a {
            Act::Ext(t, v) => insert_ext(&req, &sh.ext_alive, *t, *v),
            Act::Stash(s) => {
                let old = sh.stash.borrow_mut().insert(*s, req.clone());
                drop(old);
            }
            Act::Cancel => cancel = true,
            Act::Park(_) => {}
        }
    }
    if cancel {
        drop(req);
        std::future::pending::<()>().await;
        unreachable!();
    }
    let park = acts.iter().find_map(|a| if let Act::Park(p) = a { Some(*p) } else { None });
    if let Some(p) = park {
        if !sh.parked.borrow().contains_key(&p) {
            let (tx, rx) = tokio::sync::oneshot::channel();
            sh.parked.borrow_mut().insert(p, tx);
            // other requests are served while this handler waits
            let _ = rx.await;
            sh.dumps.borrow_mut().push(dump(&req));
        }
    }
    HttpResponse::Ok().finish()
}

macro_rules! h {
    ($sh:expr) => {{
        let sh = $sh.clone();
        move |req: HttpRequest| handler(req, sh.clone())
    }};
}

/// The fixed application; mirrored by `ActixModel.ReqPool.theCfg`.
fn build_app(
    sh: &Rc<Shared>,
) -> App<
    impl actix_service::ServiceFactory<
        ServiceRequest,
        Config = (),
        Response = ServiceResponse<impl actix_web::body::MessageBody>,
        Error = actix_web::Error,
        InitError = (),
    >,
> {
    let mw = sh.clone();
    App::new()
        .app_data(DA(0, Some(Alive::new(&sh.app_alive))))
        .wrap_fn(move |mut req: ServiceRequest, srv| {
            let sh = mw.clone();
            // per-tenant data keyed on a header, attached before routing (public API); the
            // request may then match a route or none at all
            let tenant = req.headers().get("x-t").and_then(|v| v.to_str().ok()).and_then(|v| v.parse::<u32>().ok());
            if let Some(t) = tenant {
                let mut ext = actix_web::dev::Extensions::new();
                ext.insert(DT(t));
                req.add_data_container(Rc::new(ext));
            }
            sh.dumps.borrow_mut().push(dump(req.request()));
            let fut = srv.call(req);
            async move {
                let res = fut.await?;
                sh.dumps.borrow_mut().push(dump(res.request()));
                Ok(res)
            }
        })
        .service(web::resource("/").name("root").to(h!(sh)))
        .service(web::resource("/u/{id}").name("user").app_data(DB(1)).to(h!(sh)))
        .service(
            web::scope("/s/{sid}")
                .app_data(DA(2, None))
                .app_data(DC(2))
                .service(web::resource("/r/{rid}").name("sr").to(h!(sh)))
                .service(
                    web::scope("/n")
                        .app_data(DB(3))
                        .service(web::resource("/{x}/{y}").name("deep").app_data(DC(4)).to(h!(sh)))
                        .service(web::resource("/p").to(h!(sh))),
                )
                .service(web::resource("/g").name("g1").guard(guard::Header("x-g", "1")).to(h!(sh)))
                .service(web::resource("/g").name("g2").to(h!(sh))),
        )
        .service(web::scope("/t").service(web::resource("/{id}").name("tid").to(h!(sh))))
        .default_service(web::to(h!(sh)))
}

// ---------------------------------------------------------------------------------------------
// tokens

#[derive(Clone, Debug)]
struct ReqTok {
    conn: Option<u32>,
    method: String,
    uri: String,
    ver: String,
    peer: Option<u32>,
    /// peer written as `~`: build the request with `actix_http::test::TestRequest` and do not
    /// mention the peer address at all
    raw: bool,
    hdrs: Vec<(String, String)>,
    reqdata: Vec<(u32, u32)>,
    acts: Vec<Act>,
}

#[derive(Clone, Debug)]
enum Tok {
    R(ReqTok),
    D(u32),
    V(u32),
    E(u32, u32, u32),
    C(u32, u32),
    G(u32),
    X,
    Q(u32),
    M(String),
    Bad,
}

fn opt_nat(s: &str) -> Option<Option<u32>> {
    if s == "-" {
        Some(None)
    } else {
        s.parse().ok().map(Some)
    }
}

fn pairs(s: &str) -> Option<Vec<(String, String)>> {
    if s == "-" {
        return Some(vec![]);
    }
    s.split(',')
        .map(|kv| {
            let p: Vec<&str> = kv.split('=').collect();
            if p.len() == 2 {
                Some((p[0].to_owned(), p[1].to_owned()))
            } else {
                None
            }
        })
        .collect()
}

fn nat_pairs(s: &str) -> Option<Vec<(u32, u32)>> {
    pairs(s)?.into_iter().map(|(k, v)| Some((k.parse().ok()?, v.parse().ok()?))).collect()
}

fn slot(s: &str) -> Option<u32> {
    s.parse().ok().filter(|n| *n != 0)
}

fn parse_act(s: &str) -> Option<Act> {
    if s == "x" {
        return Some(Act::Cancel);
    }
    if let Some(r) = s.strip_prefix('k') {
        return slot(r).map(Act::Stash);
    }
    if let Some(r) = s.strip_prefix('p') {
        return r.parse().ok().map(Act::Park);
    }
    if let Some(r) = s.strip_prefix('e') {
        let p: Vec<&str> = r.split('=').collect();
        if p.len() == 2 {
            return Some(Act::Ext(p[0].parse().ok()?, p[1].parse().ok()?));
        }
    }
    None
}

fn parse_tok(t: &str) -> Tok {
    if let Some(m) = t.strip_prefix("M=") {
        return Tok::M(m.to_owned());
    }
    let p: Vec<&str> = t.split(':').collect();
    let r = (|| -> Option<Tok> {
        Some(match p.as_slice() {
            ["R", conn, method, uri, ver, peer, hdrs, xd, acts] => Tok::R(ReqTok {
                conn: opt_nat(conn)?,
                method: method.to_string(),
                // authority-form targets are written `host~port` (`:` is the field separator)
                uri: uri.replace('~', ":"),
                ver: ver.to_string(),
                peer: if *peer == "~" { None } else { opt_nat(peer)? },
                raw: *peer == "~",
                hdrs: pairs(hdrs)?,
                reqdata: nat_pairs(xd)?,
                acts: if *acts == "-" { vec![] } else { acts.split(',').map(parse_act).collect::<Option<Vec<_>>>()? },
            }),
            ["D", s] => Tok::D(slot(s)?),
            ["V", s] => Tok::V(slot(s)?),
            ["E", s, kv] => {
                let q: Vec<&str> = kv.split('=').collect();
                if q.len() != 2 {
                    return None;
                }
                Tok::E(slot(s)?, q[0].parse().ok()?, q[1].parse().ok()?)
            }
            ["C", s, s2] => Tok::C(slot(s)?, slot(s2)?),
            ["G", n] => Tok::G(n.parse().ok()?),
            ["X"] => Tok::X,
            ["Q", c] => Tok::Q(c.parse().ok()?),
            _ => return None,
        })
    })();
    r.unwrap_or(Tok::Bad)
}

fn build_request(sh: &Shared, r: &ReqTok) -> Request {
    use actix_web::http::{Method, Version};
    if r.raw {
        let mut t = actix_http::test::TestRequest::default();
        t.method(Method::from_bytes(r.method.as_bytes()).unwrap_or(Method::GET)).uri(&r.uri).version(match r.ver.as_str() {
            "10" => Version::HTTP_10,
            "2" => Version::HTTP_2,
            _ => Version::HTTP_11,
        });
        for (k, v) in &r.hdrs {
            t.append_header((k.as_str(), v.as_str()));
        }
        let req = t.finish();
        add_reqdata(sh, r, &req);
        return req;
    }
    let mut t = test::TestRequest::default()
        .method(Method::from_bytes(r.method.as_bytes()).unwrap_or(Method::GET))
        .uri(&r.uri)
        .version(match r.ver.as_str() {
            "10" => Version::HTTP_10,
            "2" => Version::HTTP_2,
            _ => Version::HTTP_11,
        });
    if let Some(p) = r.peer {
        t = t.peer_addr(std::net::SocketAddr::from(([127, 0, 0, 1], p as u16)));
    }
    for (k, v) in &r.hdrs {
        t = t.append_header((k.as_str(), v.as_str()));
    }
    let req = t.to_request();
    add_reqdata(sh, r, &req);
    req
}

fn add_reqdata(sh: &Shared, r: &ReqTok, req: &Request) {
    for (ty, v) in &r.reqdata {
        let a = Alive::new(&sh.ext_alive);
        match ty {
            1 => {
                req.extensions_mut().insert(E1(*v, a));
            }
            2 => {
                req.extensions_mut().insert(E2(*v, a));
            }
            3 => {
                req.extensions_mut().insert(E3(*v, a));
            }
            _ => {}
        }
    }
}

/// tokens that act on stashed handles only (same in both modes)
fn slot_token(sh: &Shared, tok: &Tok) -> Option<String> {
    Some(match tok {
        Tok::D(s) => {
            let h = sh.stash.borrow_mut().remove(s);
            match h {
                Some(h) => {
                    drop(h);
                    "ok".to_owned()
                }
                None => "-".to_owned(),
            }
        }
        Tok::V(s) => match sh.stash.borrow().get(s) {
            Some(h) => dump(h),
            None => "-".to_owned(),
        },
        Tok::E(s, t, v) => match sh.stash.borrow().get(s) {
            Some(h) => {
                insert_ext(h, &sh.ext_alive, *t, *v);
                "ok".to_owned()
            }
            None => "-".to_owned(),
        },
        Tok::C(s, s2) => {
            let h = sh.stash.borrow().get(s).cloned();
            match h {
                Some(h) => {
                    let old = sh.stash.borrow_mut().insert(*s2, h);
                    drop(old);
                    "ok".to_owned()
                }
                None => "-".to_owned(),
            }
        }
        Tok::M(_) => "m".to_owned(),
        Tok::Bad => "bad-op".to_owned(),
        _ => return None,
    })
}

type Outs = Vec<(String, isize, isize, isize)>;

/// mode `svc`: outputs of one history on one fresh `test::init_service` instance:
/// per token (text, live ext values, live conn data)
async fn run_history_svc(toks: &[Tok]) -> Outs {
    let sh = Rc::new(Shared::default());
    let mut svc = Some(test::init_service(build_app(&sh)).await);
    let mut tasks: BTreeMap<u32, actix_rt::task::JoinHandle<()>> = BTreeMap::new();
    let mut outs = Vec::with_capacity(toks.len());
    for tok in toks {
        let text = match tok {
            Tok::R(r) => match &svc {
                None => "-".to_owned(),
                Some(s) => {
                    let req = build_request(&sh, r);
                    *sh.acts.borrow_mut() = r.acts.clone();
                    sh.dumps.borrow_mut().clear();
                    let mut fut: Pin<Box<dyn Future<Output = _>>> = Box::pin(s.call(req));
                    let park = r.acts.iter().find_map(|a| if let Act::Park(p) = a { Some(*p) } else { None });
                    if r.acts.contains(&Act::Cancel) {
                        // poll once, then drop the service future while the handler is pending
                        let _ = std::future::poll_fn(|cx| Poll::Ready(fut.as_mut().poll(cx).is_ready())).await;
                        drop(fut);
                    } else if let Some(p) = park.filter(|p| !sh.parked.borrow().contains_key(p)) {
                        // run the request as its own task; it parks inside the handler
                        let task = actix_rt::spawn(async move {
                            let res = fut.await;
                            drop(res);
                        });
                        while !sh.parked.borrow().contains_key(&p) && !task.is_finished() {
                            tokio::task::yield_now().await;
                        }
                        tasks.insert(p, task);
                    } else {
                        let res = fut.await;
                        drop(res);
                    }
                    sh.acts.borrow_mut().clear();
                    let d = sh.dumps.borrow().join("|");
                    d
                }
            },
            Tok::X => {
                svc = None;
                "ok".to_owned()
            }
            Tok::Q(_) => "ok".to_owned(),
            Tok::G(p) => {
                let tx = sh.parked.borrow_mut().remove(p);
                match (tx, tasks.remove(p)) {
                    (Some(tx), Some(task)) => {
                        sh.dumps.borrow_mut().clear();
                        let _ = tx.send(());
                        let _ = task.await;
                        let d = sh.dumps.borrow().join("|");
                        d
                    }
                    _ => "-".to_owned(),
                }
            }
            other => slot_token(&sh, other).unwrap(),
        };
        outs.push((text, sh.ext_alive.get(), sh.conn_alive.get(), sh.app_alive.get()));
    }
    // release everything before the runtime goes away
    sh.parked.borrow_mut().clear();
    for (_, t) in tasks {
        let _ = t.await;
    }
    sh.stash.borrow_mut().clear();
    drop(svc);
    outs
}

struct Conn {
    client: tokio::io::DuplexStream,
    task: actix_rt::task::JoinHandle<()>,
}

async fn close_conn(c: Conn) {
    drop(c.client);
    let _ = c.task.await;
}

/// mode `h1`: the same application behind `HttpService::h1` with an `on_connect_ext` callback;
/// requests are HTTP/1.1 bytes written to in-memory connections (one dispatcher per connection,
/// all sharing the one `AppInitService` and hence the one request pool)
async fn run_history_h1(toks: &[Tok]) -> Outs {
    use actix_http::HttpService;
    use tokio::io::{AsyncReadExt, AsyncWriteExt};
    let sh = Rc::new(Shared::default());
    let cur_conn = Rc::new(Cell::new(0u32));
    let (cc, ca) = (cur_conn.clone(), sh.conn_alive.clone());
    let factory = HttpService::build()
        .on_connect_ext(move |_io: &tokio::io::DuplexStream, ext: &mut actix_http::Extensions| {
            ext.insert(ConnProbe(cc.get(), Alive::new(&ca)));
        })
        .h1(actix_service::map_config(build_app(&sh), |_| actix_web::dev::AppConfig::default()));
    let mut svc = Some(actix_service::ServiceFactory::new_service(&factory, ()).await.expect("h1 service"));
    let mut conns: BTreeMap<u32, Conn> = BTreeMap::new();
    let mut outs = Vec::with_capacity(toks.len());
    for tok in toks {
        let text = match tok {
            Tok::R(r) => match (&svc, r.conn) {
                (Some(s), Some(c)) if h1_supported(r) => {
                    if !conns.contains_key(&c) {
                        let (client, server) = tokio::io::duplex(1 << 16);
                        cur_conn.set(c);
                        let peer = r.peer.map(|p| std::net::SocketAddr::from(([127, 0, 0, 1], p as u16)));
                        let fut = s.call((server, peer));
                        let task = actix_rt::spawn(async move {
                            let _ = fut.await;
                        });
                        conns.insert(c, Conn { client, task });
                    }
                    *sh.acts.borrow_mut() = r.acts.clone();
                    sh.dumps.borrow_mut().clear();
                    let mut raw = format!("{} {} HTTP/{}\r\n", r.method, r.uri, if r.ver == "10" { "1.0" } else { "1.1" });
                    for (k, v) in &r.hdrs {
                        raw.push_str(&format!("{k}: {v}\r\n"));
                    }
                    raw.push_str("\r\n");
                    let conn = conns.get_mut(&c).unwrap();
                    let mut ok = conn.client.write_all(raw.as_bytes()).await.is_ok();
                    // read one complete response head (bodies are empty)
                    let mut buf = Vec::new();
                    let mut chunk = [0u8; 1024];
                    while ok && !buf.windows(4).any(|w| w == b"\r\n\r\n") {
                        match conn.client.read(&mut chunk).await {
                            Ok(0) | Err(_) => ok = false,
                            Ok(n) => buf.extend_from_slice(&chunk[..n]),
                        }
                    }
                    sh.acts.borrow_mut().clear();
                    let d = sh.dumps.borrow().join("|");
                    if ok {
                        d
                    } else {
                        format!("{d}|connection-lost")
                    }
                }
                (None, _) => "-".to_owned(),
                _ => "unsupported-in-h1".to_owned(),
            },
            Tok::X => {
                // the AppInitService lives as long as a dispatcher holds the flow: close all
                for (_, c) in std::mem::take(&mut conns) {
                    close_conn(c).await;
                }
                svc = None;
                "ok".to_owned()
            }
            Tok::G(_) => "-".to_owned(),
            Tok::Q(c) => {
                if let Some(c) = conns.remove(c) {
                    close_conn(c).await;
                }
                "ok".to_owned()
            }
            other => slot_token(&sh, other).unwrap(),
        };
        outs.push((text, sh.ext_alive.get(), sh.conn_alive.get(), sh.app_alive.get()));
    }
    sh.stash.borrow_mut().clear();
    for (_, c) in std::mem::take(&mut conns) {
        close_conn(c).await;
    }
    drop(svc);
    outs
}

fn h1_supported(r: &ReqTok) -> bool {
    r.reqdata.is_empty() && !r.acts.iter().any(|a| matches!(a, Act::Cancel | Act::Park(_)))
}

fn is_h1(toks: &[Tok]) -> bool {
    matches!(toks.first(), Some(Tok::M(m)) if m == "h1")
}

async fn run_history(toks: &[Tok]) -> Outs {
    if is_h1(toks) {
        run_history_h1(toks).await
    } else {
        run_history_svc(toks).await
    }
}

// ---------------------------------------------------------------------------------------------
// book-keeping for the oracles (independent of the model)

#[derive(Default)]
struct Book {
    /// slot -> request index
    owner: BTreeMap<u32, usize>,
    /// per request: extension types present
    ext_types: Vec<BTreeSet<u32>>,
    /// per request: projected history and, per projected token, the index of the token of the full
    /// history whose output it must reproduce
    proj: Vec<Vec<(Tok, Option<usize>)>>,
    /// per request: connection it arrived on (h1 mode)
    conn_of: Vec<Option<u32>>,
    /// connections whose dispatcher is alive (h1 mode)
    open: BTreeSet<u32>,
    /// estimate of the pool length (for tags only)
    pool: usize,
    alive_svc: bool,
    reuse: bool,
    overflow: bool,
    outlive: bool,
    parked: bool,
    max_live: usize,
}

impl Book {
    fn handles(&self, k: usize) -> usize {
        self.owner.values().filter(|o| **o == k).count()
    }
    fn released(&mut self, k: usize) {
        if self.handles(k) == 0 && self.alive_svc {
            if self.pool < 128 {
                self.pool += 1;
            } else {
                self.overflow = true;
            }
        }
    }
    fn bind(&mut self, s: u32, k: usize, cur: Option<usize>) {
        if let Some(old) = self.owner.insert(s, k) {
            if old != k {
                self.proj[old].push((Tok::D(s), None));
                if Some(old) != cur {
                    self.released(old);
                }
            }
        }
    }
    fn expected_conn_alive(&self) -> isize {
        let mut cs = self.open.clone();
        for k in 0..self.conn_of.len() {
            if let (Some(c), true) = (self.conn_of[k], self.handles(k) > 0) {
                cs.insert(c);
            }
        }
        cs.len() as isize
    }
    fn expected_alive(&self) -> isize {
        (0..self.ext_types.len()).filter(|k| self.handles(*k) > 0).map(|k| self.ext_types[k].len() as isize).sum()
    }
}

fn field<'a>(dump: &'a str, key: &str) -> &'a str {
    dump.split(';').find_map(|f| f.strip_prefix(key)).unwrap_or("")
}

fn expected_head(r: &ReqTok) -> String {
    let hs: Vec<String> = ["x-a", "x-b", "x-g", "host"]
        .iter()
        .map(|n| {
            let vs: Vec<&str> = r.hdrs.iter().filter(|(k, _)| k == n).map(|(_, v)| v.as_str()).collect();
            if vs.is_empty() {
                "-".to_owned()
            } else {
                vs.join(",")
            }
        })
        .collect();
    format!("m={};u={};v={};p={};H={}/n{}", r.method, r.uri, r.ver, opt(r.peer), hs.join("/"), r.hdrs.len())
}

fn run(line: &str) -> CaseResult {
    let toks: Vec<Tok> = line.split_ascii_whitespace().map(parse_tok).collect();
    let toks2 = toks.clone();
    let h1 = is_h1(&toks);
    let (outs, fails, book) = block_on_system(async move {
        let toks = toks2;
        let outs = run_history(&toks).await;
        let mut fails: Vec<(String, String)> = Vec::new();
        let mut b = Book { alive_svc: true, ..Default::default() };
        for (j, tok) in toks.iter().enumerate() {
            match tok {
                Tok::R(r)
                    if b.alive_svc
                        && (!h1 || (r.conn.is_some() && h1_supported(r))) =>
                {
                    let k = b.ext_types.len();
                    b.conn_of.push(if h1 { r.conn } else { None });
                    if let (true, Some(c)) = (h1, r.conn) {
                        b.open.insert(c);
                    }
                    if b.pool > 0 {
                        b.pool -= 1;
                        b.reuse = true;
                    }
                    b.ext_types.push(r.reqdata.iter().map(|e| e.0).filter(|t| (1..=3).contains(t)).collect());
                    // a park action on an occupied gate is ignored: the projection must not park either
                    let ptok = match r.acts.iter().find_map(|a| if let Act::Park(p) = a { Some(1000 + *p) } else { None }) {
                        Some(p) if b.owner.contains_key(&p) => {
                            let mut r2 = r.clone();
                            r2.acts.retain(|a| !matches!(a, Act::Park(_)));
                            Tok::R(r2)
                        }
                        _ => tok.clone(),
                    };
                    b.proj.push(if h1 {
                        vec![(Tok::M("h1".into()), None), (ptok, Some(j))]
                    } else {
                        vec![(ptok, Some(j))]
                    });
                    for a in &r.acts {
                        match a {
                            Act::Ext(t, _) if (1..=3).contains(t) => {
                                b.ext_types[k].insert(*t);
                            }
                            Act::Stash(s) => b.bind(*s, k, Some(k)),
                            _ => {}
                        }
                    }
                    // a parked handler keeps its request alive in a pseudo slot until the gate opens
                    if let (false, Some(p)) = (
                        r.acts.contains(&Act::Cancel),
                        r.acts.iter().find_map(|a| if let Act::Park(p) = a { Some(1000 + *p) } else { None }),
                    ) {
                        if !b.owner.contains_key(&p) {
                            b.bind(p, k, Some(k));
                            b.parked = true;
                        }
                    }
                    b.released(k);
                    // ground truth: the head in every dump is the head that was sent
                    let want = expected_head(r);
                    for d in outs[j].0.split('|') {
                        if !d.starts_with(&want) {
                            fails.push(("head-mismatch".into(), format!("token {j}: dump {d} does not start with {want}")));
                            break;
                        }
                        let c = field(d, "c=");
                        if c != opt(if h1 { r.conn } else { None }) {
                            fails.push(("conn-data-mismatch".into(), format!("token {j}: conn_data {c} want {}", opt(r.conn))));
                            break;
                        }
                    }
                }
                Tok::R(_) => {}
                Tok::G(p) => {
                    if let Some(k) = b.owner.remove(&(1000 + *p)) {
                        b.proj[k].push((tok.clone(), Some(j)));
                        b.released(k);
                    }
                }
                Tok::D(s) => {
                    if let Some(k) = b.owner.remove(s) {
                        b.proj[k].push((tok.clone(), Some(j)));
                        b.released(k);
                    }
                }
                Tok::V(s) => {
                    if let Some(&k) = b.owner.get(s) {
                        b.proj[k].push((tok.clone(), Some(j)));
                        if k + 1 < b.ext_types.len() {
                            b.outlive = true;
                        }
                    }
                }
                Tok::E(s, t, _) => {
                    if let Some(&k) = b.owner.get(s) {
                        b.proj[k].push((tok.clone(), Some(j)));
                        if (1..=3).contains(t) {
                            b.ext_types[k].insert(*t);
                        }
                    }
                }
                Tok::C(s, s2) => {
                    if let Some(&k) = b.owner.get(s) {
                        b.proj[k].push((tok.clone(), Some(j)));
                        b.bind(*s2, k, None);
                    }
                }
                Tok::Q(c) => {
                    b.open.remove(c);
                }
                Tok::X => {
                    b.alive_svc = false;
                    b.pool = 0;
                    b.open.clear();
                    for k in 0..b.proj.len() {
                        if b.handles(k) > 0 {
                            b.proj[k].push((Tok::X, Some(j)));
                        }
                    }
                }
                Tok::M(_) | Tok::Bad => {}
            }
            let live = (0..b.ext_types.len()).filter(|k| b.handles(*k) > 0).count();
            b.max_live = b.max_live.max(live);
            // release oracle
            let want = b.expected_alive();
            let awant = (b.alive_svc || live > 0) as isize;
            if outs[j].3 != awant && fails.iter().all(|f| f.0 != "app-data-release") {
                fails.push((
                    "app-data-release".into(),
                    format!("after token {j}: application data alive={} although service alive={} and {} requests have a live handle", outs[j].3, b.alive_svc, live),
                ));
            }
            let cwant = b.expected_conn_alive();
            if h1 && outs[j].2 != cwant && fails.iter().all(|f| f.0 != "conn-data-release") {
                fails.push((
                    "conn-data-release".into(),
                    format!("after token {j}: {} connection-data containers alive, {} belong to open connections or requests with a live handle", outs[j].2, cwant),
                ));
            }
            if outs[j].1 != want && fails.iter().all(|f| f.0 != "ext-release") {
                fails.push((
                    "ext-release".into(),
                    format!("after token {j}: {} request-extension values alive, {} belong to requests with a live handle", outs[j].1, want),
                ));
            }
        }
        // projection oracle: each request alone on a fresh service instance
        'outer: for (k, p) in b.proj.iter().enumerate() {
            let ptoks: Vec<Tok> = p.iter().map(|x| x.0.clone()).collect();
            let pouts = run_history(&ptoks).await;
            for ((_, j), po) in p.iter().zip(&pouts) {
                if let Some(j) = j {
                    if po.0 != outs[*j].0 {
                        let sig = match toks[*j] {
                            Tok::R(_) => "dump-differs-from-fresh",
                            _ => "clone-view-changed",
                        };
                        fails.push((
                            sig.into(),
                            format!("request #{k}, token {j}: in history {} / alone on a fresh service {}", first_diff(&outs[*j].0, &po.0), first_diff(&po.0, &outs[*j].0)),
                        ));
                        break 'outer;
                    }
                }
            }
        }
        (outs, fails, b)
    });
    let output: Vec<String> = outs.iter().map(|o| format!("{}#{},{},{}", o.0, o.1, o.2, o.3)).collect();
    let mut tags = Vec::new();
    if book.reuse {
        tags.push("reuse".to_owned());
    }
    if book.overflow {
        tags.push("pool-overflow".to_owned());
    }
    if book.outlive {
        tags.push("clone-outlives".to_owned());
    }
    if !book.alive_svc {
        tags.push("service-dropped".to_owned());
    }
    if book.parked {
        tags.push("parked-handler".to_owned());
    }
    if toks.iter().any(|t| matches!(t, Tok::R(r) if r.acts.contains(&Act::Cancel))) {
        tags.push("cancelled".to_owned());
    }
    if h1 {
        tags.push("h1-conn-data".to_owned());
    }
    if book.max_live > 128 {
        tags.push("live>128".to_owned());
    }
    CaseResult { output: output.join(" "), fail: fails.into_iter().next(), nontrivial: book.reuse, tags }
}

/// the first `;`-field in which `a` differs from `b`, with its dump index
fn first_diff(a: &str, b: &str) -> String {
    for (i, (da, db)) in a.split('|').zip(b.split('|')).enumerate() {
        for (fa, fb) in da.split(';').zip(db.split(';')) {
            if fa != fb {
                return format!("[dump {i}] {fa}");
            }
        }
    }
    if a.len() > 60 {
        format!("{}…", &a[..60])
    } else {
        a.to_owned()
    }
}

// ---------------------------------------------------------------------------------------------
// generator

const SEGS: &[&str] = &["1", "22", "a", "zz9", "p", "r", "n", "g", "x.y", "-", "%61", "a%2Fb", "%7Ez%2b", "%%41"];

fn gen_uri(rng: &mut Rng) -> String {
    let s = |rng: &mut Rng| rng.pick(SEGS).to_string();
    let mut u = match rng.below(16) {
        0 => "/".to_owned(),
        1 => format!("/u/{}", s(rng)),
        2 => format!("/s/{}/r/{}", s(rng), s(rng)),
        3 => format!("/s/{}/n/{}/{}", s(rng), s(rng), s(rng)),
        4 => format!("/s/{}/n/p", s(rng)),
        5 => format!("/s/{}/g", s(rng)),
        6 => format!("/t/{}", s(rng)),
        7 => format!("/s/{}", s(rng)),               // scope prefix only: scope default
        8 => format!("/s/{}/n", s(rng)),             // nested scope default
        9 => format!("/s/{}/q/{}", s(rng), s(rng)),  // unmatched inside scope
        10 => "/t".to_owned(),
        11 => format!("/{}", s(rng)),                // app default
        12 => format!("/u/{}/{}", s(rng), s(rng)),   // no match (resource is not a prefix)
        13 => format!("/s/{}/n/{}", s(rng), s(rng)),
        14 => format!("/t/{}/", s(rng)),
        _ => format!("/s/{}/r/{}", s(rng), s(rng)),
    };
    if rng.chance(1, 4) {
        u.push_str(*rng.pick(&["?q=1", "?", "?a=b&c=d"]));
    }
    u
}

fn gen_req(rng: &mut Rng, slots: u32) -> String {
    let mut method = *rng.pick(&["GET", "GET", "POST", "PUT"]);
    // request targets that are not origin-form: asterisk-form and authority-form
    let mut target = None;
    if rng.chance(1, 8) {
        if rng.chance(1, 2) {
            method = "OPTIONS";
            target = Some("*".to_owned());
        } else {
            method = "CONNECT";
            target = Some(format!("{}~{}", rng.pick(&["h", "example.org"]), rng.pick(&["80", "8443"])));
        }
    }
    let ver = *rng.pick(&["11", "11", "10", "2"]);
    // `~`: built with actix_http's TestRequest, which never mentions the peer address
    let peer = match rng.below(6) {
        0 | 1 => rng.range(1000, 1003).to_string(),
        2 => "~".into(),
        _ => "-".into(),
    };
    let mut hdrs = Vec::new();
    for _ in 0..rng.below(4) {
        hdrs.push(format!("{}={}", rng.pick(&["x-a", "x-b", "x-g", "x-g", "x-z", "host"]), rng.pick(&["1", "2", "v"])));
    }
    // tenant header: the app-level middleware attaches a data container (any route outcome)
    if rng.chance(1, 4) {
        hdrs.push(format!("x-t={}", rng.pick(&["5", "6", "v"])));
    }
    let mut xd = Vec::new();
    if rng.chance(1, 5) {
        for _ in 0..rng.range(1, 2) {
            xd.push(format!("{}={}", rng.range(1, 3), rng.below(10)));
        }
    }
    let mut acts = Vec::new();
    for _ in 0..rng.below(4) {
        match rng.below(5) {
            0 | 1 => acts.push(format!("e{}={}", rng.range(1, 3), rng.below(10))),
            2 => acts.push(format!("k{}", rng.range(1, slots as usize))),
            3 => {
                if rng.chance(1, 2) {
                    acts.push(format!("p{}", rng.range(1, 2)))
                } else {
                    acts.push(format!("k{}", rng.range(1, slots as usize)))
                }
            }
            _ => {
                if rng.chance(1, 3) {
                    acts.push("x".to_owned())
                }
            }
        }
    }
    let j = |v: Vec<String>| if v.is_empty() { "-".to_owned() } else { v.join(",") };
    let uri = match target {
        Some(t) => t,
        None => gen_uri(rng),
    };
    format!("R:-:{}:{}:{}:{}:{}:{}:{}", method, uri, ver, peer, j(hdrs), j(xd), j(acts))
}

fn gen_history(rng: &mut Rng, n: usize, slots: u32) -> String {
    let mut toks = Vec::new();
    for _ in 0..n {
        let s = rng.range(1, slots as usize);
        toks.push(match rng.below(20) {
            0..=10 => gen_req(rng, slots),
            11..=13 => format!("D:{s}"),
            14..=15 => format!("V:{s}"),
            16 => format!("E:{s}:{}={}", rng.range(1, 3), rng.below(10)),
            17 => format!("C:{s}:{}", rng.range(1, slots as usize)),
            18 => format!("G:{}", rng.range(1, 2)),
            _ => {
                if rng.chance(1, 6) {
                    "X".to_owned()
                } else {
                    format!("G:{}", rng.range(1, 2))
                }
            }
        });
    }
    toks.join(" ")
}

/// more than `cap` requests alive at once (clones stashed), then all released, then new requests
fn gen_overflow(rng: &mut Rng) -> String {
    let n = rng.range(126, 135);
    let mut toks = Vec::new();
    for s in 1..=n {
        let mut r = gen_req(rng, 1);
        // force exactly one stash into slot s
        let idx = r.rfind(':').unwrap();
        let acts: Vec<String> =
            r[idx + 1..].split(',').filter(|a| !a.starts_with('k') && !a.starts_with('p') && *a != "x" && *a != "-").map(|a| a.to_owned()).collect();
        r.truncate(idx + 1);
        let mut acts = acts;
        acts.push(format!("k{s}"));
        r.push_str(&acts.join(","));
        toks.push(r);
    }
    let mut order: Vec<usize> = (1..=n).collect();
    for i in (1..order.len()).rev() {
        order.swap(i, rng.below(i + 1));
    }
    for s in order {
        if rng.chance(1, 20) {
            toks.push(format!("V:{s}"));
        }
        toks.push(format!("D:{s}"));
    }
    for _ in 0..rng.range(3, 10) {
        toks.push(gen_req(rng, 4));
    }
    toks.join(" ")
}

/// history over HTTP/1.1 connections with connection data (connection ids are never reused)
fn gen_h1(rng: &mut Rng, n: usize, slots: u32) -> String {
    let mut toks = vec!["M=h1".to_owned()];
    let mut live: Vec<usize> = Vec::new();
    let mut next = 1usize;
    for _ in 0..n {
        let s = rng.range(1, slots as usize);
        toks.push(match rng.below(20) {
            0..=9 => {
                let c = if live.is_empty() || (live.len() < 3 && rng.chance(1, 3)) {
                    live.push(next);
                    next += 1;
                    next - 1
                } else {
                    *rng.pick(&live)
                };
                let r = gen_req(rng, slots);
                // R:<conn>:<method>:<uri>:<ver>:<peer>:<hdrs>:<reqdata>:<acts>
                let p: Vec<&str> = r.split(':').collect();
                let acts: Vec<&str> = p[8].split(',').filter(|a| *a != "x" && *a != "-" && !a.starts_with('p')).collect();
                let peer = if c % 2 == 1 { (2000 + c).to_string() } else { "-".to_owned() };
                // CONNECT would switch the h1 dispatcher to upgrade handling: on the wire only `OPTIONS *`
                let (m, u) = if p[2] == "CONNECT" { ("OPTIONS", "*") } else { (p[2], p[3]) };
                format!(
                    "R:{c}:{}:{}:11:{peer}:{}:-:{}",
                    m,
                    u,
                    p[6],
                    if acts.is_empty() { "-".to_owned() } else { acts.join(",") }
                )
            }
            10..=11 => {
                if live.is_empty() {
                    format!("Q:{next}")
                } else {
                    let i = rng.below(live.len());
                    format!("Q:{}", live.remove(i))
                }
            }
            12..=13 => format!("D:{s}"),
            14..=15 => format!("V:{s}"),
            16 => format!("E:{s}:{}={}", rng.range(1, 3), rng.below(10)),
            17 => format!("C:{s}:{}", rng.range(1, slots as usize)),
            18 => format!("D:{s}"),
            _ => {
                if rng.chance(1, 6) {
                    "X".to_owned()
                } else {
                    format!("V:{s}")
                }
            }
        });
    }
    toks.join(" ")
}

fn gen(ctx: &Ctx) -> Vec<String> {
    let mut rng = Rng::new(ctx.seed);
    let mut cases = Vec::new();
    for _ in 0..ctx.budget(600) {
        let n = if rng.chance(1, 10) { rng.range(20, 40) } else { rng.range(1, 14) };
        let slots = *rng.pick(&[1u32, 2, 3, 6]);
        cases.push(gen_history(&mut rng, n, slots));
    }
    for _ in 0..ctx.budget(6) {
        cases.push(gen_overflow(&mut rng));
    }
    for _ in 0..ctx.budget(200) {
        let n = if rng.chance(1, 10) { rng.range(20, 40) } else { rng.range(2, 14) };
        let slots = *rng.pick(&[1u32, 2, 3, 6]);
        cases.push(gen_h1(&mut rng, n, slots));
    }
    cases
}

pub fn prop() -> Prop {
    Prop { rule: RULE, parallel: true, gen: Box::new(gen), run: Box::new(run) }
}
