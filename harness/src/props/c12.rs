//! C12 — body extractors never accept or buffer more than their configured limit.
//!
//! Real code, public API only: `Bytes`, `String`, `Json<T>`, `Form<T>` through
//! `FromRequest::from_request` on an `actix_web::test::TestRequest` whose payload is replaced by a
//! scripted `dev::Payload::Stream` (chunks / Pending / error exactly as the case line says, with
//! counters for how far it was pulled); `web::Payload::to_bytes_limited`;
//! `actix_http::body::to_bytes_limited` on a scripted `MessageBody` with a chosen `size()`;
//! `MultipartForm<T>` for three derived form structs.  Case grammar: see `lean/ActixModel/Drv/C12.lean`.
use std::{
    cell::Cell,
    collections::BTreeMap,
    io::Write as _,
    pin::Pin,
    rc::Rc,
    task::{Context, Poll},
};

use actix_http::{
    body::{BodySize, MessageBody},
    error::PayloadError,
    header::ContentEncoding,
};
use actix_multipart::{
    form::{bytes::Bytes as MpBytes, tempfile::TempFile, text::Text, MultipartForm, MultipartFormConfig},
    MultipartError,
};
use actix_web::{
    dev,
    error::{JsonPayloadError, UrlencodedError},
    test::TestRequest,
    web, FromRequest,
};
use bytes::Bytes;
use futures_core::Stream;

use super::Prop;
use crate::common::{block_on_system, kv, unhex, CaseResult, Ctx, Rng, Tier};

const RULE: &str = "cases = (extractor ∈ {Bytes, String, Json<String>, Form<{a}>, web::Payload::to_bytes_limited, \
body::to_bytes_limited on a scripted MessageBody, MultipartForm<A|B|C|D (renamed + limited fields)>, multipart Field::bytes}) × limit × declared length (absent / true / \
lying small / lying large / unparsable) × content coding (identity, gzip, deflate, br, zstd) × plain body × a script \
cutting the wire image into chunks (empty chunks, Pending, stream error). Streams: all compositions of bodies ≤ 5 \
bytes for limits 0..4; lengths limit-1/limit/limit+1/4·limit for limits up to 64 KiB with whole / 1-byte / random \
cuts; the default limits (256 KiB, 2 MiB, 16 KiB) ±1; decompression bombs; random. Multipart: random field lists over \
names a,b,t,s,u with total / memory budgets around the sums. A case is non-trivial if the body stage ran (not refused \
on content-type); distinct = distinct (case, output) hashes";

const BOUNDARY: &str = "XcTwELvEbOuNdArYx";

// ------------------------------------------------------------------------------------------
// case pieces shared by generator and runner

fn lcg_bytes(seed: u64, n: usize) -> Vec<u8> {
    let mut s = seed;
    (0..n)
        .map(|_| {
            s = (s * 1103515245 + 12345) % 2147483648;
            ((s / 65536) % 256) as u8
        })
        .collect()
}

fn letters(n: usize) -> Vec<u8> {
    (0..n).map(|i| 97 + (i % 26) as u8).collect()
}

fn body_of_spec(spec: &str) -> Vec<u8> {
    let p: Vec<&str> = spec.split(':').collect();
    match p.as_slice() {
        ["x", h] => unhex(h).unwrap_or_default(),
        ["r", b, n] => vec![b.parse::<u8>().unwrap_or(0); n.parse().unwrap_or(0)],
        ["q", s, n] => lcg_bytes(s.parse().unwrap_or(0), n.parse().unwrap_or(0)),
        ["j", n] => {
            let n: usize = n.parse().unwrap_or(2);
            let mut v = vec![b'"'];
            v.extend(letters(n.saturating_sub(2)));
            v.push(b'"');
            v
        }
        ["f", n] => {
            let n: usize = n.parse().unwrap_or(2);
            let mut v = b"a=".to_vec();
            v.extend(letters(n.saturating_sub(2)));
            v
        }
        _ => vec![],
    }
}

fn fnv(bs: &[u8]) -> u32 {
    bs.iter().fold(2166136261u32, |h, b| (h ^ *b as u32).wrapping_mul(16777619))
}

fn compress(enc: &str, data: &[u8]) -> Vec<u8> {
    match enc {
        "gz" => {
            let mut e = flate2::write::GzEncoder::new(Vec::new(), flate2::Compression::default());
            e.write_all(data).unwrap();
            e.finish().unwrap()
        }
        "df" => {
            let mut e = flate2::write::ZlibEncoder::new(Vec::new(), flate2::Compression::default());
            e.write_all(data).unwrap();
            e.finish().unwrap()
        }
        "br" => {
            let mut out = Vec::new();
            {
                let mut e = brotli::CompressorWriter::new(&mut out, 4096, 5, 22);
                e.write_all(data).unwrap();
                e.flush().unwrap();
            }
            out
        }
        "zs" => zstd::stream::encode_all(data, 3).unwrap(),
        _ => data.to_vec(),
    }
}

fn enc_header(enc: &str) -> Option<&'static str> {
    match enc {
        "gz" => Some("gzip"),
        "df" => Some("deflate"),
        "br" => Some("br"),
        "zs" => Some("zstd"),
        _ => None,
    }
}

#[derive(Clone, Debug, PartialEq)]
enum Tok {
    Chunk(usize),
    Pending,
    Err,
}

fn parse_cuts(s: &str) -> Vec<Tok> {
    s.split(',')
        .filter(|t| !t.is_empty())
        .map(|t| match t {
            "p" => Tok::Pending,
            "e" => Tok::Err,
            n => Tok::Chunk(n.parse().unwrap_or(0)),
        })
        .collect()
}

#[derive(Clone, Debug)]
enum Ev {
    Chunk(Bytes),
    Pending,
    Err,
}

fn script(wire: &[u8], toks: &[Tok]) -> Vec<Ev> {
    let mut pos = 0usize;
    toks.iter()
        .map(|t| match t {
            Tok::Pending => Ev::Pending,
            Tok::Err => Ev::Err,
            Tok::Chunk(n) => {
                let end = (pos + n).min(wire.len());
                let c = Bytes::copy_from_slice(&wire[pos..end]);
                pos = end;
                Ev::Chunk(c)
            }
        })
        .collect()
}

#[derive(Default)]
struct Counters {
    /// `Some(_)` items handed out
    pulled: Cell<usize>,
    /// bytes handed out
    bytes: Cell<usize>,
    /// size of the last chunk handed out
    last: Cell<usize>,
    /// `None` handed out
    eof: Cell<bool>,
    /// polled again after `None` or after an error
    after_end: Cell<bool>,
}

/// the scripted request body: a `Stream` that does exactly what the case line says
struct ScriptStream {
    evs: std::collections::VecDeque<Ev>,
    c: Rc<Counters>,
    ended: bool,
}

impl ScriptStream {
    fn new(evs: Vec<Ev>, c: Rc<Counters>) -> Self {
        ScriptStream { evs: evs.into(), c, ended: false }
    }
}

impl Stream for ScriptStream {
    type Item = Result<Bytes, PayloadError>;
    fn poll_next(mut self: Pin<&mut Self>, cx: &mut Context<'_>) -> Poll<Option<Self::Item>> {
        if self.ended {
            self.c.after_end.set(true);
            return Poll::Ready(None);
        }
        match self.evs.pop_front() {
            None => {
                self.ended = true;
                self.c.eof.set(true);
                Poll::Ready(None)
            }
            Some(Ev::Pending) => {
                cx.waker().wake_by_ref();
                Poll::Pending
            }
            Some(Ev::Err) => {
                self.c.pulled.set(self.c.pulled.get() + 1);
                self.c.last.set(0);
                Poll::Ready(Some(Err(PayloadError::Incomplete(None))))
            }
            Some(Ev::Chunk(b)) => {
                self.c.pulled.set(self.c.pulled.get() + 1);
                self.c.bytes.set(self.c.bytes.get() + b.len());
                self.c.last.set(b.len());
                Poll::Ready(Some(Ok(b)))
            }
        }
    }
}

/// a `MessageBody` with a chosen `size()` over the scripted stream
struct ScriptBody {
    size: BodySize,
    s: ScriptStream,
}

impl MessageBody for ScriptBody {
    type Error = PayloadError;
    fn size(&self) -> BodySize {
        self.size
    }
    fn poll_next(mut self: Pin<&mut Self>, cx: &mut Context<'_>) -> Poll<Option<Result<Bytes, PayloadError>>> {
        Pin::new(&mut self.s).poll_next(cx)
    }
}

fn payload_of(evs: Vec<Ev>, c: Rc<Counters>) -> dev::Payload {
    let s: Pin<Box<dyn Stream<Item = Result<Bytes, PayloadError>>>> = Box::pin(ScriptStream::new(evs, c));
    dev::Payload::Stream { payload: s }
}

#[derive(serde::Deserialize)]
struct FormT {
    a: String,
}

// ------------------------------------------------------------------------------------------
// stream extractors

/// canonical result of one run of the real extractor
#[derive(Clone, Debug, PartialEq)]
struct Obs {
    /// `ok:<len>:<fnv>` | overflow | overflow-known:<n> | unknown-length | stream-err | exceeded | parse-err | utf8-err | other:…
    res: String,
    st: String,
    /// form's `Overflow { size }` when raised by the loop
    osz: String,
    data: Option<Vec<u8>>,
}

fn payload_err(e: &PayloadError) -> String {
    match e {
        PayloadError::Overflow => "overflow".into(),
        PayloadError::UnknownLength => "unknown-length".into(),
        PayloadError::Incomplete(_) => "stream-err".into(),
        other => format!("other:payload:{:?}", other).replace(' ', "_"),
    }
}

fn ok_tok(b: &[u8]) -> String {
    format!("ok:{}:{}", b.len(), fnv(b))
}

struct StreamCase<'a> {
    ex: &'a str,
    lim: Option<usize>,
    cl: &'a str,
    enc: &'a str,
}

async fn run_extractor(c: &StreamCase<'_>, evs: Vec<Ev>, cnt: Rc<Counters>) -> Obs {
    let mut osz = "-".to_owned();
    if c.ex == "tbs" {
        let size = match c.cl {
            "none" => BodySize::Stream,
            "bad" => BodySize::None,
            n => BodySize::Sized(n.parse().unwrap_or(0)),
        };
        let body = ScriptBody { size, s: ScriptStream::new(evs, cnt) };
        return match actix_http::body::to_bytes_limited(body, c.lim.unwrap_or(0)).await {
            Ok(Ok(b)) => Obs { res: ok_tok(&b), st: "-".into(), osz, data: Some(b.to_vec()) },
            Ok(Err(e)) => Obs { res: payload_err(&e), st: "-".into(), osz, data: None },
            Err(_) => Obs { res: "exceeded".into(), st: "-".into(), osz, data: None },
        };
    }
    let mut req = TestRequest::post();
    match c.ex {
        "json" | "jb" => req = req.insert_header(("content-type", "application/json")),
        "form" | "ue" => req = req.insert_header(("content-type", "application/x-www-form-urlencoded")),
        _ => {}
    }
    match c.cl {
        "none" => {}
        "bad" => req = req.insert_header(("content-length", "12x")),
        n => req = req.insert_header(("content-length", n.to_owned())),
    }
    if let Some(h) = enc_header(c.enc) {
        req = req.insert_header(("content-encoding", h));
    }
    if let Some(l) = c.lim {
        req = match c.ex {
            "bytes" | "string" => req.app_data(web::PayloadConfig::new(l)),
            "json" => req.app_data(web::JsonConfig::default().limit(l)),
            "form" => req.app_data(web::FormConfig::default().limit(l)),
            _ => req,
        };
    }
    let (req, _) = req.to_http_parts();
    let mut pl = payload_of(evs, cnt);
    let status = |e: &actix_web::Error| e.as_response_error().status_code().as_u16().to_string();
    match c.ex {
        "bytes" => match Bytes::from_request(&req, &mut pl).await {
            Ok(b) => Obs { res: ok_tok(&b), st: "-".into(), osz, data: Some(b.to_vec()) },
            Err(e) => {
                let res = e.as_error::<PayloadError>().map(payload_err).unwrap_or_else(|| format!("other:{:?}", e).replace(' ', "_"));
                Obs { res, st: status(&e), osz, data: None }
            }
        },
        "string" => match String::from_request(&req, &mut pl).await {
            Ok(s) => Obs { res: ok_tok(s.as_bytes()), st: "-".into(), osz, data: Some(s.into_bytes()) },
            Err(e) => {
                let res = match e.as_error::<PayloadError>() {
                    Some(p) => payload_err(p),
                    None if format!("{}", e) == "Can not decode body" => "utf8-err".into(),
                    None => format!("other:{:?}", e).replace(' ', "_"),
                };
                Obs { res, st: status(&e), osz, data: None }
            }
        },
        "json" => match web::Json::<String>::from_request(&req, &mut pl).await {
            Ok(s) => Obs { res: ok_tok(s.as_bytes()), st: "-".into(), osz, data: Some(s.0.into_bytes()) },
            Err(e) => {
                let res = match e.as_error::<JsonPayloadError>() {
                    Some(JsonPayloadError::Overflow { .. }) => "overflow".into(),
                    Some(JsonPayloadError::OverflowKnownLength { length, .. }) => format!("overflow-known:{}", length),
                    Some(JsonPayloadError::Deserialize(_)) => "parse-err".into(),
                    Some(JsonPayloadError::Payload(p)) => payload_err(p),
                    Some(o) => format!("other:{:?}", o).replace(' ', "_"),
                    None => format!("other:{:?}", e).replace(' ', "_"),
                };
                Obs { res, st: status(&e), osz, data: None }
            }
        },
        "form" => match web::Form::<FormT>::from_request(&req, &mut pl).await {
            Ok(f) => Obs { res: ok_tok(f.a.as_bytes()), st: "-".into(), osz, data: Some(f.0.a.into_bytes()) },
            Err(e) => {
                let res = match e.as_error::<UrlencodedError>() {
                    Some(UrlencodedError::Overflow { size, limit }) => {
                        let declared: Option<usize> = c.cl.parse().ok();
                        if declared == Some(*size) && *size > *limit {
                            format!("overflow-known:{}", size)
                        } else {
                            osz = size.to_string();
                            "overflow".into()
                        }
                    }
                    Some(UrlencodedError::UnknownLength) => "unknown-length".into(),
                    Some(UrlencodedError::Parse(_)) => "parse-err".into(),
                    Some(UrlencodedError::Payload(p)) => payload_err(p),
                    Some(o) => format!("other:{:?}", o).replace(' ', "_"),
                    None => format!("other:{:?}", e).replace(' ', "_"),
                };
                Obs { res, st: status(&e), osz, data: None }
            }
        },
        "jb" => {
            let mut fut = web::JsonBody::<String>::new(&req, &mut pl, None, true);
            if let Some(l) = c.lim {
                fut = fut.limit(l);
            }
            match fut.await {
                Ok(s) => Obs { res: ok_tok(s.as_bytes()), st: "-".into(), osz, data: Some(s.into_bytes()) },
                Err(e) => {
                    use actix_web::ResponseError as _;
                    let res = match &e {
                        JsonPayloadError::Overflow { .. } => "overflow".into(),
                        JsonPayloadError::OverflowKnownLength { length, .. } => format!("overflow-known:{}", length),
                        JsonPayloadError::Deserialize(_) => "parse-err".into(),
                        JsonPayloadError::Payload(p) => payload_err(p),
                        o => format!("other:{:?}", o).replace(' ', "_"),
                    };
                    Obs { res, st: e.status_code().as_u16().to_string(), osz, data: None }
                }
            }
        }
        "ue" => {
            let mut fut = web::UrlEncoded::<FormT>::new(&req, &mut pl);
            if let Some(l) = c.lim {
                fut = fut.limit(l);
            }
            match fut.await {
                Ok(f) => Obs { res: ok_tok(f.a.as_bytes()), st: "-".into(), osz, data: Some(f.a.into_bytes()) },
                Err(e) => {
                    use actix_web::ResponseError as _;
                    let res = match &e {
                        UrlencodedError::Overflow { size, limit } => {
                            let declared: Option<usize> = c.cl.parse().ok();
                            if declared == Some(*size) && *size > *limit {
                                format!("overflow-known:{}", size)
                            } else {
                                osz = size.to_string();
                                "overflow".into()
                            }
                        }
                        UrlencodedError::UnknownLength => "unknown-length".into(),
                        UrlencodedError::Parse(_) => "parse-err".into(),
                        UrlencodedError::Payload(p) => payload_err(p),
                        o => format!("other:{:?}", o).replace(' ', "_"),
                    };
                    Obs { res, st: e.status_code().as_u16().to_string(), osz, data: None }
                }
            }
        }
        "tbl" => {
            let p = web::Payload::from_request(&req, &mut pl).await.unwrap();
            match p.to_bytes_limited(c.lim.unwrap_or(0)).await {
                Ok(Ok(b)) => Obs { res: ok_tok(&b), st: "-".into(), osz, data: Some(b.to_vec()) },
                Ok(Err(e)) => {
                    let res = e.as_error::<PayloadError>().map(payload_err).unwrap_or_else(|| format!("other:{:?}", e).replace(' ', "_"));
                    Obs { res, st: "-".into(), osz, data: None }
                }
                Err(_) => Obs { res: "exceeded".into(), st: "-".into(), osz, data: None },
            }
        }
        _ => Obs { res: "bad-extractor".into(), st: "-".into(), osz, data: None },
    }
}

async fn h_bytes(b: Bytes) -> String {
    format!("{}:{}", b.len(), fnv(&b))
}
async fn h_string(b: String) -> String {
    format!("{}:{}", b.len(), fnv(b.as_bytes()))
}
async fn h_json(b: web::Json<String>) -> String {
    format!("{}:{}", b.len(), fnv(b.as_bytes()))
}
async fn h_form(b: web::Form<FormT>) -> String {
    format!("{}:{}", b.a.len(), fnv(b.a.as_bytes()))
}

/// the same extractors behind a real `App` service and a real `h1::Payload` (`set_payload`)
async fn run_via_service(c: &StreamCase<'_>, wire: Vec<u8>) -> Obs {
    use actix_web::{test, App};
    // `set_payload` installs a true Content-Length; a lying / unparsable one is put on top of it
    // (so `cl=none` does not exist on this path: the generator always gives a value)
    let mut req = TestRequest::post().uri("/").set_payload(wire);
    match c.ex {
        "json" => req = req.insert_header(("content-type", "application/json")),
        "form" => req = req.insert_header(("content-type", "application/x-www-form-urlencoded")),
        _ => {}
    }
    match c.cl {
        "none" => {}
        "bad" => req = req.insert_header(("content-length", "12x")),
        n => req = req.insert_header(("content-length", n.to_owned())),
    }
    if let Some(h) = enc_header(c.enc) {
        req = req.insert_header(("content-encoding", h));
    }
    let req = req.to_request();
    macro_rules! go {
        ($app:expr) => {{
            let app = test::init_service($app).await;
            let resp = test::call_service(&app, req).await;
            let st = resp.status().as_u16();
            let body = test::read_body(resp).await;
            (st, body)
        }};
    }
    let (st, body) = match (c.ex, c.lim) {
        ("bytes", Some(l)) => go!(App::new().app_data(web::PayloadConfig::new(l)).route("/", web::post().to(h_bytes))),
        ("bytes", None) => go!(App::new().route("/", web::post().to(h_bytes))),
        ("string", Some(l)) => go!(App::new().app_data(web::PayloadConfig::new(l)).route("/", web::post().to(h_string))),
        ("string", None) => go!(App::new().route("/", web::post().to(h_string))),
        ("json", Some(l)) => go!(App::new().app_data(web::JsonConfig::default().limit(l)).route("/", web::post().to(h_json))),
        ("json", None) => go!(App::new().route("/", web::post().to(h_json))),
        ("form", Some(l)) => go!(App::new().app_data(web::FormConfig::default().limit(l)).route("/", web::post().to(h_form))),
        _ => go!(App::new().route("/", web::post().to(h_form))),
    };
    if st == 200 {
        let text = String::from_utf8_lossy(&body).to_string();
        let len: usize = text.split(':').next().and_then(|x| x.parse().ok()).unwrap_or(usize::MAX);
        Obs { res: format!("ok:{}", text), st: "-".into(), osz: "-".into(), data: Some(vec![0u8; len.min(1 << 26)]) }
    } else {
        Obs { res: "err".into(), st: st.to_string(), osz: "-".into(), data: None }
    }
}

/// what the request decoder hands on, measured on the side with the same wire script:
/// (items pulled from the wire when the output appeared, output length); last entry = eof
async fn decode_profile(enc: &str, evs: Vec<Ev>) -> (Vec<(usize, usize)>, bool, bool) {
    use futures_util::StreamExt as _;
    let cnt = Rc::new(Counters::default());
    let ce = match enc {
        "gz" => ContentEncoding::Gzip,
        "df" => ContentEncoding::Deflate,
        "br" => ContentEncoding::Brotli,
        "zs" => ContentEncoding::Zstd,
        _ => ContentEncoding::Identity,
    };
    let mut d = dev::Decompress::new(ScriptStream::new(evs, cnt.clone()), ce);
    let mut out = Vec::new();
    let mut failed = false;
    let mut out_at_eof = false;
    while let Some(item) = d.next().await {
        match item {
            Ok(b) => {
                out_at_eof |= cnt.eof.get();
                out.push((cnt.pulled.get(), b.len()))
            }
            Err(_) => {
                failed = true;
                break;
            }
        }
    }
    (out, failed, out_at_eof)
}

fn overflow_class(res: &str) -> bool {
    res == "overflow" || res.starts_with("overflow-known:") || res == "exceeded"
}

fn run_stream(case: &str, ex: &str) -> CaseResult {
    let lim: Option<usize> = match kv(case, "lim") {
        Some("dflt") | None => None,
        Some(v) => v.parse().ok(),
    };
    let cl = kv(case, "cl").unwrap_or("none");
    let enc = if ex == "tbl" || ex == "tbs" { "id" } else { kv(case, "enc").unwrap_or("id") };
    let plain = body_of_spec(kv(case, "body").unwrap_or("x:-"));
    let wire = compress(enc, &plain);
    let toks = parse_cuts(kv(case, "cuts").unwrap_or(""));
    let declared_wire: usize = kv(case, "wire").and_then(|v| v.parse().ok()).unwrap_or(usize::MAX);
    if declared_wire != wire.len() {
        return CaseResult::ok(format!("bad-case:wire={}", wire.len())).fail("bad-case", "wire length differs from the generator's".into());
    }
    let evs = script(&wire, &toks);
    let sc = StreamCase { ex, lim, cl, enc };
    let eff_limit = lim.unwrap_or(match ex {
        "json" | "jb" => 2_097_152,
        "form" => 16_384,
        "ue" => 32_768,
        _ => 262_144,
    });

    if kv(case, "via") == Some("svc") {
        let obs = block_on_system(run_via_service(&sc, wire.clone()));
        let mut r = CaseResult::ok(format!("{} st={} pulled=* eof=* osz=*", obs.res, obs.st));
        let expect_len = match ex {
            "json" | "form" => plain.len().saturating_sub(2),
            _ => plain.len(),
        };
        if let Some(d) = &obs.data {
            if plain.len() > eff_limit {
                r = r.fail("accepted-over-limit", format!("body of {} bytes accepted with limit {} (via service)", plain.len(), eff_limit));
            } else if d.len() != expect_len {
                r = r.fail("wrong-body", format!("handler saw {} bytes, sent {}", d.len(), expect_len));
            }
        } else if plain.len() > eff_limit && cl != "bad" && obs.st != "413" {
            r = r.fail("overflow-status", format!("{} bytes over limit {} answered with status {}", plain.len(), eff_limit, obs.st));
        } else if plain.len() <= eff_limit && obs.st == "413" && (cl == "none" || cl.parse::<usize>().map_or(false, |d| d <= eff_limit)) {
            r = r.fail("within-limit-overflow", format!("{} bytes, limit {}: 413 (via service)", plain.len(), eff_limit));
        }
        return r.tag("via:service").tag(&format!("ex:{}", ex)).tag(&format!("enc:{}", enc));
    }

    let (obs, cnt, reference, profile) = block_on_system(async {
        let cnt = Rc::new(Counters::default());
        let obs = run_extractor(&sc, evs.clone(), cnt.clone()).await;
        // metamorphic reference: the same wire bytes (up to the first error) as ONE chunk
        let mut ref_evs = Vec::new();
        let mut acc: Vec<u8> = Vec::new();
        let mut err = false;
        for e in &evs {
            match e {
                Ev::Chunk(b) => acc.extend_from_slice(b),
                Ev::Err => {
                    err = true;
                    break;
                }
                Ev::Pending => {}
            }
        }
        ref_evs.push(Ev::Chunk(Bytes::from(acc)));
        if err {
            ref_evs.push(Ev::Err);
        }
        let reference = run_extractor(&sc, ref_evs, Rc::new(Counters::default())).await;
        let profile = if enc != "id" { Some(decode_profile(enc, evs.clone()).await) } else { None };
        (obs, cnt, reference, profile)
    });

    let ident = enc == "id";
    let (pl, eof) = if ident {
        (cnt.pulled.get().to_string(), (cnt.eof.get() as u8).to_string())
    } else {
        ("-".to_owned(), "-".to_owned())
    };
    let osz = if ident { obs.osz.clone() } else { "-".to_owned() };
    let output = format!("{} st={} pulled={} eof={} osz={}", obs.res, obs.st, pl, eof, osz);
    let mut r = CaseResult::ok(output);
    r.nontrivial = !obs.res.starts_with("other:");

    // ---------------- oracle: the property's own words, on the implementation's output ----------
    let has_err = toks.contains(&Tok::Err);
    let sent: usize = toks.iter().map(|t| if let Tok::Chunk(n) = t { *n } else { 0 }).sum();
    let complete = !has_err && sent >= wire.len();
    // (1) success only within the limit, and with exactly the body that was sent
    if let Some(d) = &obs.data {
        let expect: &[u8] = match ex {
            "json" | "jb" => if plain.len() >= 2 { &plain[1..plain.len() - 1] } else { &plain },
            "form" | "ue" => if plain.len() >= 2 { &plain[2..] } else { &plain },
            _ => &plain,
        };
        let tbs_shortcut = ex == "tbs" && (cl == "bad" || cl == "0");
        if plain.len() > eff_limit && !tbs_shortcut {
            r = r.fail("accepted-over-limit", format!("body of {} bytes accepted with limit {}", plain.len(), eff_limit));
        } else if d.len() > eff_limit {
            r = r.fail("accepted-over-limit", format!("returned {} bytes with limit {}", d.len(), eff_limit));
        } else if !tbs_shortcut && (d.as_slice() != expect || !complete) {
            r = r.fail("wrong-body", format!("returned {} bytes, sent {} (complete={})", d.len(), expect.len(), complete));
        }
    }
    // (2) a complete body over the limit fails, and with the overflow error
    let cl_unparsable_refuses = cl == "bad" && matches!(ex, "bytes" | "string" | "form" | "ue");
    if complete && plain.len() > eff_limit && !cl_unparsable_refuses && !(ex == "tbs" && (cl == "bad" || cl == "0")) {
        if !overflow_class(&obs.res) {
            r = r.fail("over-limit-not-overflow", format!("{} bytes, limit {}: {}", plain.len(), eff_limit, obs.res));
        } else if obs.st != "413" && obs.st != "-" {
            r = r.fail("overflow-status", format!("overflow reported with status {}", obs.st));
        }
    }
    // (3) a complete body within the limit, with no declared length (or one within the limit), succeeds
    //     (or fails only in post-processing)
    let declared: Option<usize> = cl.parse().ok();
    let decl_ok = cl == "none" || declared.map_or(false, |d| d <= eff_limit) || ex == "tbl" || ((ex == "json" || ex == "jb") && cl == "bad") || (ex == "jb" && lim.is_none());
    if complete && plain.len() <= eff_limit && decl_ok && !(ex == "tbs" && cl == "0") && overflow_class(&obs.res) {
        r = r.fail("within-limit-overflow", format!("{} bytes, limit {}: {}", plain.len(), eff_limit, obs.res));
    }
    // (4) outcome does not depend on chunking
    if obs.res != reference.res || obs.st != reference.st {
        r = r.fail("chunking-dependent", format!("scripted chunking: {} / one chunk: {}", obs.res, reference.res));
    }
    // (5) never hold more than limit + one incoming chunk: everything pulled before the last
    //     chunk must have fitted; refused-on-header means nothing pulled; no poll after the end
    let pulled_bytes = cnt.bytes.get();
    let before_last = pulled_bytes - cnt.last.get();
    if ident {
        if before_last > eff_limit {
            r = r.fail("pulled-beyond-limit", format!("{} bytes already taken when the next chunk was pulled, limit {}", before_last, eff_limit));
        }
    } else if let Some((prof, failed, out_at_eof)) = &profile {
        if *out_at_eof {
            r = r.tag("decoder-output-at-eof");
        }
        // expected stop: the first decoded output that pushes the decoded total over the limit
        let mut cum = 0usize;
        let mut expect_pulled = None;
        let mut max_out = 0usize;
        for (p, n) in prof {
            max_out = max_out.max(*n);
            cum += n;
            if cum > eff_limit && expect_pulled.is_none() {
                expect_pulled = Some(*p);
            }
        }
        if let Some(p) = expect_pulled {
            if cnt.pulled.get() > p {
                r = r.fail("pulled-beyond-limit", format!("{} wire items pulled, decoded total exceeded the limit after {}", cnt.pulled.get(), p));
            }
        }
        let max_wire = toks.iter().map(|t| if let Tok::Chunk(n) = t { *n } else { 0 }).max().unwrap_or(0);
        if max_out > eff_limit + max_wire {
            r = r.tag("O6:decoded-chunk>limit+wire-chunk");
            let ratio = max_out / (eff_limit + max_wire).max(1);
            let bucket = if ratio >= 1000 { ">=1000x" } else if ratio >= 100 { ">=100x" } else if ratio >= 10 { ">=10x" } else { "<10x" };
            r = r.tag(&format!("O6:decoded-chunk/(limit+wire-chunk){}", bucket));
        }
        if *failed {
            r = r.tag("decoder-error");
        }
    }
    let early = obs.res.starts_with("overflow-known:") || obs.res == "unknown-length";
    if early && cnt.pulled.get() != 0 {
        r = r.fail("pulled-after-header-refusal", format!("{} items pulled", cnt.pulled.get()));
    }
    if let Some(d) = declared {
        // (`JsonBody::new` without `.limit()` documents that it does not look at the declared length)
        if d > eff_limit && (matches!(ex, "bytes" | "string" | "json" | "form" | "ue") || (ex == "jb" && lim.is_some())) && (cnt.pulled.get() != 0 || !overflow_class(&obs.res)) {
            r = r.fail("declared-over-limit-read", format!("declared {} > limit {}: {} after pulling {}", d, eff_limit, obs.res, cnt.pulled.get()));
        }
    }
    if cnt.after_end.get() {
        r = r.fail("polled-after-end", "stream polled again after None".into());
    }
    if complete && plain.len() <= eff_limit && declared.map_or(false, |d| d > eff_limit) && overflow_class(&obs.res) {
        r = r.tag("refused-on-declared-length-though-body-fits");
    }
    r = r.tag(&format!("ex:{}", ex)).tag(&format!("enc:{}", enc));
    let kind = obs.res.split(':').next().unwrap_or("?").to_owned();
    r = r.tag(&format!("res:{}", kind));
    r = r.tag(&format!("cl:{}", match cl { "none" => "absent", "bad" => "unparsable", _ => if declared == Some(wire.len()) { "true" } else { "lying" } }));
    if has_err {
        r = r.tag("stream-error-injected");
    }
    if toks.contains(&Tok::Pending) {
        r = r.tag("pending-injected");
    }
    r
}

// ------------------------------------------------------------------------------------------
// multipart forms (field limits are compile-time attributes of the derive)

#[derive(MultipartForm)]
struct FormA {
    #[multipart(limit = "16B")]
    a: Vec<MpBytes>,
    b: Option<MpBytes>,
    #[multipart(limit = "24B")]
    t: Vec<TempFile>,
    #[multipart(limit = "8B")]
    s: Option<Text<String>>,
}

#[derive(MultipartForm)]
#[multipart(duplicate_field = "deny")]
struct FormB {
    #[multipart(limit = "16B")]
    a: Vec<MpBytes>,
    b: Option<MpBytes>,
}

#[derive(MultipartForm)]
#[multipart(duplicate_field = "replace")]
struct FormC {
    a: Vec<MpBytes>,
    #[multipart(limit = "16B")]
    b: Option<MpBytes>,
}

/// field-level limits on RENAMED fields: the wire names (`payload[]`, `single`) differ from the
/// Rust identifiers (`payload`, `one`); `ctl` is the un-renamed control.  A part whose wire name is
/// the Rust identifier (`payload`) is an unknown field.
#[derive(MultipartForm)]
struct FormD {
    #[multipart(rename = "payload[]", limit = "16B")]
    payload: Vec<MpBytes>,
    #[multipart(limit = "16B")]
    ctl: Vec<MpBytes>,
    #[multipart(rename = "single", limit = "8B")]
    one: Option<MpBytes>,
}

/// per-field limits, keyed by the WIRE name (what `MultipartCollect::limit(field_name)` receives)
fn mp_limit_of(form: &str, name: &str) -> Option<usize> {
    match (form, name) {
        ("D", "payload[]") => Some(16),
        ("D", "ctl") => Some(16),
        ("D", "single") => Some(8),
        ("A", "a") => Some(16),
        ("A", "t") => Some(24),
        ("A", "s") => Some(8),
        ("B", "a") => Some(16),
        ("C", "b") => Some(16),
        _ => None,
    }
}

fn mp_fields(s: &str) -> Vec<(String, usize)> {
    s.split(';')
        .filter(|x| !x.is_empty())
        .filter_map(|x| {
            let (n, l) = x.split_once(':')?;
            Some((n.to_owned(), l.parse().ok()?))
        })
        .collect()
}

fn mp_body(fields: &[(String, usize)]) -> Vec<u8> {
    let data: Vec<(String, Vec<u8>)> = fields.iter().map(|(n, l)| (n.clone(), letters(*l))).collect();
    mp_body_data(&data)
}

fn mp_body_data(fields: &[(String, Vec<u8>)]) -> Vec<u8> {
    let mut v = Vec::new();
    for (i, (name, data)) in fields.iter().enumerate() {
        v.extend_from_slice(format!("--{}\r\n", BOUNDARY).as_bytes());
        if name == "t" {
            v.extend_from_slice(format!("Content-Disposition: form-data; name=\"{}\"; filename=\"f{}.txt\"\r\n\r\n", name, i).as_bytes());
        } else {
            v.extend_from_slice(format!("Content-Disposition: form-data; name=\"{}\"\r\n\r\n", name).as_bytes());
        }
        v.extend_from_slice(data);
        v.extend_from_slice(b"\r\n");
    }
    v.extend_from_slice(format!("--{}--\r\n", BOUNDARY).as_bytes());
    v
}

/// retained payload sizes by struct field, for the oracle
type Kept = BTreeMap<&'static str, Vec<usize>>;

fn mp_classify(e: &actix_web::Error) -> (String, String) {
    let st = e.as_response_error().status_code().as_u16().to_string();
    let res = match e.as_error::<MultipartError>() {
        Some(MultipartError::Payload(PayloadError::Overflow)) => "overflow".to_owned(),
        Some(MultipartError::DuplicateField(_)) => "duplicate".to_owned(),
        Some(o) => format!("other:{:?}", o).replace(' ', "_"),
        None => format!("other:{:?}", e).replace(' ', "_"),
    };
    (res, st)
}

async fn run_mp_form(form: &str, total: Option<usize>, mem: Option<usize>, evs: Vec<Ev>, cnt: Rc<Counters>) -> (String, String, Option<Kept>) {
    let mut cfg = MultipartFormConfig::default();
    if let Some(t) = total {
        cfg = cfg.total_limit(t);
    }
    if let Some(m) = mem {
        cfg = cfg.memory_limit(m);
    }
    let (req, _) = TestRequest::post()
        .insert_header(("content-type", format!("multipart/form-data; boundary={}", BOUNDARY)))
        .app_data(cfg)
        .to_http_parts();
    let mut pl = payload_of(evs, cnt);
    let mut kept = Kept::new();
    match form {
        "D" => match MultipartForm::<FormD>::from_request(&req, &mut pl).await {
            Ok(f) => {
                kept.insert("payload[]", f.payload.iter().map(|x| x.data.len()).collect());
                kept.insert("ctl", f.ctl.iter().map(|x| x.data.len()).collect());
                kept.insert("single", f.one.iter().map(|x| x.data.len()).collect());
                ("ok".into(), "-".into(), Some(kept))
            }
            Err(e) => {
                let (r, s) = mp_classify(&e);
                (r, s, None)
            }
        },
        "A" => match MultipartForm::<FormA>::from_request(&req, &mut pl).await {
            Ok(f) => {
                kept.insert("a", f.a.iter().map(|x| x.data.len()).collect());
                kept.insert("b", f.b.iter().map(|x| x.data.len()).collect());
                kept.insert("t", f.t.iter().map(|x| x.size).collect());
                kept.insert("s", f.s.iter().map(|x| x.0.len()).collect());
                ("ok".into(), "-".into(), Some(kept))
            }
            Err(e) => {
                let (r, s) = mp_classify(&e);
                (r, s, None)
            }
        },
        "B" => match MultipartForm::<FormB>::from_request(&req, &mut pl).await {
            Ok(f) => {
                kept.insert("a", f.a.iter().map(|x| x.data.len()).collect());
                kept.insert("b", f.b.iter().map(|x| x.data.len()).collect());
                ("ok".into(), "-".into(), Some(kept))
            }
            Err(e) => {
                let (r, s) = mp_classify(&e);
                (r, s, None)
            }
        },
        _ => match MultipartForm::<FormC>::from_request(&req, &mut pl).await {
            Ok(f) => {
                kept.insert("a", f.a.iter().map(|x| x.data.len()).collect());
                kept.insert("b", f.b.iter().map(|x| x.data.len()).collect());
                ("ok".into(), "-".into(), Some(kept))
            }
            Err(e) => {
                let (r, s) = mp_classify(&e);
                (r, s, None)
            }
        },
    }
}

/// reference semantics written with running sums (not with remaining counters): which fields
/// are charged to which budget, the first field at which a sum exceeds its budget, the first
/// denied duplicate
fn mp_reference(form: &str, total: usize, mem: usize, fields: &[(String, usize)]) -> (String, Kept) {
    let mut sum_total = 0usize;
    let mut sum_mem = 0usize;
    let mut by_name: BTreeMap<String, usize> = BTreeMap::new();
    let mut seen: Vec<String> = Vec::new();
    let mut kept = Kept::new();
    if form == "D" {
        for k in ["payload[]", "ctl", "single"] {
            kept.insert(k, vec![]);
        }
    } else {
        for k in ["a", "b", "t", "s"] {
            if !(form != "A" && (k == "t" || k == "s")) {
                kept.insert(k, vec![]);
            }
        }
    }
    for (name, len) in fields {
        let known = matches!(
            (form, name.as_str()),
            ("A", "a" | "b" | "t" | "s") | ("B" | "C", "a" | "b") | ("D", "payload[]" | "ctl" | "single")
        );
        let is_vec = matches!(name.as_str(), "a" | "t" | "payload[]" | "ctl");
        let dup = !is_vec && seen.contains(name);
        if known && dup && form == "B" {
            return ("duplicate".into(), kept);
        }
        let read = known && !(dup && (form == "A" || form == "D"));
        let in_mem = read && name != "t";
        sum_total += len;
        if in_mem {
            sum_mem += len;
        }
        let n = by_name.entry(name.clone()).or_insert(0);
        *n += len;
        let over_name = mp_limit_of(form, name).map_or(false, |l| *n > l);
        if sum_total > total || sum_mem > mem || over_name {
            return ("overflow".into(), kept);
        }
        if read {
            let key: &'static str = match name.as_str() {
                "payload[]" => "payload[]",
                "ctl" => "ctl",
                "single" => "single",
                "a" => "a",
                "b" => "b",
                "t" => "t",
                _ => "s",
            };
            let e = kept.entry(key).or_default();
            if is_vec {
                e.push(*len);
            } else {
                *e = vec![*len];
            }
            if !seen.contains(name) {
                seen.push(name.clone());
            }
        }
    }
    ("ok".into(), kept)
}

fn run_mp(case: &str) -> CaseResult {
    let form = kv(case, "form").unwrap_or("A");
    let total: Option<usize> = kv(case, "total").and_then(|v| v.parse().ok());
    let mem: Option<usize> = kv(case, "mem").and_then(|v| v.parse().ok());
    let fields = mp_fields(kv(case, "fields").unwrap_or(""));
    let wire = mp_body(&fields);
    let mut toks = parse_cuts(kv(case, "cuts").unwrap_or(""));
    let sent: usize = toks.iter().map(|t| if let Tok::Chunk(n) = t { *n } else { 0 }).sum();
    if sent < wire.len() {
        toks.push(Tok::Chunk(wire.len() - sent));
    }
    let evs = script(&wire, &toks);
    let ((res, st, kept), (res1, _, _)) = block_on_system(async {
        let a = run_mp_form(form, total, mem, evs.clone(), Rc::new(Counters::default())).await;
        let one = vec![Ev::Chunk(Bytes::copy_from_slice(&wire))];
        let b = run_mp_form(form, total, mem, one, Rc::new(Counters::default())).await;
        (a, b)
    });
    let mut r = CaseResult::ok(format!("{} st={}", res, st));
    r.nontrivial = !res.starts_with("other:");
    let (want, want_kept) = mp_reference(form, total.unwrap_or(52_428_800), mem.unwrap_or(2_097_152), &fields);
    if res == "ok" && want != "ok" {
        r = r.fail("mp-accepted-over-budget", format!("form accepted, reference says {}", want));
    } else if res != want {
        r = r.fail("mp-outcome", format!("got {}, reference says {}", res, want));
    } else if let Some(k) = kept {
        if k != want_kept {
            r = r.fail("mp-kept", format!("retained {:?}, reference {:?}", k, want_kept));
        }
    }
    if res != res1 {
        r = r.fail("chunking-dependent", format!("scripted chunking: {} / one chunk: {}", res, res1));
    }
    r.tag("ex:mp").tag(&format!("form:{}", form)).tag(&format!("res:{}", res.split(':').next().unwrap_or("?")))
}

// ------------------------------------------------------------------------------------------
// Field::bytes(limit) on the first of two fields of a raw `Multipart` stream

fn fb_wire(plain: &[u8]) -> Vec<u8> {
    mp_body_data(&[("a".to_owned(), plain.to_vec()), ("z".to_owned(), b"xyz".to_vec())])
}

async fn run_fb_once(limit: usize, evs: Vec<Ev>) -> (String, Option<Vec<u8>>, u8) {
    use futures_util::StreamExt as _;
    let mut headers = actix_http::header::HeaderMap::new();
    headers.insert(
        actix_http::header::CONTENT_TYPE,
        actix_http::header::HeaderValue::from_str(&format!("multipart/form-data; boundary={}", BOUNDARY)).unwrap(),
    );
    let cnt = Rc::new(Counters::default());
    let mut mp = actix_multipart::Multipart::new(&headers, ScriptStream::new(evs, cnt));
    let mut field = match mp.next().await {
        Some(Ok(f)) => f,
        Some(Err(_)) => return ("stream-err".into(), None, 0),
        None => return ("other:no-field".into(), None, 0),
    };
    let (res, data) = match field.bytes(limit).await {
        Ok(Ok(b)) => (ok_tok(&b), Some(b.to_vec())),
        Ok(Err(_)) => return ("stream-err".into(), None, 0),
        Err(_) => ("limit-exceeded".to_owned(), None),
    };
    drop(field);
    // the rest of the request must still be readable
    let next = match mp.next().await {
        Some(Ok(mut f2)) => match f2.bytes(16).await {
            Ok(Ok(b)) if &b[..] == b"xyz" => 1,
            _ => 0,
        },
        _ => 0,
    };
    (res, data, next)
}

fn run_fb(case: &str) -> CaseResult {
    let limit: usize = kv(case, "lim").and_then(|v| v.parse().ok()).unwrap_or(0);
    let plain = body_of_spec(kv(case, "body").unwrap_or("x:-"));
    let wire = fb_wire(&plain);
    let mut toks = parse_cuts(kv(case, "cuts").unwrap_or(""));
    let has_err = toks.contains(&Tok::Err);
    let sent: usize = toks.iter().map(|t| if let Tok::Chunk(n) = t { *n } else { 0 }).sum();
    if sent < wire.len() && !has_err {
        toks.push(Tok::Chunk(wire.len() - sent));
    }
    let evs = script(&wire, &toks);
    let ((res, data, next), (res1, _, _)) = block_on_system(async {
        let a = run_fb_once(limit, evs.clone()).await;
        let mut one = vec![Ev::Chunk(Bytes::copy_from_slice(&wire))];
        if has_err {
            // same bytes before the error, as one chunk
            let mut acc = Vec::new();
            for e in &evs {
                match e {
                    Ev::Chunk(b) => acc.extend_from_slice(b),
                    Ev::Err => break,
                    Ev::Pending => {}
                }
            }
            one = vec![Ev::Chunk(Bytes::from(acc)), Ev::Err];
        }
        let b = run_fb_once(limit, one).await;
        (a, b)
    });
    let mut r = CaseResult::ok(format!("{} next={}", res, next));
    r.nontrivial = !res.starts_with("other:");
    if let Some(d) = &data {
        if d.len() > limit || plain.len() > limit {
            r = r.fail("accepted-over-limit", format!("field of {} bytes returned with limit {}", plain.len(), limit));
        } else if d != &plain {
            r = r.fail("wrong-body", format!("returned {} bytes, field has {}", d.len(), plain.len()));
        }
    }
    if !has_err {
        if plain.len() > limit && res != "limit-exceeded" {
            r = r.fail("over-limit-not-overflow", format!("{} bytes, limit {}: {}", plain.len(), limit, res));
        }
        if plain.len() <= limit && data.is_none() {
            r = r.fail("within-limit-overflow", format!("{} bytes, limit {}: {}", plain.len(), limit, res));
        }
        if next != 1 {
            r = r.fail("fb-next-field-lost", format!("after {} the following field could not be read", res));
        }
    }
    if res != res1 {
        r = r.fail("chunking-dependent", format!("scripted chunking: {} / one chunk: {}", res, res1));
    }
    let mut r = r.tag("ex:fb").tag(&format!("res:{}", res.split(':').next().unwrap_or("?")));
    if has_err {
        r = r.tag("stream-error-injected");
    }
    r
}

// ------------------------------------------------------------------------------------------
// the public `Limits` API call by call (continuing after refusals)

fn run_limits(case: &str) -> CaseResult {
    use actix_multipart::form::Limits;
    let total: usize = kv(case, "total").and_then(|v| v.parse().ok()).unwrap_or(0);
    let mem: usize = kv(case, "mem").and_then(|v| v.parse().ok()).unwrap_or(0);
    let field: Option<usize> = kv(case, "field").and_then(|v| v.parse().ok());
    let mut l = Limits::new(total, mem);
    l.field_limit_remaining = field;
    let mut out = Vec::new();
    let mut r = CaseResult::ok(String::new());
    // reference: sums of what has been accepted so far (per budget)
    for op in kv(case, "ops").unwrap_or("").split(',').filter(|x| !x.is_empty()) {
        let Some((b, m)) = op.split_once(':') else { continue };
        let bytes: usize = b.parse().unwrap_or(0);
        let in_mem = m == "1";
        let before = (l.total_limit_remaining, l.memory_limit_remaining, l.field_limit_remaining);
        let fits = bytes <= before.0 && (!in_mem || bytes <= before.1) && before.2.map_or(true, |f| bytes <= f);
        let ok = match l.try_consume_limits(bytes, in_mem) {
            Ok(()) => true,
            Err(MultipartError::Payload(PayloadError::Overflow)) => false,
            Err(e) => {
                r = r.fail("limits-error-kind", format!("{:?}", e));
                false
            }
        };
        let after = (l.total_limit_remaining, l.memory_limit_remaining, l.field_limit_remaining);
        if ok != fits {
            r = r.fail("limits-accept", format!("{} bytes (in_memory={}) on {:?}: accepted={}", bytes, in_mem, before, ok));
        }
        if after.0 > before.0 || after.1 > before.1 || after.2.unwrap_or(0) > before.2.unwrap_or(0) {
            r = r.fail("limits-underflow", format!("budget grew: {:?} -> {:?}", before, after));
        }
        if ok && (before.0 - after.0 != bytes || before.1 - after.1 != if in_mem { bytes } else { 0 } || before.2.map_or(false, |f| f - after.2.unwrap_or(0) != bytes)) {
            r = r.fail("limits-charge", format!("{} bytes charged wrongly: {:?} -> {:?}", bytes, before, after));
        }
        out.push(format!("{}@{},{},{}", ok as u8, after.0, after.1, after.2.map_or("-".to_owned(), |f| f.to_string())));
    }
    r.output = out.join(" ");
    r.tag("ex:limits")
}

fn run(case: &str) -> CaseResult {
    match kv(case, "ex") {
        Some("lim") => run_limits(case),
        Some("mp") => run_mp(case),
        Some("fb") => run_fb(case),
        Some(ex) => run_stream(case, ex),
        None => CaseResult::ok("bad-case".into()),
    }
}

// ------------------------------------------------------------------------------------------
// generator

fn hexs(b: &[u8]) -> String {
    if b.is_empty() {
        "-".into()
    } else {
        b.iter().map(|x| format!("{:02x}", x)).collect()
    }
}

fn cuts_str(toks: &[Tok]) -> String {
    toks.iter()
        .map(|t| match t {
            Tok::Chunk(n) => n.to_string(),
            Tok::Pending => "p".into(),
            Tok::Err => "e".into(),
        })
        .collect::<Vec<_>>()
        .join(",")
}

fn stream_case(ex: &str, lim: &str, cl: &str, enc: &str, body: &str, toks: &[Tok]) -> String {
    let plain = body_of_spec(body);
    let wire = if ex == "tbl" || ex == "tbs" { plain.len() } else { compress(enc, &plain).len() };
    format!("ex={} lim={} cl={} enc={} body={} wire={} cuts={}", ex, lim, cl, enc, body, wire, cuts_str(toks))
}

/// all compositions of n (ordered sums of positive parts)
fn compositions(n: usize) -> Vec<Vec<usize>> {
    if n == 0 {
        return vec![vec![]];
    }
    let mut out = Vec::new();
    for mask in 0..(1u32 << (n - 1)) {
        let mut parts = Vec::new();
        let mut cur = 1;
        for i in 0..n - 1 {
            if mask & (1 << i) != 0 {
                parts.push(cur);
                cur = 1;
            } else {
                cur += 1;
            }
        }
        parts.push(cur);
        out.push(parts);
    }
    out
}

fn random_cuts(rng: &mut Rng, len: usize, max_parts: usize, noise: bool) -> Vec<Tok> {
    let mut toks = Vec::new();
    let mut rest = len;
    let parts = rng.range(1, max_parts.max(1));
    for i in 0..parts {
        if noise && rng.chance(1, 6) {
            toks.push(Tok::Pending);
        }
        if noise && rng.chance(1, 10) {
            toks.push(Tok::Chunk(0));
        }
        let n = if i + 1 == parts { rest } else { rng.below(rest + 1) };
        toks.push(Tok::Chunk(n));
        rest -= n;
    }
    toks
}

fn body_for(ex: &str, n: usize, rng: &mut Rng) -> String {
    match ex {
        "json" | "jb" if n >= 2 => format!("j:{}", n),
        "form" | "ue" if n >= 2 => format!("f:{}", n),
        "json" | "form" | "jb" | "ue" => format!("x:{}", hexs(&vec![b'z'; n])),
        "string" => {
            if n > 0 && rng.chance(1, 12) {
                // invalid UTF-8
                let mut v = letters(n);
                v[n / 2] = 0xff;
                if n <= 64 { format!("x:{}", hexs(&v)) } else { format!("r:255:{}", n) }
            } else if n <= 32 {
                format!("x:{}", hexs(&letters(n)))
            } else {
                format!("r:{}:{}", 97 + rng.below(26), n)
            }
        }
        _ => {
            if n <= 24 {
                format!("x:{}", hexs(&rng.bytes(n)))
            } else if rng.chance(1, 2) {
                format!("q:{}:{}", rng.below(1 << 30), n)
            } else {
                format!("r:{}:{}", rng.below(256), n)
            }
        }
    }
}

const WEB: &[&str] = &["bytes", "string", "json", "form", "jb", "ue"];
const ENCS: &[&str] = &["id", "gz", "df", "br", "zs"];

fn gen(ctx: &Ctx) -> Vec<String> {
    let mut rng = Rng::new(ctx.seed);
    let mut cases = Vec::new();
    let thorough = ctx.tier != Tier::Quick;

    // (A) exhaustive: every chunking of every body of ≤ 5 (6) bytes, limits 0..4, no declared length
    let maxlen = if thorough { 6 } else { 5 };
    for ex in ["bytes", "string", "json", "form", "jb", "ue", "tbl", "tbs"] {
        for lim in 0..=4usize {
            for n in 0..=maxlen.min(lim + 2) {
                let body = body_for(ex, n, &mut Rng::new(7));
                for parts in compositions(n) {
                    let toks: Vec<Tok> = parts.iter().map(|p| Tok::Chunk(*p)).collect();
                    cases.push(stream_case(ex, &lim.to_string(), "none", "id", &body, &toks));
                }
                // declared length variants on the whole-body and the 1-byte chunkings
                let whole = vec![Tok::Chunk(n)];
                let ones: Vec<Tok> = (0..n).map(|_| Tok::Chunk(1)).collect();
                for cl in [n.to_string(), "0".into(), lim.to_string(), (lim + 1).to_string(), "bad".into()] {
                    cases.push(stream_case(ex, &lim.to_string(), &cl, "id", &body, &whole));
                    cases.push(stream_case(ex, &lim.to_string(), &cl, "id", &body, &ones));
                }
                // empty chunks, Pending and an error at every position of the 1-byte chunking
                for pos in 0..=n {
                    for extra in [Tok::Chunk(0), Tok::Pending, Tok::Err] {
                        let mut t = ones.clone();
                        t.insert(pos, extra);
                        cases.push(stream_case(ex, &lim.to_string(), "none", "id", &body, &t));
                    }
                }
            }
        }
    }

    // (B) around the limit, all codings
    let lims: &[usize] = if thorough { &[1, 7, 64, 1000, 2048, 2049, 8192, 65536, 300000] } else { &[1, 7, 64, 1000, 2049, 8192, 65536] };
    for &lim in lims {
        for n in [lim - 1, lim, lim + 1, 4 * lim] {
            for ex in WEB {
                for enc in ENCS {
                    let body = body_for(ex, n, &mut rng);
                    let plain = body_of_spec(&body);
                    let w = compress(enc, &plain).len();
                    let mut variants: Vec<(String, Vec<Tok>)> = vec![
                        ("none".into(), vec![Tok::Chunk(w)]),
                        ("none".into(), random_cuts(&mut rng, w, 6, true)),
                        (w.to_string(), random_cuts(&mut rng, w, 4, false)),
                    ];
                    if w <= 300 {
                        variants.push(("none".into(), (0..w).map(|_| Tok::Chunk(1)).collect()));
                    }
                    let lie = *rng.pick(&[0usize, 1, lim, lim + 1, w + 1, w.saturating_sub(1), 4 * lim]);
                    variants.push((lie.to_string(), random_cuts(&mut rng, w, 3, false)));
                    if rng.chance(1, 3) {
                        variants.push(("bad".into(), vec![Tok::Chunk(w)]));
                    }
                    for (cl, toks) in variants {
                        cases.push(stream_case(ex, &lim.to_string(), &cl, enc, &body, &toks));
                    }
                }
            }
            for ex in ["tbl", "tbs"] {
                let body = body_for(ex, n, &mut rng);
                for cl in ["none".to_owned(), n.to_string(), "0".into(), (lim + 1).to_string(), "bad".into(), "1".into()] {
                    if ex == "tbl" && cl != "none" {
                        continue;
                    }
                    cases.push(stream_case(ex, &lim.to_string(), &cl, "id", &body, &random_cuts(&mut rng, n, 5, true)));
                }
            }
        }
    }

    // (C) the default limits (no config in app data), ±1
    for (ex, d) in [("bytes", 262_144usize), ("string", 262_144), ("json", 2_097_152), ("form", 16_384), ("jb", 2_097_152), ("ue", 32_768)] {
        for n in [d - 1, d, d + 1] {
            // the 2 MiB bodies are the most expensive cases of the run: quick tier keeps the two
            // that decide the boundary
            let big = d > 1_000_000 && !thorough;
            if big && n == d - 1 {
                continue;
            }
            let body = match ex {
                "json" | "jb" => format!("j:{}", n),
                "form" | "ue" => format!("f:{}", n),
                "string" => format!("r:98:{}", n),
                _ => format!("q:5:{}", n),
            };
            cases.push(stream_case(ex, "dflt", "none", "id", &body, &random_cuts(&mut rng, n, 9, false)));
            cases.push(stream_case(ex, "dflt", &n.to_string(), "id", &body, &[Tok::Chunk(n)]));
            if !big {
                let w = compress("gz", &body_of_spec(&body)).len();
                cases.push(stream_case(ex, "dflt", "none", "gz", &body, &random_cuts(&mut rng, w, 4, false)));
            }
        }
    }
    // HttpMessageBody::new's built-in check against the default is overridden by .limit()
    cases.push(stream_case("bytes", "300000", "299999", "id", "r:1:299999", &[Tok::Chunk(299999)]));
    cases.push(stream_case("bytes", "300000", "300001", "id", "r:1:10", &[Tok::Chunk(10)]));

    // (S) through a real App service with a real h1 payload (single chunk)
    for _ in 0..ctx.budget(400) {
        let ex = *rng.pick(&["bytes", "string", "json", "form"]);
        let lim = *rng.pick(&[0usize, 1, 5, 16, 100, 1024, 4096]);
        let n = match rng.below(5) {
            0 => lim.saturating_sub(1),
            1 => lim,
            2 => lim + 1,
            3 => 4 * lim,
            _ => rng.below(2 * lim + 3),
        };
        let enc = if rng.chance(1, 3) { *rng.pick(ENCS) } else { "id" };
        let body = body_for(ex, n, &mut rng);
        let w = compress(enc, &body_of_spec(&body)).len();
        let cl = match rng.below(6) {
            0 => rng.below(2 * lim + 2).to_string(),
            1 => (lim + 1).to_string(),
            2 => "bad".into(),
            _ => w.to_string(),
        };
        let lim_s = if rng.chance(1, 12) { "dflt".to_owned() } else { lim.to_string() };
        cases.push(format!("{} via=svc", stream_case(ex, &lim_s, &cl, enc, &body, &[Tok::Chunk(w)])));
    }

    // (D) decompression bombs: tiny wire image, huge decoded image, small limit (O6)
    for enc in ["gz", "df", "br", "zs"] {
        for (n, lim) in [(1usize << 20, 100usize), (200_000, 1000), (70_000, 65_536)] {
            let body = format!("r:0:{}", n);
            let w = compress(enc, &body_of_spec(&body)).len();
            for ex in WEB {
                if *ex != "bytes" && *ex != "string" {
                    continue;
                }
                cases.push(stream_case(ex, &lim.to_string(), "none", enc, &body, &[Tok::Chunk(w)]));
                cases.push(stream_case(ex, &lim.to_string(), &w.to_string(), enc, &body, &random_cuts(&mut rng, w, 5, false)));
            }
        }
    }

    // (E) random
    for _ in 0..ctx.budget(2500) {
        let ex = *rng.pick(&["bytes", "string", "json", "form", "jb", "ue", "tbl", "tbs"]);
        let lim = *rng.pick(&[0usize, 1, 2, 3, 5, 8, 13, 40, 100, 257, 1024, 4096]);
        let n = match rng.below(6) {
            0 => lim.saturating_sub(1),
            1 => lim,
            2 => lim + 1,
            3 => 4 * lim,
            _ => rng.below(2 * lim + 3),
        };
        let web = WEB.contains(&ex);
        let enc = if web && rng.chance(1, 2) { *rng.pick(ENCS) } else { "id" };
        let body = body_for(ex, n, &mut rng);
        let w = if web { compress(enc, &body_of_spec(&body)).len() } else { n };
        let mut toks = random_cuts(&mut rng, w, 8, true);
        if enc == "id" && rng.chance(1, 8) {
            let pos = rng.below(toks.len() + 1);
            toks.insert(pos, Tok::Err);
        }
        let cl = match rng.below(7) {
            0 => w.to_string(),
            1 => rng.below(2 * lim + 2).to_string(),
            2 => "bad".into(),
            3 => (lim + 1).to_string(),
            _ => "none".into(),
        };
        cases.push(stream_case(ex, &lim.to_string(), &cl, enc, &body, &toks));
    }

    // (G) Field::bytes(limit)
    for i in 0..ctx.budget(600) {
        let lim = *rng.pick(&[0usize, 1, 2, 5, 16, 100, 1000, 5000, 70000]);
        let n = match rng.below(6) {
            0 => lim.saturating_sub(1),
            1 => lim,
            2 => lim + 1,
            3 => 4 * lim,
            _ => rng.below(2 * lim + 3),
        };
        let body = if n <= 24 { format!("x:{}", hexs(&letters(n))) } else { format!("r:{}:{}", 97 + rng.below(26), n) };
        let w = fb_wire(&body_of_spec(&body)).len();
        let mut toks = if i % 4 == 0 { vec![Tok::Chunk(w)] } else { random_cuts(&mut rng, w, 9, true) };
        if rng.chance(1, 8) {
            // an error before the end of the first field: cut the script inside the field
            let keep = rng.below(60 + n);
            let mut acc = 0usize;
            let mut t2 = Vec::new();
            for t in &toks {
                if let Tok::Chunk(k) = t {
                    if acc + k > keep {
                        t2.push(Tok::Chunk(keep - acc));
                        break;
                    }
                    acc += k;
                }
                t2.push(t.clone());
            }
            t2.push(Tok::Err);
            toks = t2;
        }
        cases.push(format!("ex=fb lim={} body={} cuts={}", lim, body, cuts_str(&toks)));
    }

    // (L) the public Limits API, call by call
    for _ in 0..ctx.budget(400) {
        let total = rng.below(60);
        let mem = rng.below(40);
        let field = if rng.chance(1, 2) { rng.below(30).to_string() } else { "none".to_owned() };
        let k = rng.range(1, 12);
        let ops: Vec<String> = (0..k).map(|_| format!("{}:{}", rng.below(25), rng.below(2))).collect();
        cases.push(format!("ex=lim total={} mem={} field={} ops={}", total, mem, field, ops.join(",")));
    }

    // (F0) multipart default budgets (no explicit config values): 2 MiB memory, 50 MiB total, ±1
    for n in [2_097_151usize, 2_097_152, 2_097_153] {
        cases.push(format!("ex=mp form=A total=dflt mem=dflt fields=b:{} cuts=65536,p,100000", n));
    }
    for n in [52_428_800usize, 52_428_801] {
        if !thorough && n == 52_428_800 {
            continue;
        }
        // an unknown field is discarded chunk by chunk but still charged to the total budget
        let overhead = 0;
        cases.push(format!("ex=mp form=B total=dflt mem=dflt fields=u:{} cuts=1000000", n - overhead));
    }

    // (F1) field-level limits on renamed fields (wire name ≠ Rust identifier): the renamed field at
    // limit-1 / limit / limit+1 / 4·limit, well within the form-wide budgets, alone, split over
    // several parts of the same wire name, and next to the control / unknown parts
    for (wname, lim) in [("payload[]", 16usize), ("single", 8), ("ctl", 16)] {
        for n in [lim - 1, lim, lim + 1, 4 * lim] {
            let mut variants: Vec<Vec<(String, usize)>> = vec![
                vec![(wname.to_owned(), n)],
                vec![("ctl".to_owned(), 3), (wname.to_owned(), n), ("u".to_owned(), 5)],
                vec![("payload".to_owned(), 40), (wname.to_owned(), n)],
            ];
            if wname != "single" {
                variants.push(vec![(wname.to_owned(), n / 2), ("u".to_owned(), 2), (wname.to_owned(), n - n / 2)]);
            }
            for fields in variants {
                let w = mp_body(&fields).len();
                let fs: Vec<String> = fields.iter().map(|(n, l)| format!("{}:{}", n, l)).collect();
                cases.push(format!("ex=mp form=D total=1000 mem=1000 fields={} cuts={}", fs.join(";"), cuts_str(&[Tok::Chunk(w)])));
                cases.push(format!("ex=mp form=D total=dflt mem=dflt fields={} cuts={}", fs.join(";"), cuts_str(&random_cuts(&mut rng, w, 6, true))));
            }
        }
    }
    let dnames = ["payload[]", "payload[]", "ctl", "single", "payload", "u", "one"];
    for i in 0..ctx.budget(400) {
        let k = rng.range(1, 6);
        let fields: Vec<(String, usize)> = (0..k)
            .map(|_| {
                let len = *rng.pick(&[0usize, 1, 7, 8, 9, 15, 16, 17, 30, 64]);
                ((*rng.pick(&dnames)).to_owned(), if rng.chance(2, 3) { len } else { rng.below(12) })
            })
            .collect();
        let sum: usize = fields.iter().map(|f| f.1).sum();
        let (total, mem) = match rng.below(6) {
            0 => (sum, sum + 100),
            1 => (sum + 100, sum.saturating_sub(1)),
            _ => (sum + 500, sum + 500),
        };
        let w = mp_body(&fields).len();
        let toks = if i % 3 == 0 { vec![Tok::Chunk(w)] } else { random_cuts(&mut rng, w, 7, true) };
        let fs: Vec<String> = fields.iter().map(|(n, l)| format!("{}:{}", n, l)).collect();
        cases.push(format!("ex=mp form=D total={} mem={} fields={} cuts={}", total, mem, fs.join(";"), cuts_str(&toks)));
    }

    // (F) multipart forms
    let names = ["a", "a", "b", "t", "s", "u", "b"];
    for i in 0..ctx.budget(1500) {
        let form = *rng.pick(&["A", "A", "B", "C"]);
        let k = rng.range(0, 6);
        let fields: Vec<(String, usize)> = (0..k)
            .map(|_| {
                let name = *rng.pick(&names);
                let name = if form != "A" && (name == "t" || name == "s") { "u" } else { name };
                let len = *rng.pick(&[0usize, 1, 3, 7, 8, 9, 12, 16, 17, 24, 25, 30]);
                (name.to_owned(), if rng.chance(1, 2) { len } else { rng.below(12) })
            })
            .collect();
        let sum: usize = fields.iter().map(|f| f.1).sum();
        let total = match rng.below(5) {
            0 => sum.saturating_sub(1),
            1 => sum,
            2 => sum + 1,
            _ => sum + 100,
        };
        let mem = match rng.below(5) {
            0 => rng.below(sum + 1),
            1 => sum,
            _ => sum + 100,
        };
        let w = mp_body(&fields).len();
        let toks = if i % 3 == 0 { vec![Tok::Chunk(w)] } else { random_cuts(&mut rng, w, 7, true) };
        let fs: Vec<String> = fields.iter().map(|(n, l)| format!("{}:{}", n, l)).collect();
        let (ts, ms) = if i % 50 == 49 { ("dflt".to_owned(), "dflt".to_owned()) } else { (total.to_string(), mem.to_string()) };
        cases.push(format!("ex=mp form={} total={} mem={} fields={} cuts={}", form, ts, ms, fs.join(";"), cuts_str(&toks)));
    }
    cases
}

pub fn prop() -> Prop {
    Prop { rule: RULE, parallel: true, gen: Box::new(gen), run: Box::new(run) }
}
