//! C13 — content coding is lossless, correctly labelled and correctly negotiated.
//!
//! Real code, public API only:
//!   neg  : `AcceptEncoding::parse` + `ranked_items` (via `ranked`) + `negotiate`
//!   resp : `App::new().wrap(Compress::default())` test service around a scripted handler body
//!          (`MessageBody` with chosen `size()`, chunk boundaries, Pending and error events);
//!          the body is polled by hand and decoded with flate2 / brotli / zstd directly
//!   req  : a scripted request payload compressed by the codec crates, sent with Content-Encoding,
//!          read by a `web::Bytes` extractor (→ `dev::Decompress`)
//!
//! Oracle (no model involved): decoded == what the handler wrote; the coding named in
//! Content-Encoding is permitted by the request's Accept-Encoding per RFC 7231 §5.3.4 (own
//! parser below); an encoded body is not `Sized`; pass-through responses are untouched, chunk for
//! chunk; the body stream ends and stays ended.
use std::{
    cell::RefCell,
    collections::VecDeque,
    io::Read,
    pin::Pin,
    rc::Rc,
    task::{Context, Poll},
    time::Duration,
};

use actix_web::{
    body::{BodySize, MessageBody},
    http::{header, StatusCode},
    middleware::Compress,
    test, web, App, HttpResponse,
};
use bytes::Bytes;

use super::Prop;
use crate::common::{block_on_system, kv, CaseResult, Ctx, Rng, Tier};

const RULE: &str = "cases = (neg) Accept-Encoding header texts from a grammar (codings incl. *, identity, unknown \
tokens, mixed case; q-values in all decimal forms, Q=, malformed items; several header lines) × supported sets, \
exhaustive for ≤2 items over a 5-coding × 4-q alphabet; (resp) Compress-wrapped service: Accept-Encoding × status \
{200,201,204,206,101,304,404,500} × handler Content-Encoding/Vary/Content-Type × body kind {Bytes, sized stream, \
stream, None} × bodies {0,1,1023,1024,1025,2047,2048,2049, random, 1 MiB; compressible and PRNG} × chunkings \
(all compositions of small bodies, threshold pairs, random) with Pending and error events; (req) bodies sent with \
each Content-Encoding in varied chunkings. non-trivial = a non-empty body was encoded or passed through by rule, a \
406 was produced, a request body was decoded, or a non-empty header was negotiated; distinct = distinct (case, output) hashes";

// ---------------------------------------------------------------------------------------------
// shared helpers

/// blanks inside a case-line value are written as `_`
fn unplus(s: &str) -> String {
    s.replace('_', " ")
}
fn plus(s: &str) -> String {
    s.replace(' ', "_")
}

fn pat_byte(seed: usize, i: usize) -> u8 {
    (97 + ((i / 13) * 7 + i % 5 + seed) % 23) as u8
}

fn gen_body(spec: &str, n: usize) -> Vec<u8> {
    let seed: usize = spec.get(1..).and_then(|s| s.parse().ok()).unwrap_or(0);
    if spec.starts_with('r') {
        Rng::new(seed as u64).bytes(n)
    } else {
        (0..n).map(|i| pat_byte(seed, i)).collect()
    }
}

fn adler(bs: &[u8]) -> u64 {
    let (mut a, mut b) = (1u64, 0u64);
    for &x in bs {
        a = (a + x as u64) % 65521;
        b = (b + a) % 65521;
    }
    b * 65536 + a
}

fn show_sum(bs: &[u8]) -> String {
    format!("n={} sum={}", bs.len(), adler(bs))
}

#[derive(Clone, Copy, Debug, PartialEq)]
enum Tok {
    Sz(usize),
    P,
    E,
}

fn parse_toks(s: &str) -> Vec<Tok> {
    s.split(',')
        .filter_map(|t| match t {
            "p" => Some(Tok::P),
            "e" => Some(Tok::E),
            t => t.parse().ok().map(Tok::Sz),
        })
        .collect()
}

fn decode(coding: &str, data: &[u8]) -> Result<Vec<u8>, String> {
    let mut out = Vec::new();
    match coding {
        "gzip" => {
            let mut d = flate2::bufread::GzDecoder::new(data);
            d.read_to_end(&mut out).map_err(|e| format!("gzip: {e}"))?;
            if !d.into_inner().is_empty() {
                return Err("gzip: trailing bytes after the member".into());
            }
        }
        "deflate" => {
            let mut d = flate2::bufread::ZlibDecoder::new(data);
            d.read_to_end(&mut out).map_err(|e| format!("zlib: {e}"))?;
            if !d.into_inner().is_empty() {
                return Err("zlib: trailing bytes after the stream".into());
            }
        }
        "br" => {
            let mut d = brotli::Decompressor::new(data, 4096);
            d.read_to_end(&mut out).map_err(|e| format!("br: {e}"))?;
        }
        "zstd" => {
            out = zstd::decode_all(data).map_err(|e| format!("zstd: {e}"))?;
        }
        other => return Err(format!("no decoder for '{other}'")),
    }
    Ok(out)
}

fn encode(coding: &str, data: &[u8]) -> Vec<u8> {
    use std::io::Write;
    match coding {
        "gzip" => {
            let mut e = flate2::write::GzEncoder::new(Vec::new(), flate2::Compression::default());
            e.write_all(data).unwrap();
            e.finish().unwrap()
        }
        "deflate" => {
            let mut e = flate2::write::ZlibEncoder::new(Vec::new(), flate2::Compression::default());
            e.write_all(data).unwrap();
            e.finish().unwrap()
        }
        "br" => {
            let mut out = Vec::new();
            {
                let mut e = brotli::CompressorWriter::new(&mut out, 4096, 4, 20);
                e.write_all(data).unwrap();
            }
            out
        }
        "zstd" => zstd::encode_all(data, 3).unwrap(),
        _ => data.to_vec(),
    }
}

// ---------------------------------------------------------------------------------------------
// the oracle's own reading of RFC 7231 §5.3.4 (written from the RFC text, not from the code)

#[derive(Debug)]
struct RfcAe {
    /// (lower-cased coding or "*", q in thousandths)
    items: Vec<(String, u32)>,
    /// some element did not match `codings [ weight ]`
    malformed: bool,
}

fn rfc_qvalue(s: &str) -> Option<u32> {
    // qvalue = ( "0" [ "." 0*3DIGIT ] ) / ( "1" [ "." 0*3("0") ] )
    let (ip, fp) = match s.split_once('.') {
        Some((a, b)) => (a, b),
        None => (s, ""),
    };
    if fp.len() > 3 || !fp.bytes().all(|b| b.is_ascii_digit()) {
        return None;
    }
    let mut th = 0u32;
    for (i, b) in fp.bytes().enumerate() {
        th += (b - b'0') as u32 * [100, 10, 1][i];
    }
    match ip {
        "0" => Some(th),
        "1" if th == 0 => Some(1000),
        _ => None,
    }
}

fn rfc_parse(lines: &[String]) -> RfcAe {
    let mut ae = RfcAe { items: vec![], malformed: false };
    for l in lines {
        for el in l.split(',') {
            let el = el.trim_matches(|c| c == ' ' || c == '\t');
            if el.is_empty() {
                continue;
            }
            let mut parts = el.split(';');
            let coding = parts.next().unwrap().trim().to_ascii_lowercase();
            let tok = |s: &str| !s.is_empty() && s.bytes().all(|b| b.is_ascii_alphanumeric() || b"!#$%&'*+-.^_`|~".contains(&b));
            if !tok(&coding) {
                ae.malformed = true;
                continue;
            }
            let mut q = 1000;
            let mut ok = true;
            let mut nparams = 0;
            for p in parts {
                nparams += 1;
                let p = p.trim();
                match p.strip_prefix("q=").or_else(|| p.strip_prefix("Q=")).and_then(rfc_qvalue) {
                    Some(v) => q = v,
                    None => ok = false,
                }
            }
            if !ok || nparams > 1 {
                ae.malformed = true;
                continue;
            }
            ae.items.push((coding, q));
        }
    }
    ae
}

/// may a response carry `coding` ("identity" = no coding)?  Explicit entry wins over `*`; q = 0
/// forbids; identity is acceptable unless excluded.  Contradictory duplicates: any q > 0 permits.
fn rfc_permits(ae: &RfcAe, coding: &str) -> bool {
    let explicit: Vec<u32> = ae.items.iter().filter(|i| i.0 == coding).map(|i| i.1).collect();
    if !explicit.is_empty() {
        return explicit.iter().any(|&q| q > 0);
    }
    let star: Vec<u32> = ae.items.iter().filter(|i| i.0 == "*").map(|i| i.1).collect();
    if !star.is_empty() {
        return star.iter().any(|&q| q > 0);
    }
    coding == "identity"
}

// ---------------------------------------------------------------------------------------------
// neg

fn show_pref(p: &header::Preference<header::Encoding>) -> String {
    plus(&p.to_string())
}

fn qnum(q: header::Quality) -> u32 {
    // Quality's Display is exact to three places
    let s = q.to_string();
    rfc_qvalue(&s).unwrap_or(9999)
}

fn sup_of(letters: &str) -> Vec<header::Encoding> {
    letters
        .chars()
        .filter_map(|c| match c {
            'i' => Some(header::Encoding::identity()),
            'b' => Some(header::Encoding::brotli()),
            'g' => Some(header::Encoding::gzip()),
            'd' => Some(header::Encoding::deflate()),
            'z' => Some(header::Encoding::zstd()),
            _ => None,
        })
        .collect()
}

fn run_neg(line: &str) -> CaseResult {
    use actix_web::http::header::Header;
    let hdr = kv(line, "ae").unwrap_or("");
    let lines: Vec<String> = hdr.split('|').map(unplus).collect();
    let sup = sup_of(kv(line, "sup").unwrap_or(""));
    let mut req = test::TestRequest::default();
    for l in &lines {
        req = req.append_header((header::ACCEPT_ENCODING, l.as_str()));
    }
    let req = req.to_http_request();
    let ae = match header::AcceptEncoding::parse(&req) {
        Ok(ae) => ae,
        Err(_) => return CaseResult::ok("parse-error".into()).tag("neg:parse-error"),
    };
    let items: Vec<String> = ae.0.iter().map(|qi| format!("{}:{}", show_pref(&qi.item), qnum(qi.quality))).collect();
    // ranked() drops the q-values; recover them by matching the stable order: ranked_items is a
    // permutation of the items, and ranked() lists the items of that permutation
    let ranked = ae.ranked();
    let mut pool: Vec<(String, u32, bool)> = ae.0.iter().map(|qi| (show_pref(&qi.item), qnum(qi.quality), false)).collect();
    let mut ranked_s = Vec::new();
    let mut last_q = 1001u32;
    let mut sorted = true;
    for p in &ranked {
        let name = show_pref(p);
        // the first unused entry with this name whose q is the largest still ≤ last_q
        let mut best: Option<usize> = None;
        for (i, e) in pool.iter().enumerate() {
            if !e.2 && e.0 == name && best.map(|b| pool[b].1 < e.1).unwrap_or(true) {
                best = Some(i);
            }
        }
        match best {
            Some(i) => {
                pool[i].2 = true;
                if pool[i].1 > last_q {
                    sorted = false;
                }
                last_q = pool[i].1;
                ranked_s.push(format!("{}:{}", name, pool[i].1));
            }
            None => ranked_s.push(format!("{}:?", name)),
        }
    }
    let chosen = ae.negotiate(sup.iter());
    let chosen_s = chosen.as_ref().map(|e| plus(&e.to_string())).unwrap_or_else(|| "none".into());
    let mut r = CaseResult::ok(format!("items={} ranked={} neg={}", items.join(";"), ranked_s.join(";"), chosen_s));
    r.nontrivial = !ae.0.is_empty();
    r.tags.push(format!("neg:{}", if chosen.is_none() { "none" } else if chosen_s == "identity" { "identity" } else { "coding" }));
    // oracle
    let rfc = rfc_parse(&lines);
    if !sorted || ranked.len() != ae.0.len() {
        r = r.fail("ranked-not-sorted", format!("ranked() = {:?}", ranked_s));
    }
    if let Some(enc) = &chosen {
        let name = enc.to_string().to_ascii_lowercase();
        if !rfc.malformed && !rfc_permits(&rfc, &name) {
            r = r.fail(
                if name == "identity" { "negotiate-identity-forbidden" } else { "negotiate-coding-forbidden" },
                format!("Accept-Encoding {:?} does not permit '{}' but negotiate chose it", lines, name),
            );
        }
        let id_sup = sup.contains(&header::Encoding::identity());
        if !sup.contains(enc) && (id_sup || name != "identity") {
            r = r.fail("negotiate-unsupported", format!("chose '{}' which is not in the supported set", name));
        }
        // best: no supported coding explicitly listed with a strictly larger q than every entry of the chosen one
        if !rfc.malformed {
            let qc = rfc.items.iter().filter(|i| i.0 == name).map(|i| i.1).max();
            for s in &sup {
                let sn = s.to_string();
                if let Some(qs) = rfc.items.iter().filter(|i| i.0 == sn).map(|i| i.1).max() {
                    if qs == 0 {
                        continue;
                    }
                    match qc {
                        // tolerance of one thousandth for the f32 q-value parse (observation O7)
                        Some(qc) if qs > qc + 1 => {
                            r = r.fail("negotiate-not-best", format!("chose '{}' (q={}) although supported '{}' has q={}", name, qc, sn, qs));
                        }
                        None => {
                            r = r.fail("negotiate-not-best", format!("fell back to '{}' although supported '{}' is listed with q={}", name, sn, qs));
                        }
                        _ => {}
                    }
                }
            }
        }
    } else if !sup.is_empty() && !rfc.malformed {
        // 406 must be justified: identity excluded and no supported coding explicitly acceptable
        if rfc_permits(&rfc, "identity") && !rfc.items.is_empty() {
            r = r.fail("negotiate-none-but-identity-ok", format!("Accept-Encoding {:?} permits identity but negotiate returned None", lines));
        }
    }
    r
}

// ---------------------------------------------------------------------------------------------
// resp

#[derive(Clone, Debug)]
enum Ev {
    Chunk(Bytes),
    Pending,
    Err,
}

struct ScriptBody {
    size: BodySize,
    evs: VecDeque<Ev>,
    /// polls after the script ran out (must stay `None`)
    log: Rc<RefCell<ScriptLog>>,
}

#[derive(Default, Debug)]
struct ScriptLog {
    polls: usize,
    polls_after_end: usize,
    /// did the most recent poll of the scripted body answer Pending
    last_pending: bool,
    /// 'c' per chunk handed over, 'B' (pushed by the collector) per blocking task observed
    trace: String,
}

#[derive(Debug)]
struct ScriptErr;
impl std::fmt::Display for ScriptErr {
    fn fmt(&self, f: &mut std::fmt::Formatter<'_>) -> std::fmt::Result {
        f.write_str("scripted body error")
    }
}
impl std::error::Error for ScriptErr {}

impl MessageBody for ScriptBody {
    type Error = ScriptErr;
    fn size(&self) -> BodySize {
        self.size
    }
    fn poll_next(mut self: Pin<&mut Self>, cx: &mut Context<'_>) -> Poll<Option<Result<Bytes, ScriptErr>>> {
        self.log.borrow_mut().polls += 1;
        self.log.borrow_mut().last_pending = false;
        match self.evs.pop_front() {
            None => {
                self.log.borrow_mut().polls_after_end += 1;
                Poll::Ready(None)
            }
            Some(Ev::Pending) => {
                self.log.borrow_mut().last_pending = true;
                cx.waker().wake_by_ref();
                Poll::Pending
            }
            Some(Ev::Err) => Poll::Ready(Some(Err(ScriptErr))),
            Some(Ev::Chunk(b)) => {
                self.log.borrow_mut().trace.push('c');
                Poll::Ready(Some(Ok(b)))
            }
        }
    }
}

/// a scripted body as a `Stream`, for `HttpResponseBuilder::streaming`
struct ScriptBodyStream(ScriptBody);

impl futures_core::Stream for ScriptBodyStream {
    type Item = Result<Bytes, ScriptErr>;
    fn poll_next(mut self: Pin<&mut Self>, cx: &mut Context<'_>) -> Poll<Option<Self::Item>> {
        MessageBody::poll_next(Pin::new(&mut self.0), cx)
    }
}

fn opt_val(line: &str, k: &str) -> Option<String> {
    match kv(line, k) {
        None | Some("-") => None,
        Some(v) => Some(unplus(v)),
    }
}

fn show_list(v: &[String]) -> String {
    if v.is_empty() {
        "-".into()
    } else {
        v.iter().map(|s| plus(s)).collect::<Vec<_>>().join(",")
    }
}

fn show_size(s: BodySize) -> String {
    match s {
        BodySize::None => "none".into(),
        BodySize::Stream => "stream".into(),
        BodySize::Sized(n) => n.to_string(),
    }
}

struct Collected {
    chunks: Vec<Bytes>,
    end: &'static str,
    polls_after_done_ok: bool,
    pendings: usize,
}

/// Occupies the runtime's single blocking-pool thread until the sender is dropped, so that a
/// `spawn_blocking` issued by the code under test is queued behind it and its `JoinHandle` is
/// *deterministically* Pending on the first poll (this is how the blocking path is observed).
fn new_gate() -> std::sync::mpsc::Sender<()> {
    let (tx, rx) = std::sync::mpsc::channel::<()>();
    drop(actix_rt::task::spawn_blocking(move || {
        let _ = rx.recv();
    }));
    tx
}

async fn collect_body<B: MessageBody>(body: B, log: Rc<RefCell<ScriptLog>>) -> Collected {
    let mut body = Box::pin(body);
    let mut chunks = Vec::new();
    let mut pendings = 0usize;
    let mut polls = 0usize;
    let mut gate = Some(new_gate());
    let mut awaiting_block = false;
    let fut = async {
        loop {
            let r = std::future::poll_fn(|cx| {
                polls += 1;
                if polls > 2_000_000 {
                    return Poll::Ready(Err(()));
                }
                let before = log.borrow().polls;
                match body.as_mut().poll_next(cx) {
                    Poll::Pending => {
                        pendings += 1;
                        let body_polled = log.borrow().polls > before;
                        let body_pending = body_polled && log.borrow().last_pending;
                        if body_polled {
                            awaiting_block = false;
                        }
                        if !body_pending && !awaiting_block {
                            // a blocking task is in flight: note it, let it run, re-arm the gate behind it
                            log.borrow_mut().trace.push('B');
                            awaiting_block = true;
                            drop(gate.take());
                            gate = Some(new_gate());
                        }
                        Poll::Pending
                    }
                    Poll::Ready(x) => {
                        awaiting_block = false;
                        Poll::Ready(Ok(x))
                    }
                }
            })
            .await;
            match r {
                Err(()) => return "hang",
                Ok(None) => return "done",
                Ok(Some(Err(_))) => return "err",
                Ok(Some(Ok(b))) => chunks.push(b),
            }
        }
    };
    let end = match tokio::time::timeout(Duration::from_secs(60), fut).await {
        Ok(e) => e,
        Err(_) => "hang",
    };
    // a finished stream stays finished
    let mut stable = true;
    if end == "done" {
        for _ in 0..2 {
            let again = tokio::time::timeout(Duration::from_secs(5), std::future::poll_fn(|cx| body.as_mut().poll_next(cx))).await;
            if !matches!(again, Ok(None)) {
                stable = false;
            }
        }
    }
    drop(gate.take());
    Collected { chunks, end, polls_after_done_ok: stable, pendings }
}

/// `trace` ('c' = chunk handed over by the scripted body, 'B' = blocking task seen) → one letter
/// per chunk: I = encoded in place, B = encoded on the blocking pool.  A `Bytes` body never goes
/// through the script: it is one chunk.
fn path_of(trace: &str, scripted: bool, nonempty: bool) -> String {
    if !scripted {
        return if !nonempty { "-".into() } else if trace.contains('B') { "B".into() } else { "I".into() };
    }
    let mut out = String::new();
    let t: Vec<char> = trace.chars().collect();
    for (i, ch) in t.iter().enumerate() {
        if *ch == 'c' {
            out.push(if t.get(i + 1) == Some(&'B') { 'B' } else { 'I' });
        }
    }
    if out.is_empty() {
        "-".into()
    } else {
        out
    }
}

fn run_resp(line: &str) -> CaseResult {
    let line = line.to_owned();
    // a System whose blocking pool has exactly one thread (see `new_gate`)
    actix_rt::System::with_tokio_rt(|| {
        tokio::runtime::Builder::new_current_thread().enable_all().max_blocking_threads(1).build().unwrap()
    })
    .block_on(async move { run_resp_async(&line, false).await })
}

fn run_wire(line: &str) -> CaseResult {
    let line = line.to_owned();
    block_on_system(async move { run_resp_async(&line, true).await })
}

/// what came back over the in-memory socket
struct Wire {
    status: u16,
    headers: Vec<(String, String)>,
    /// body bytes after removing the chunked framing (or the bytes up to the close)
    body: Vec<u8>,
    chunked: bool,
    /// chunked: terminating chunk seen; length: exactly that many bytes arrived; neither: closed
    complete: bool,
    /// bytes that followed a complete message
    trailing: usize,
}

fn parse_wire(buf: &[u8]) -> Option<Wire> {
    let hend = buf.windows(4).position(|w| w == b"\r\n\r\n")?;
    let head = std::str::from_utf8(&buf[..hend]).ok()?;
    let mut lines = head.split("\r\n");
    let status: u16 = lines.next()?.split(' ').nth(1)?.parse().ok()?;
    let mut headers = Vec::new();
    for l in lines {
        let (k, v) = l.split_once(':')?;
        headers.push((k.trim().to_ascii_lowercase(), v.trim().to_owned()));
    }
    let rest = &buf[hend + 4..];
    let chunked = headers.iter().any(|(k, v)| k == "transfer-encoding" && v.to_ascii_lowercase().contains("chunked"));
    let cl: Option<usize> = headers.iter().find(|(k, _)| k == "content-length").and_then(|(_, v)| v.parse().ok());
    let (body, complete, trailing) = if chunked {
        let mut out = Vec::new();
        let mut i = 0usize;
        let mut complete = false;
        loop {
            let Some(e) = rest[i..].windows(2).position(|w| w == b"\r\n") else { break };
            let Ok(sz) = usize::from_str_radix(std::str::from_utf8(&rest[i..i + e]).unwrap_or("!").trim(), 16) else { break };
            i += e + 2;
            if sz == 0 {
                complete = rest[i..].starts_with(b"\r\n");
                if complete {
                    i += 2;
                }
                break;
            }
            if i + sz + 2 > rest.len() {
                out.extend_from_slice(&rest[i..rest.len().min(i + sz)]);
                i = rest.len();
                break;
            }
            out.extend_from_slice(&rest[i..i + sz]);
            i += sz + 2;
        }
        (out, complete, rest.len() - i.min(rest.len()))
    } else if let Some(n) = cl {
        (rest[..n.min(rest.len())].to_vec(), rest.len() >= n, rest.len().saturating_sub(n))
    } else {
        (rest.to_vec(), true, 0)
    };
    Some(Wire { status, headers, body, chunked, complete, trailing })
}

async fn run_resp_async(line: &str, wire: bool) -> CaseResult {
    let ae: Option<Vec<String>> = match kv(line, "ae") {
        None | Some("-") => None,
        Some(h) => Some(h.split('|').map(unplus).collect()),
    };
    let st: u16 = kv(line, "st").and_then(|s| s.parse().ok()).unwrap_or(200);
    let hce = opt_val(line, "hce");
    let hvary = opt_val(line, "hvary");
    let ct = opt_val(line, "ct");
    let hcl = opt_val(line, "hcl");
    // nc=<len>: the handler calls `HttpResponseBuilder::no_chunking(len)` (Content-Length: len +
    // the NO_CHUNKING flag); kind=streaming: `HttpResponseBuilder::streaming(..)`, which does the
    // same on its own when a numeric Content-Length header is present
    let nc: Option<u64> = opt_val(line, "nc").and_then(|v| v.parse().ok());
    let kind = kv(line, "kind").unwrap_or("full").to_owned();
    let toks = parse_toks(kv(line, "ev").unwrap_or(""));
    let total: usize = toks.iter().map(|t| if let Tok::Sz(n) = t { *n } else { 0 }).sum();
    let bytes = Bytes::from(gen_body(kv(line, "body").unwrap_or("c0"), total));
    // what the handler will have written when the stream ends / fails
    let mut evs = VecDeque::new();
    let mut written: Vec<Bytes> = Vec::new();
    let mut has_err = false;
    {
        let mut off = 0usize;
        for t in &toks {
            match t {
                Tok::Sz(n) => {
                    let b = bytes.slice(off..off + n);
                    off += n;
                    if !has_err {
                        written.push(b.clone());
                    }
                    evs.push_back(Ev::Chunk(b));
                }
                Tok::P => evs.push_back(Ev::Pending),
                Tok::E => {
                    has_err = true;
                    evs.push_back(Ev::Err)
                }
            }
        }
    }
    let is_script = kind == "sized" || kind == "stream" || kind == "streaming";
    if !is_script {
        has_err = false;
        written = if kind == "none" || bytes.is_empty() { vec![] } else { vec![bytes.clone()] };
    }
    let handler_body: Vec<u8> = written.iter().flat_map(|b| b.iter().copied()).collect();
    let log = Rc::new(RefCell::new(ScriptLog::default()));

    let spec = Rc::new((st, hce.clone(), hvary.clone(), ct.clone(), kind.clone(), bytes.clone(), evs, log.clone(), hcl.clone(), nc));
    let handler = move || {
        let spec = spec.clone();
        async move {
            let (st, hce, hvary, ct, kind, bytes, evs, log, hcl, nc) = &*spec;
            let mut b = HttpResponse::build(StatusCode::from_u16(*st).unwrap());
            if let Some(v) = ct {
                b.insert_header((header::CONTENT_TYPE, v.as_str()));
            }
            if let Some(v) = hce {
                b.insert_header((header::CONTENT_ENCODING, v.as_str()));
            }
            if let Some(v) = hvary {
                b.insert_header((header::VARY, v.as_str()));
            }
            if let Some(v) = hcl {
                b.insert_header((header::CONTENT_LENGTH, v.as_str()));
            }
            if let Some(n) = nc {
                b.no_chunking(*n);
            }
            match kind.as_str() {
                "streaming" => b
                    .streaming(ScriptBodyStream(ScriptBody { size: BodySize::Stream, evs: evs.clone(), log: log.clone() }))
                    .map_into_boxed_body(),
                "none" => b.body(actix_web::body::None::new()).map_into_boxed_body(),
                "full" => b.body(bytes.clone()).map_into_boxed_body(),
                "sized" => b
                    .body(ScriptBody { size: BodySize::Sized(bytes.len() as u64), evs: evs.clone(), log: log.clone() })
                    .map_into_boxed_body(),
                _ => b.body(ScriptBody { size: BodySize::Stream, evs: evs.clone(), log: log.clone() }).map_into_boxed_body(),
            }
        }
    };
    if wire {
        return run_wire_async(line, handler, &ae, st, &hce, &hvary, &ct, &kind, &handler_body, total).await;
    }
    let app = test::init_service(App::new().wrap(Compress::default()).default_service(web::to(handler))).await;

    let mut req = test::TestRequest::get().uri("/x");
    if let Some(lines) = &ae {
        for l in lines {
            req = req.append_header((header::ACCEPT_ENCODING, l.as_str()));
        }
    }
    let res = test::call_service(&app, req.to_request()).await;
    let status = res.status().as_u16();
    let get_all = |n: header::HeaderName| -> Vec<String> {
        res.headers().get_all(n).map(|v| String::from_utf8_lossy(v.as_bytes()).into_owned()).collect()
    };
    let ce = get_all(header::CONTENT_ENCODING);
    let vary = get_all(header::VARY);
    let cl = get_all(header::CONTENT_LENGTH);
    let no_chunking = !res.response().head().chunked();
    let (_, resp) = res.into_parts();
    let (_, body) = resp.into_parts();
    let size = body.size();
    let col = collect_body(body, log.clone()).await;
    let raw: Vec<u8> = col.chunks.iter().flat_map(|b| b.iter().copied()).collect();

    // did the middleware encode?  (the handler's own Content-Encoding, if any, is kept as is)
    let encoded = hce.is_none() && status != 406 && !ce.is_empty();
    let mut fails: Vec<(String, String)> = Vec::new();
    let body_str = if encoded {
        if col.end == "done" {
            match decode(&ce[0], &raw) {
                Ok(d) => {
                    if d != handler_body {
                        fails.push(("decoded-body-differs".into(), format!("coding {} decoded {} bytes, handler wrote {}", ce[0], d.len(), handler_body.len())));
                    }
                    format!("chunks=* {}", show_sum(&d))
                }
                Err(e) => {
                    fails.push(("undecodable".into(), e));
                    "chunks=* n=! sum=!".into()
                }
            }
        } else {
            "chunks=* n=- sum=-".into()
        }
    } else {
        let lens: Vec<String> = col.chunks.iter().map(|c| c.len().to_string()).collect();
        format!("chunks={} {}", if lens.is_empty() { "-".into() } else { lens.join(",") }, show_sum(&raw))
    };
    let path = if encoded { path_of(&log.borrow().trace, is_script, !bytes.is_empty()) } else { "-".to_owned() };
    let output = format!(
        "st={} ce={} vary={} size={} nc={} {} path={} end={}",
        status,
        show_list(&ce),
        show_list(&vary),
        show_size(size),
        no_chunking as u8,
        body_str,
        path,
        col.end
    );

    // ---- oracle
    if col.end == "hang" {
        fails.push(("no-termination".into(), "body stream did not end".into()));
    }
    if !col.polls_after_done_ok {
        fails.push(("end-not-stable".into(), "poll_next after Ready(None) did not return Ready(None)".into()));
    }
    if has_err && col.end != "err" && status != 406 && size != BodySize::None && !(matches!(size, BodySize::Sized(0))) {
        fails.push(("error-swallowed".into(), format!("body error was not propagated (end={})", col.end)));
    }
    if !has_err && col.end == "err" {
        fails.push(("spurious-error".into(), "stream failed although the body did not".into()));
    }
    let unsized_stream = kind == "stream" || (kind == "streaming" && hcl.as_deref().and_then(|v| v.parse::<u64>().ok()).is_none());
    let must_pass = hce.is_some() || matches!(st, 101 | 204 | 206) || total == 0 && !unsized_stream || kind == "none";
    if status == 406 {
        // the request must really exclude the unencoded representation
        if let Some(lines) = &ae {
            let rfc = rfc_parse(lines);
            if !rfc.malformed && rfc_permits(&rfc, "identity") {
                fails.push(("406-but-identity-ok".into(), format!("Accept-Encoding {:?} permits identity", lines)));
            }
        } else {
            fails.push(("406-without-header".into(), "406 without Accept-Encoding".into()));
        }
        if !ce.is_empty() {
            fails.push(("406-encoded".into(), "406 answer carries Content-Encoding".into()));
        }
    } else {
        if status != st {
            fails.push(("status-changed".into(), format!("handler {} → {}", st, status)));
        }
        // labelled & negotiated
        let label = if encoded { ce[0].to_ascii_lowercase() } else { "identity".to_owned() };
        if encoded && ce.len() != 1 {
            fails.push(("multiple-content-encoding".into(), format!("{:?}", ce)));
        }
        // the server's policy leaves some representations unencoded (image/video types); there the
        // only available representation is the identity one (RFC 7231 §5.3.4 last paragraph)
        let ctl = ct.as_deref().unwrap_or("").to_ascii_lowercase();
        let policy_identity = (ctl.starts_with("image/") && !ctl.starts_with("image/svg")) || ctl.starts_with("video/");
        let free = hce.is_none() && !must_pass && !policy_identity;
        if encoded || free {
            match &ae {
                Some(lines) => {
                    let rfc = rfc_parse(lines);
                    if !rfc.malformed && !rfc_permits(&rfc, &label) {
                        fails.push((
                            if label == "identity" { "identity-sent-but-forbidden".into() } else { "coding-not-permitted".into() },
                            format!("Accept-Encoding {:?} does not permit '{}'", lines, label),
                        ));
                    }
                }
                None => {
                    if encoded {
                        fails.push(("encoded-without-accept-encoding".into(), format!("no Accept-Encoding, yet Content-Encoding {}", label)));
                    }
                }
            }
        }
        if encoded {
            // no stale length: the encoded body must not announce the handler's length
            if size != BodySize::Stream {
                fails.push(("stale-length".into(), format!("encoded body has size {:?}", size)));
            }
            // a Content-Length header left in the head is harmless only while chunked framing is
            // enabled (the h1 encoder then skips it); with NO_CHUNKING set it is what goes out
            if no_chunking {
                fails.push((
                    "stale-length".into(),
                    format!("encoded response has chunked framing disabled (handler's content-length {:?} would be sent for the encoded bytes)", cl),
                ));
            }
            if !vary.iter().any(|v| v.to_ascii_lowercase().contains("accept-encoding")) {
                fails.push(("vary-missing".into(), format!("vary = {:?}", vary)));
            }
            if let Some(v) = &hvary {
                if vary.first() != Some(v) {
                    fails.push(("vary-lost".into(), format!("handler's Vary {:?} not kept: {:?}", v, vary)));
                }
            }
            if must_pass {
                fails.push(("must-not-encode".into(), format!("status {} / handler CE {:?} / empty body was re-encoded", st, hce)));
            }
        } else {
            // pass-through: untouched head and chunks
            let want_ce: Vec<String> = hce.iter().cloned().collect();
            let want_vary: Vec<String> = hvary.iter().cloned().collect();
            if ce != want_ce || vary != want_vary {
                fails.push(("passthrough-head-changed".into(), format!("ce {:?}→{:?} vary {:?}→{:?}", want_ce, ce, want_vary, vary)));
            }
            if col.end == "done" || col.end == "err" {
                let got: Vec<&[u8]> = col.chunks.iter().map(|b| &b[..]).collect();
                let want: Vec<&[u8]> = written.iter().map(|b| &b[..]).collect();
                if raw != handler_body {
                    fails.push(("passthrough-body-changed".into(), format!("{} bytes out, {} bytes in", raw.len(), handler_body.len())));
                } else if got != want && is_script && total > 0 {
                    fails.push(("passthrough-chunking-changed".into(), format!("{} chunks out, {} in", got.len(), want.len())));
                }
            }
            let want_size = match kind.as_str() {
                "none" => BodySize::None,
                "stream" => BodySize::Stream,
                "streaming" => match hcl.as_deref().and_then(|v| v.parse::<u64>().ok()) {
                    Some(n) => BodySize::Sized(n),
                    None => BodySize::Stream,
                },
                _ => BodySize::Sized(total as u64),
            };
            if no_chunking != (nc.is_some() || (kind == "streaming" && hcl.as_deref().and_then(|v| v.parse::<u64>().ok()).is_some())) && status != 406 {
                fails.push(("passthrough-head-changed".into(), format!("NO_CHUNKING flag became {}", no_chunking)));
            }
            if size != want_size {
                fails.push(("passthrough-size-changed".into(), format!("{:?} → {:?}", want_size, size)));
            }
        }
    }

    let mut tags = Vec::new();
    tags.push(format!(
        "resp:{}",
        if status == 406 {
            "406".to_owned()
        } else if encoded {
            format!("enc:{}", ce[0])
        } else if hce.is_some() {
            "pass:ce".to_owned()
        } else if matches!(st, 101 | 204 | 206) {
            format!("pass:{}", st)
        } else if handler_body.is_empty() {
            "pass:empty".to_owned()
        } else {
            "pass:identity".to_owned()
        }
    ));
    tags.push(format!("kind:{}", kind));
    if encoded {
        let small = toks.iter().any(|t| matches!(t, Tok::Sz(n) if *n < 1024));
        let big = toks.iter().any(|t| matches!(t, Tok::Sz(n) if *n >= 1024));
        tags.push(format!("path:{}", match (small, big) { (true, true) => "both", (true, false) => "in-place", (false, true) => "blocking", _ => "none" }));
        if col.pendings > 0 {
            tags.push("saw-pending".into());
        }
    }
    if has_err {
        tags.push("body-error".into());
    }
    let nontrivial = status == 406 || !handler_body.is_empty();
    CaseResult { output, fail: fails.into_iter().next(), nontrivial, tags }
}

#[allow(clippy::too_many_arguments)]
async fn run_wire_async<H, Fut>(
    _line: &str,
    handler: H,
    ae: &Option<Vec<String>>,
    st: u16,
    hce: &Option<String>,
    hvary: &Option<String>,
    ct: &Option<String>,
    kind: &str,
    handler_body: &[u8],
    total: usize,
) -> CaseResult
where
    H: Fn() -> Fut + Clone + 'static,
    Fut: std::future::Future<Output = HttpResponse> + 'static,
{
    use actix_service::{Service as _, ServiceFactory as _};
    use tokio::io::{AsyncReadExt, AsyncWriteExt};
    let fac = actix_http::HttpService::build().h1(actix_service::map_config(
        App::new().wrap(Compress::default()).default_service(web::to(handler)),
        |_| actix_web::dev::AppConfig::default(),
    ));
    let svc = match fac.new_service(()).await {
        Ok(s) => s,
        Err(_) => return CaseResult::ok("service-init-failed".into()).fail("wire-init", "new_service failed".into()),
    };
    let (mut client, server) = tokio::io::duplex(1 << 16);
    let mut reqb = String::from("GET /x HTTP/1.1\r\nhost: t\r\nconnection: close\r\n");
    if let Some(lines) = ae {
        for l in lines {
            reqb.push_str(&format!("accept-encoding: {}\r\n", l));
        }
    }
    reqb.push_str("\r\n");
    let conn = svc.call((server, None));
    let io = async {
        let _ = client.write_all(reqb.as_bytes()).await;
        let mut buf = Vec::new();
        let _ = client.read_to_end(&mut buf).await;
        buf
    };
    let joined = tokio::time::timeout(Duration::from_secs(60), async {
        let (_, buf) = tokio::join!(conn, io);
        buf
    })
    .await;
    let buf = match joined {
        Ok(b) => b,
        Err(_) => return CaseResult::ok("hang".into()).fail("no-termination", "connection did not finish".into()),
    };
    let Some(w) = parse_wire(&buf) else {
        return CaseResult::ok("unparsable".into()).fail("wire-unparsable", format!("{} bytes", buf.len()));
    };
    let all = |n: &str| -> Vec<String> { w.headers.iter().filter(|(k, _)| k == n).map(|(_, v)| v.clone()).collect() };
    let ce = all("content-encoding");
    let vary = all("vary");
    let cl = all("content-length");
    let encoded = hce.is_none() && w.status != 406 && !ce.is_empty();
    let mut fails: Vec<(String, String)> = Vec::new();
    let body_str = if encoded {
        match decode(&ce[0], &w.body) {
            Ok(d) => {
                if d != handler_body {
                    fails.push(("decoded-body-differs".into(), format!("coding {} decoded {} bytes, handler wrote {}", ce[0], d.len(), handler_body.len())));
                }
                show_sum(&d)
            }
            Err(e) => {
                fails.push(("undecodable".into(), e));
                "n=! sum=!".into()
            }
        }
    } else {
        show_sum(&w.body)
    };
    let output = format!(
        "st={} ce={} vary={} te={} cl={} {} end={}",
        w.status,
        show_list(&ce),
        show_list(&vary),
        if w.chunked { "chunked" } else { "-" },
        show_list(&cl),
        body_str,
        if w.complete { "done" } else { "trunc" }
    );
    // ---- oracle: what the peer can see
    if cl.len() > 1 || (w.chunked && !cl.is_empty()) {
        fails.push(("stale-length".into(), format!("content-length {:?} with chunked={}", cl, w.chunked)));
    }
    if let Some(v) = cl.first() {
        if v.parse::<usize>().ok() != Some(w.body.len()) {
            fails.push(("stale-length".into(), format!("content-length {} but {} body bytes sent", v, w.body.len())));
        }
    }
    if !w.complete {
        fails.push(("wire-incomplete".into(), "message framing not completed before close".into()));
    }
    if w.trailing > 0 {
        fails.push(("wire-trailing-bytes".into(), format!("{} bytes after the message", w.trailing)));
    }
    if encoded {
        if let Some(lines) = ae {
            let rfc = rfc_parse(lines);
            if !rfc.malformed && !rfc_permits(&rfc, &ce[0].to_ascii_lowercase()) {
                fails.push(("coding-not-permitted".into(), format!("Accept-Encoding {:?} does not permit '{}'", lines, ce[0])));
            }
        } else {
            fails.push(("encoded-without-accept-encoding".into(), ce[0].clone()));
        }
        let unsized_stream = kind == "stream"
            || (kind == "streaming" && opt_val(_line, "hcl").and_then(|v| v.parse::<u64>().ok()).is_none());
        if matches!(st, 204 | 206) || total == 0 && !unsized_stream || kind == "none" {
            fails.push(("must-not-encode".into(), format!("status {} re-encoded", st)));
        }
        if let Some(v) = hvary {
            if vary.first() != Some(v) {
                fails.push(("vary-lost".into(), format!("{:?}", vary)));
            }
        }
    } else if w.status != 406 {
        if w.body != handler_body {
            fails.push(("passthrough-body-changed".into(), format!("{} bytes out, {} in", w.body.len(), handler_body.len())));
        }
        let want_ce: Vec<String> = hce.iter().cloned().collect();
        if ce != want_ce {
            fails.push(("passthrough-head-changed".into(), format!("ce {:?}→{:?}", want_ce, ce)));
        }
    }
    let _ = ct;
    let mut tags = vec![format!(
        "wire:{}",
        if w.status == 406 { "406".to_owned() } else if encoded { format!("enc:{}", ce[0]) } else { "pass".to_owned() }
    )];
    tags.push(format!("wire-framing:{}", if w.chunked { "chunked" } else if !cl.is_empty() { "length" } else { "close" }));
    CaseResult { output, fail: fails.into_iter().next(), nontrivial: w.status == 406 || !handler_body.is_empty(), tags }
}

// ---------------------------------------------------------------------------------------------
// req

struct ScriptStream {
    evs: VecDeque<Ev>,
}

impl futures_core::Stream for ScriptStream {
    type Item = Result<Bytes, actix_web::error::PayloadError>;
    fn poll_next(mut self: Pin<&mut Self>, cx: &mut Context<'_>) -> Poll<Option<Self::Item>> {
        match self.evs.pop_front() {
            None => Poll::Ready(None),
            Some(Ev::Pending) => {
                cx.waker().wake_by_ref();
                Poll::Pending
            }
            Some(Ev::Err) => Poll::Ready(Some(Err(actix_web::error::PayloadError::Incomplete(None)))),
            Some(Ev::Chunk(b)) => Poll::Ready(Some(Ok(b))),
        }
    }
}

fn known_coding(ce: &str) -> Option<&'static str> {
    match ce.trim().to_ascii_lowercase().as_str() {
        "gzip" => Some("gzip"),
        "br" => Some("br"),
        "deflate" => Some("deflate"),
        "zstd" => Some("zstd"),
        _ => None,
    }
}

fn run_req(line: &str) -> CaseResult {
    let line = line.to_owned();
    block_on_system(async move { run_req_async(&line).await })
}

async fn run_req_async(line: &str) -> CaseResult {
    use actix_web::dev::Service;
    let n: usize = kv(line, "n").and_then(|s| s.parse().ok()).unwrap_or(0);
    let orig = gen_body(kv(line, "body").unwrap_or("c0"), n);
    let ce = opt_val(line, "ce");
    let bad = kv(line, "bad") == Some("1");
    let coding = ce.as_deref().and_then(known_coding);
    let sent: Vec<u8> = match coding {
        Some(c) if !bad => encode(c, &orig),
        _ => orig.clone(),
    };
    let sent = Bytes::from(sent);
    let toks = parse_toks(kv(line, "ev").unwrap_or(""));
    let mut evs = VecDeque::new();
    let mut off = 0usize;
    let mut has_err = false;
    for t in &toks {
        match t {
            Tok::Sz(k) => {
                let end = (off + k).min(sent.len());
                evs.push_back(Ev::Chunk(sent.slice(off..end)));
                off = end;
            }
            Tok::P => evs.push_back(Ev::Pending),
            Tok::E => {
                has_err = true;
                evs.push_back(Ev::Err)
            }
        }
    }
    if off < sent.len() {
        evs.push_back(Ev::Chunk(sent.slice(off..)));
    }
    let app = test::init_service(
        App::new()
            .app_data(web::PayloadConfig::new(64 << 20))
            .default_service(web::to(|body: web::Bytes| async move { HttpResponse::Ok().body(body) })),
    )
    .await;
    let payload = actix_http::Payload::Stream { payload: Box::pin(ScriptStream { evs }) as actix_http::BoxedPayloadStream };
    let mut req = actix_http::Request::with_payload(payload);
    req.head_mut().method = actix_web::http::Method::POST;
    if let Some(v) = &ce {
        req.head_mut().headers_mut().insert(header::CONTENT_ENCODING, header::HeaderValue::from_str(v).unwrap());
    }
    let res = match tokio::time::timeout(Duration::from_secs(60), app.call(req)).await {
        Err(_) => {
            return CaseResult::ok("hang".into()).fail("request-hang", "extractor never completed".into());
        }
        Ok(Err(e)) => {
            return CaseResult::ok(format!("svc-error {}", e.as_response_error().status_code().as_u16()));
        }
        Ok(Ok(r)) => r,
    };
    let status = res.status().as_u16();
    let got = if status == 200 { test::read_body(res).await.to_vec() } else { vec![] };
    let output = if status == 200 { format!("st=200 {}", show_sum(&got)) } else { format!("st={}", status) };
    let mut r = CaseResult::ok(output);
    r.nontrivial = coding.is_some() && !bad && !has_err && n > 0;
    r.tags.push(format!(
        "req:{}",
        if bad { "corrupt".to_owned() } else { coding.map(|c| c.to_owned()).unwrap_or_else(|| "raw".into()) }
    ));
    if coding.is_some() && !bad {
        let big = toks.iter().any(|t| matches!(t, Tok::Sz(k) if *k >= 2049)) || (toks.is_empty() && sent.len() >= 2049);
        r.tags.push(format!("reqpath:{}", if big { "blocking" } else { "in-place" }));
    }
    // oracle
    if has_err {
        if status == 200 {
            r = r.fail("request-error-swallowed", "payload error, yet the handler got a complete body".into());
        }
    } else if bad && coding.is_some() {
        if status == 200 && got != orig {
            // a corrupt stream must not be delivered as a successful, different body
            r = r.fail("corrupt-accepted", format!("undecodable {} payload delivered as {} bytes", coding.unwrap(), got.len()));
        }
    } else if status != 200 {
        r = r.fail("request-rejected", format!("intact payload (ce={:?}) answered with {}", ce, status));
    } else if got != orig {
        r = r.fail(
            "request-body-differs",
            format!("ce={:?}: handler got {} bytes (sum {}), original {} bytes (sum {})", ce, got.len(), adler(&got), orig.len(), adler(&orig)),
        );
    }
    r
}

// ---------------------------------------------------------------------------------------------
// generator

const CODINGS: &[&str] = &["gzip", "br", "deflate", "zstd", "identity", "*", "compress", "x-gzip", "GZIP", "Br", "Identity", "foo"];
const QS: &[&str] = &[
    "", "", "", ";q=0", ";q=1", ";q=0.5", ";_q=0.8", ";q=0.001", ";Q=0.9", ";q=1.0", ";q=0.0", ";q=0.000", ";q=0.25", ";q=0.251",
    ";q=0.3", ";q=0.30", ";q=0.300", ";q=.5", ";q=1.", ";q=0.", ";q=1.000", "_;_q=0.7", ";q=0.999", ";q=0.502", ";q=0.01",
];
const BAD_QS: &[&str] = &[";q=2", ";q=1.5", ";q=0.1234", ";q=", ";x=1", ";q=abc", ";q", ";", ";q=0.5;x=1", ";q=1.001"];

fn gen_ae(rng: &mut Rng) -> String {
    if rng.chance(1, 30) {
        return String::new();
    }
    let n = if rng.chance(1, 10) { rng.range(4, 7) } else { rng.range(1, 3) };
    let mut s = String::new();
    for i in 0..n {
        if i > 0 {
            s.push_str(*rng.pick(&[",", ",_", "_,_", ",,", "|", "|"]));
        }
        s.push_str(*rng.pick(CODINGS));
        if rng.chance(1, 12) {
            s.push_str(*rng.pick(BAD_QS));
        } else if rng.chance(1, 6) {
            s.push_str(&format!(";q=0.{:03}", rng.below(1000)));
        } else {
            s.push_str(*rng.pick(QS));
        }
    }
    s
}

const SMALL_C: &[&str] = &["gzip", "br", "identity", "*", "foo"];
const SMALL_Q: &[&str] = &["", ";q=0", ";q=0.5", ";q=1"];

fn small_items() -> Vec<String> {
    let mut v = Vec::new();
    for c in SMALL_C {
        for q in SMALL_Q {
            v.push(format!("{c}{q}"));
        }
    }
    v
}

const SIZES: &[usize] = &[0, 1, 1023, 1024, 1025, 2047, 2048, 2049];
const AE_FOR: &[&str] = &["gzip", "br", "deflate", "zstd", "identity", "-", "*", "gzip;q=0.5,_br;q=0.5", "*;q=0"];
const CTS: &[&str] = &[
    "-", "-", "text/plain", "text/html;_charset=utf-8", "image/png", "image/svg+xml", "IMAGE/JPEG", "video/mp4",
    "application/json", "garbage", "audio/mpeg", "image/", "Video/WebM",
];

fn compositions(n: usize) -> Vec<Vec<usize>> {
    if n == 0 {
        return vec![vec![]];
    }
    let mut out = Vec::new();
    for first in 1..=n {
        for mut rest in compositions(n - first) {
            let mut v = vec![first];
            v.append(&mut rest);
            out.push(v);
        }
    }
    out
}

fn join(v: &[usize]) -> String {
    v.iter().map(|n| n.to_string()).collect::<Vec<_>>().join(",")
}

fn gen(ctx: &Ctx) -> Vec<String> {
    let mut rng = Rng::new(ctx.seed);
    let mut cases = Vec::new();
    let thorough = ctx.tier != Tier::Quick;
    // ---- neg: exhaustive small headers
    let items = small_items();
    for a in &items {
        cases.push(format!("neg ae={a} sup=ibgdz"));
        for b in &items {
            cases.push(format!("neg ae={a},{b} sup=ibgdz"));
            if thorough {
                for c in &items {
                    cases.push(format!("neg ae={a},{b},{c} sup=ibgdz"));
                }
            }
        }
    }
    for _ in 0..ctx.budget(1500) {
        let sup = *rng.pick(&["ibgdz", "ibgdz", "i", "ig", "ib", "g", "bz", "", "igg", "idz"]);
        cases.push(format!("neg ae={} sup={}", gen_ae(&mut rng), sup));
    }
    // ---- resp: size × coding × kind matrix
    for ae in AE_FOR {
        for &n in SIZES {
            for kind in ["full", "stream", "sized"] {
                cases.push(format!("resp ae={ae} st=200 hce=- hvary=- ct=- kind={kind} body=c{n} ev={n} j={}", n % 3));
            }
        }
    }
    // incompressible
    for ae in ["gzip", "br", "deflate", "zstd"] {
        for &n in &[1usize, 1023, 1024, 2048, 70000] {
            cases.push(format!("resp ae={ae} st=200 hce=- hvary=- ct=- kind=stream body=r{n} ev={n} j=1"));
        }
    }
    // all chunkings of a small body, every coding
    for ae in ["gzip", "br", "deflate", "zstd", "identity"] {
        for comp in compositions(if thorough { 6 } else { 4 }) {
            cases.push(format!("resp ae={ae} st=200 hce=- hvary=- ct=- kind=stream body=c7 ev={} j=0", join(&comp)));
        }
    }
    // threshold neighbours in sequence, with Pending between
    for ae in ["gzip", "br", "deflate", "zstd"] {
        for a in [1023usize, 1024, 1025] {
            for b in [0usize, 1, 1023, 1024] {
                cases.push(format!("resp ae={ae} st=200 hce=- hvary=origin ct=text/plain kind=stream body=c{a} ev={a},p,{b},p,p,{a} j=2,0,1"));
                cases.push(format!("resp ae={ae} st=200 hce=- hvary=- ct=- kind=sized body=r{b} ev={b},{a},{b} j=0,3"));
            }
        }
    }
    // statuses and handler headers that must pass through
    for st in [200u16, 201, 204, 206, 101, 304, 404, 500] {
        for hce in ["-", "gzip", "identity", "x-custom"] {
            for kind in ["full", "stream", "none"] {
                cases.push(format!("resp ae=gzip,_br st={st} hce={hce} hvary=- ct=- kind={kind} body=c1 ev=300,1500 j=1"));
            }
        }
    }
    for ct in CTS {
        cases.push(format!("resp ae=br st=200 hce=- hvary=accept-language ct={ct} kind=full body=c2 ev=2000"));
    }
    // 1 MiB
    let big = 1usize << 20;
    for (ae, body, ev) in [
        ("gzip", "c9", format!("{big}")),
        ("br", "r9", format!("{big}")),
        ("zstd", "c8", vec!["16384"; 64].join(",")),
        ("deflate", "r8", vec!["65536"; 16].join(",")),
    ] {
        cases.push(format!("resp ae={ae} st=200 hce=- hvary=- ct=- kind=stream body={body} ev={ev} j=1,1"));
    }
    cases.push(format!("resp ae=gzip st=200 hce=- hvary=- ct=- kind=full body=c5 ev={big}"));
    if thorough {
        for ae in ["gzip", "br", "deflate", "zstd"] {
            for body in ["c3", "r3"] {
                cases.push(format!("resp ae={ae} st=200 hce=- hvary=- ct=- kind=full body={body} ev={big}"));
                cases.push(format!("resp ae={ae} st=200 hce=- hvary=- ct=- kind=stream body={body} ev={}", vec!["4099"; 255].join(",")));
            }
        }
    }
    // exhaustive small headers through the middleware (1- and 2-item)
    for a in &items {
        cases.push(format!("resp ae={a} st=200 hce=- hvary=- ct=- kind=full body=c1 ev=100"));
        for b in &items {
            if rng.chance(1, if thorough { 1 } else { 3 }) {
                cases.push(format!("resp ae={a},{b} st=200 hce=- hvary=- ct=- kind=stream body=c1 ev=40,p,60 j=1"));
            }
        }
    }
    // ---- wire: the same app behind HttpService::h1 on an in-memory socket
    for ae in ["gzip", "br", "deflate", "zstd", "identity", "-", "gzip;q=0,_*;q=0.5", "identity;q=0"] {
        for (kind, ev) in [("full", "3000"), ("full", "0"), ("sized", "10,p,1024,7"), ("stream", "10,p,1024,p,p,7"), ("stream", "-"), ("none", "-")] {
            for hcl in ["-", "5"] {
                for st in [200u16, 206, 404] {
                    if st != 200 && hcl == "5" {
                        continue;
                    }
                    cases.push(format!("wire ae={ae} st={st} hce=- hvary=- ct=- hcl={hcl} kind={kind} body=c6 ev={ev}"));
                }
            }
        }
    }
    for ae in ["gzip", "br"] {
        cases.push(format!("wire ae={ae} st=200 hce=gzip hvary=origin ct=text/plain hcl=9999 kind=full body=r6 ev=70000"));
        cases.push(format!("wire ae={ae} st=200 hce=- hvary=origin ct=image/png hcl=1 kind=stream body=r6 ev=70000,p,5"));
        cases.push(format!("wire ae={ae} st=200 hce=- hvary=origin ct=text/plain hcl=70005 kind=stream body=r6 ev=70000,p,5"));
    }
    for _ in 0..ctx.budget(120) {
        let ae = if rng.chance(1, 10) { "-".to_owned() } else { gen_ae(&mut rng) };
        let st = *rng.pick::<u16>(&[200, 200, 200, 201, 206, 404, 500]);
        let hce = *rng.pick::<&str>(&["-", "-", "-", "-", "gzip", "x-custom"]);
        let hcl = *rng.pick::<&str>(&["-", "-", "0", "7", "100000"]);
        let kind = *rng.pick::<&str>(&["full", "sized", "stream", "stream", "none"]);
        let nchunks = if kind == "full" { 1 } else { rng.range(0, 5) };
        let mut ev: Vec<String> = Vec::new();
        for _ in 0..nchunks {
            while rng.chance(1, 4) {
                ev.push("p".into());
            }
            ev.push(match rng.below(4) {
                0 => rng.range(1, 3).to_string(), // no empty chunks on the wire: pass-through + empty chunk is C02's F2
                1 => rng.pick::<usize>(&[1023, 1024, 1025]).to_string(),
                2 => rng.range(1, 3000).to_string(),
                _ => rng.range(3000, 90000).to_string(),
            });
        }
        let body = format!("{}{}", if rng.chance(1, 3) { 'r' } else { 'c' }, rng.below(50));
        cases.push(format!(
            "wire ae={ae} st={st} hce={hce} hvary=- ct={} hcl={hcl} kind={kind} body={body} ev={}",
            rng.pick(CTS),
            if ev.is_empty() { "-".to_owned() } else { ev.join(",") }
        ));
    }
    // ---- handlers that declare the length of their un-encoded body: `no_chunking(len)` on the
    // builder, or a Content-Length header on a `streaming()` response (the builder then disables
    // chunking itself).  Encoded ⇒ the flag must be reset, else the stale length goes out.
    for ae in ["gzip", "br", "deflate", "zstd", "identity", "-", "identity;q=0"] {
        for (kind, ev, n) in [("stream", "9000", 9000usize), ("sized", "10,p,1024,7", 1041), ("full", "3000", 3000), ("stream", "1,p,1", 2), ("none", "-", 0)] {
            for st in [200u16, 206] {
                cases.push(format!("wire ae={ae} st={st} hce=- hvary=- ct=- hcl=- nc={n} kind={kind} body=c7 ev={ev}"));
                cases.push(format!("resp ae={ae} st={st} hce=- hvary=- ct=- nc={n} kind={kind} body=c7 ev={ev} j=1"));
            }
        }
        for (ev, n) in [("9000", "9000"), ("10,p,1024,7", "1041"), ("5,5", "-"), ("-", "0")] {
            cases.push(format!("wire ae={ae} st=200 hce=- hvary=- ct=- hcl={n} kind=streaming body=c7 ev={ev}"));
            cases.push(format!("wire ae={ae} st=200 hce=- hvary=origin ct=text/plain hcl={n} kind=streaming body=r7 ev={ev}"));
            cases.push(format!("resp ae={ae} st=200 hce=- hvary=- ct=- hcl={n} kind=streaming body=c7 ev={ev} j=0"));
        }
        cases.push(format!("wire ae={ae} st=200 hce=gzip hvary=- ct=- hcl=- nc=9000 kind=stream body=c7 ev=9000"));
        cases.push(format!("wire ae={ae} st=200 hce=- hvary=- ct=image/png hcl=9000 kind=streaming body=c7 ev=9000"));
    }
    for _ in 0..ctx.budget(80) {
        let ae = if rng.chance(1, 8) { "-".to_owned() } else { gen_ae(&mut rng) };
        let kind = *rng.pick::<&str>(&["stream", "sized", "full", "streaming", "streaming"]);
        let nchunks = if kind == "full" { 1 } else { rng.range(1, 4) };
        let mut ev: Vec<String> = Vec::new();
        let mut total = 0usize;
        for _ in 0..nchunks {
            while rng.chance(1, 4) {
                ev.push("p".into());
            }
            let n = match rng.below(3) {
                0 => rng.range(1, 20),
                1 => *rng.pick::<usize>(&[1023, 1024, 1025]),
                _ => rng.range(1, 20000),
            };
            total += n;
            ev.push(n.to_string());
        }
        let declared = if kind == "streaming" { format!("hcl={total}") } else { format!("hcl=- nc={total}") };
        let which = if rng.chance(1, 2) { "wire" } else { "resp" };
        cases.push(format!(
            "{which} ae={ae} st={} hce={} hvary=- ct={} {declared} kind={kind} body=c{} ev={} j=1",
            rng.pick::<u16>(&[200, 200, 201, 206, 404]),
            rng.pick::<&str>(&["-", "-", "-", "gzip"]),
            rng.pick::<&str>(&["-", "text/plain", "image/png", "application/json"]),
            rng.below(40),
            ev.join(",")
        ));
    }
    // ---- req: every coding × sizes × chunkings of the compressed stream
    for ce in ["gzip", "br", "deflate", "zstd", "identity", "-", "GZIP", "_Br_", "x-foo"] {
        for &n in &[0usize, 1, 100, 2048, 2049, 5000, 70000] {
            for body in ["c4", "r4"] {
                for ev in ["-", "1,1,1,p,5", "2048,2049,2050", "0,p,p,7,0"] {
                    if n > 5000 && ev != "-" && ev != "2048,2049,2050" {
                        continue;
                    }
                    cases.push(format!("req ce={ce} body={body} n={n} ev={ev} j={}", n % 3));
                }
            }
        }
    }
    for (k, ce) in ["gzip", "br", "deflate", "zstd"].into_iter().enumerate() {
        cases.push(format!("req ce={ce} bad=1 body=c4 n=300 ev=100 j=0"));
        cases.push(format!("req ce={ce} body=c4 n=3000 ev=10,e j=0"));
        // 1 MiB: two per coding in thorough, alternating in quick
        if thorough || k % 2 == 0 {
            cases.push(format!("req ce={ce} body=r5 n={} ev=- j=2", 1usize << 20));
        }
        if thorough || k % 2 == 1 {
            cases.push(format!("req ce={ce} body=c5 n={} ev={} j=1,0,2", 1usize << 20, vec!["4096"; 40].join(",")));
        }
    }
    for _ in 0..ctx.budget(300) {
        let ce = *rng.pick::<&str>(&["gzip", "br", "deflate", "zstd", "gzip", "br", "identity", "-", "Gzip", "x-foo"]);
        let n = match rng.below(6) {
            0 => rng.range(0, 10),
            1 | 2 => rng.range(10, 3000),
            3 | 4 => rng.range(3000, 40000),
            _ => rng.range(40000, 300000),
        };
        let mut ev: Vec<String> = Vec::new();
        for _ in 0..rng.below(7) {
            while rng.chance(1, 4) {
                ev.push("p".into());
            }
            ev.push(match rng.below(5) {
                0 => rng.range(0, 3).to_string(),
                1 => rng.pick::<usize>(&[2047, 2048, 2049, 2050]).to_string(),
                2 | 3 => rng.range(1, 600).to_string(),
                _ => rng.range(2049, 20000).to_string(),
            });
        }
        let body = format!("{}{}", if rng.chance(1, 2) { 'r' } else { 'c' }, rng.below(50));
        let j: Vec<String> = (0..rng.below(4)).map(|_| rng.below(3).to_string()).collect();
        cases.push(format!(
            "req ce={ce} body={body} n={n} ev={} j={}",
            if ev.is_empty() { "-".to_owned() } else { ev.join(",") },
            if j.is_empty() { "-".to_owned() } else { j.join(",") }
        ));
    }
    // ---- resp: random
    for _ in 0..ctx.budget(900) {
        let ae = if rng.chance(1, 10) { "-".to_owned() } else { gen_ae(&mut rng) };
        let st = *rng.pick(&[200u16, 200, 200, 200, 201, 204, 206, 101, 304, 404, 500]);
        let hce = *rng.pick(&["-", "-", "-", "-", "-", "gzip", "br", "identity", "x-custom"]);
        let hvary = *rng.pick(&["-", "-", "origin", "accept-encoding", "*"]);
        let ct = *rng.pick(CTS);
        let kind = *rng.pick(&["full", "sized", "stream", "stream", "stream", "none"]);
        let nchunks = if kind == "full" { 1 } else { rng.range(0, 8) };
        let mut ev: Vec<String> = Vec::new();
        for _ in 0..nchunks {
            while rng.chance(1, 4) {
                ev.push("p".into());
            }
            let n = match rng.below(10) {
                0 => 0,
                1 => rng.range(1, 16),
                2 | 3 => *rng.pick(&[1022usize, 1023, 1024, 1025, 2047, 2048, 2049]),
                4 | 5 | 6 => rng.range(1, 1500),
                7 | 8 => rng.range(1024, 9000),
                _ => rng.range(9000, 120000),
            };
            ev.push(n.to_string());
            if rng.chance(1, 40) {
                ev.push("e".into());
            }
        }
        while rng.chance(1, 5) {
            ev.push("p".into());
        }
        let body = format!("{}{}", if rng.chance(1, 3) { 'r' } else { 'c' }, rng.below(50));
        let j: Vec<String> = (0..rng.below(4)).map(|_| rng.below(3).to_string()).collect();
        cases.push(format!(
            "resp ae={ae} st={st} hce={hce} hvary={hvary} ct={ct} kind={kind} body={body} ev={} j={}",
            if ev.is_empty() { "-".to_owned() } else { ev.join(",") },
            if j.is_empty() { "-".to_owned() } else { j.join(",") }
        ));
    }
    cases
}

fn run(line: &str) -> CaseResult {
    match line.split_ascii_whitespace().next() {
        Some("neg") => run_neg(line),
        Some("resp") => run_resp(line),
        Some("req") => run_req(line),
        Some("wire") => run_wire(line),
        _ => CaseResult::ok("bad-case".into()),
    }
}

pub fn prop() -> Prop {
    Prop { rule: RULE, parallel: true, gen: Box::new(gen), run: Box::new(run) }
}
