//! C14 — WebSocket handshake and frame codec. Public API only:
//! `actix_http::ws::{Parser, Codec, Frame, Message, Item, handshake, hash_key, CloseCode, …}`.
//!
//! Case grammar (same as `lean/ActixModel/Drv/C14.lean`):
//!   stream role=<s|c> max=<n> al=<0..3> <seg>|<seg>|…     Codec::decode loop, one feed per segment
//!   parse  role=<s|c> max=<n> al=<0..3> <bytes>           one Parser::parse call
//!   enc    role=<s|c> max=<n> al=<0..3> k=<8 hex> <msg> … Codec::encode at `role`, decode at the peer
//!   hs     m=<METHOD> <name>=<bytes> …                    ws::handshake
//!   key    <bytes>                                        ws::hash_key
//!   closecodes                                            u16 → CloseCode → u16
//! <bytes> = `-` | chunk(+chunk)*, chunk = hex | R<len>.<seed> | A<len>.<seed>
//!
//! The oracle is a reference decoder written from RFC 6455 §5 and the property's wording (it
//! shares nothing with the Lean model), an independent SHA-1/Base64, and the metamorphic relation
//! "same bytes, one read ⇒ same frames".
use actix_http::{
    header::{HeaderName, HeaderValue},
    ws::{self, Codec, Frame, Item, Message, Parser, ProtocolError},
    Method, RequestHead,
};
use bytes::{Buf, Bytes, BytesMut};
use tokio_util::codec::{Decoder, Encoder};

use super::Prop;
use crate::common::{hex, hex0, kv, unhex, CaseResult, Ctx, Rng, Tier};

const RULE: &str = "cases: (stream) frame sequences from a generator-side encoder — all opcodes, payload lengths around \
0/125/126/127/65535/65536 and around max_size, explicit masks, both roles, buffers at all four alignments — fed to \
Codec::decode under every 2-cut, 1-byte feeds and random cuts, plus illegal sequences from a grammar (wrong masking, \
reserved opcodes, fragmented/over-long control frames, continuation without start, start inside a fragmented message, \
announced length > max_size with the payload withheld, 64-bit length overflow); (parse) all first bytes x selected second \
bytes x both roles, length fields at their boundaries, truncation at every header position, mask alignment x length 0..40; \
(enc) message sequences encoded by Codec at one role and decoded at the other, lengths at every encoding boundary; \
(hs) the product of method / Upgrade / Connection / Version / Key variants; (key) random key strings of every length \
0..130. A case is non-trivial if at least one frame was delivered, a handshake was accepted, or a key was hashed; \
distinct = distinct (case, output) hashes";

// ------------------------------------------------------------------------------------------
// byte notation
// ------------------------------------------------------------------------------------------

fn pat_bytes(len: usize, seed: usize) -> Vec<u8> {
    (0..len).map(|i| ((seed + 31 * i + 7 * (i / 251)) % 256) as u8).collect()
}

fn ascii_bytes(len: usize, seed: usize) -> Vec<u8> {
    (0..len).map(|i| (32 + (seed + 7 * i) % 95) as u8).collect()
}

fn parse_chunk(s: &str) -> Option<Vec<u8>> {
    if let Some(r) = s.strip_prefix('R').or_else(|| s.strip_prefix('A')) {
        let (l, sd) = r.split_once('.')?;
        let (l, sd) = (l.parse().ok()?, sd.parse().ok()?);
        Some(if s.starts_with('R') { pat_bytes(l, sd) } else { ascii_bytes(l, sd) })
    } else {
        unhex(s)
    }
}

fn parse_bytes(s: &str) -> Option<Vec<u8>> {
    if s == "-" || s.is_empty() {
        return Some(vec![]);
    }
    let mut out = Vec::new();
    for c in s.split('+') {
        out.extend(parse_chunk(c)?);
    }
    Some(out)
}

fn fnv32(bs: &[u8]) -> u32 {
    let mut h: u32 = 2166136261;
    for b in bs {
        h = (h ^ *b as u32).wrapping_mul(16777619);
    }
    h
}

fn show_bytes(bs: &[u8]) -> String {
    if bs.is_empty() {
        "-".into()
    } else if bs.len() <= 48 {
        hex0(bs)
    } else {
        format!("#{}.{}", bs.len(), fnv32(bs))
    }
}

/// a BytesMut holding `data` whose first byte sits at an address ≡ `al` (mod 4)
fn aligned_buf(al: usize, data: &[u8], extra: usize) -> BytesMut {
    let mut b = BytesMut::with_capacity(data.len() + extra + 8);
    let base = b.as_ptr() as usize;
    let pad = (al + 4 - base % 4) % 4;
    b.extend_from_slice(&[0u8; 3][..pad]);
    b.extend_from_slice(data);
    b.advance(pad);
    assert_eq!(b.as_ptr() as usize % 4, al % 4, "harness: could not place the buffer");
    b
}

// ------------------------------------------------------------------------------------------
// canonical display of the implementation's values
// ------------------------------------------------------------------------------------------

fn show_op(op: ws::OpCode) -> &'static str {
    match op {
        ws::OpCode::Continue => "cont",
        ws::OpCode::Text => "text",
        ws::OpCode::Binary => "bin",
        ws::OpCode::Close => "close",
        ws::OpCode::Ping => "ping",
        ws::OpCode::Pong => "pong",
        ws::OpCode::Bad => "bad",
    }
}

fn show_err(e: &ProtocolError) -> String {
    match e {
        ProtocolError::UnmaskedFrame => "unmasked".into(),
        ProtocolError::MaskedFrame => "masked".into(),
        ProtocolError::InvalidOpcode(b) => format!("opcode({b})"),
        ProtocolError::InvalidLength(n) => format!("length({n})"),
        ProtocolError::BadOpCode => "badopcode".into(),
        ProtocolError::Overflow => "overflow".into(),
        ProtocolError::ContinuationNotStarted => "cont-not-started".into(),
        ProtocolError::ContinuationStarted => "cont-started".into(),
        ProtocolError::ContinuationFragment(op) => format!("cont-fragment({})", show_op(*op)),
        ProtocolError::Io(_) => "io".into(),
    }
}

fn show_desc(d: &str) -> String {
    if d.contains('\u{FFFD}') {
        "~".into()
    } else {
        show_bytes(d.as_bytes())
    }
}

fn show_close(code: u16, desc: Option<&str>) -> String {
    match desc {
        None => format!("CLOSE:{code}"),
        Some(d) => format!("CLOSE:{code}:{}", show_desc(d)),
    }
}

fn show_frame(f: &Frame) -> String {
    match f {
        Frame::Text(b) => format!("T:{}", show_bytes(b)),
        Frame::Binary(b) => format!("B:{}", show_bytes(b)),
        Frame::Continuation(Item::FirstText(b)) => format!("CT:{}", show_bytes(b)),
        Frame::Continuation(Item::FirstBinary(b)) => format!("CB:{}", show_bytes(b)),
        Frame::Continuation(Item::Continue(b)) => format!("CC:{}", show_bytes(b)),
        Frame::Continuation(Item::Last(b)) => format!("CL:{}", show_bytes(b)),
        Frame::Ping(b) => format!("PI:{}", show_bytes(b)),
        Frame::Pong(b) => format!("PO:{}", show_bytes(b)),
        Frame::Close(None) => "CLOSE:-".into(),
        Frame::Close(Some(r)) => show_close(u16::from(r.code), r.description.as_deref()),
    }
}

fn frame_payload_len(f: &Frame) -> usize {
    match f {
        Frame::Text(b) | Frame::Binary(b) | Frame::Ping(b) | Frame::Pong(b) => b.len(),
        Frame::Continuation(Item::FirstText(b))
        | Frame::Continuation(Item::FirstBinary(b))
        | Frame::Continuation(Item::Continue(b))
        | Frame::Continuation(Item::Last(b)) => b.len(),
        Frame::Close(None) => 0,
        // the raw description is gone (lossy UTF-8): one char stands for at least one byte
        Frame::Close(Some(r)) => 2 + r.description.as_ref().map(|d| d.chars().count()).unwrap_or(0),
    }
}

fn show_frames(fs: &[String]) -> String {
    if fs.is_empty() {
        "-".into()
    } else {
        fs.join(" ")
    }
}

fn mk_codec(role: &str, max: usize) -> Codec {
    let c = Codec::new().max_size(max);
    if role == "c" {
        c.client_mode()
    } else {
        c
    }
}

/// read-side CONTINUATION flag, observed behaviourally on a clone: a non-final Continue frame is
/// accepted iff the flag is set
fn probe_cont(c: &Codec, role: &str) -> bool {
    let mut c = c.clone();
    let mut b = if role == "c" { BytesMut::from(&[0u8, 0][..]) } else { BytesMut::from(&[0u8, 0x80, 0, 0, 0, 0][..]) };
    matches!(c.decode(&mut b), Ok(Some(_)))
}

/// write-side W_CONTINUATION flag, observed on a clone
fn probe_wcont(c: &Codec) -> bool {
    let mut c = c.clone();
    let mut b = BytesMut::new();
    c.encode(Message::Continuation(Item::Continue(Bytes::new())), &mut b).is_ok()
}

// ------------------------------------------------------------------------------------------
// reference decoder (RFC 6455 §5.2–5.5 + the property's list), independent of the model
// ------------------------------------------------------------------------------------------

#[derive(Debug, Clone, PartialEq)]
enum RefOne {
    Incomplete,
    Violation(&'static str),
    Frame { fin: bool, op: u8, payload: Vec<u8>, consumed: usize, rsv: bool },
}

/// one frame at the head of `b`, as received by an endpoint of the given role
fn ref_frame(b: &[u8], server: bool, max: usize) -> RefOne {
    if b.len() < 2 {
        return RefOne::Incomplete;
    }
    let fin = b[0] >> 7 == 1;
    let rsv = (b[0] >> 4) & 7 != 0;
    let op = b[0] & 15;
    let masked = b[1] >> 7 == 1;
    // §5.1: client→server frames are masked, server→client frames are not
    if masked != server {
        return RefOne::Violation("wrong-masking");
    }
    // §5.2: 3–7 and 0xB–0xF are reserved
    if !matches!(op, 0 | 1 | 2 | 8 | 9 | 10) {
        return RefOne::Violation("reserved-opcode");
    }
    let l7 = (b[1] & 127) as usize;
    let (len, mut idx): (u128, usize) = match l7 {
        126 => {
            if b.len() < 4 {
                return RefOne::Incomplete;
            }
            (((b[2] as u128) << 8) | b[3] as u128, 4)
        }
        127 => {
            if b.len() < 10 {
                return RefOne::Incomplete;
            }
            (b[2..10].iter().fold(0u128, |a, x| (a << 8) | *x as u128), 10)
        }
        n => (n as u128, 2),
    };
    let mut key = [0u8; 4];
    if masked {
        if b.len() < idx + 4 {
            return RefOne::Incomplete;
        }
        key.copy_from_slice(&b[idx..idx + 4]);
        idx += 4;
    }
    // the property: "a frame announcing a larger payload is refused without first buffering it"
    if len > max as u128 {
        return RefOne::Violation("too-big");
    }
    let len = len as usize;
    if b.len() < idx + len {
        return RefOne::Incomplete;
    }
    let mut payload = b[idx..idx + len].to_vec();
    if masked {
        for (i, x) in payload.iter_mut().enumerate() {
            *x ^= key[i % 4];
        }
    }
    RefOne::Frame { fin, op, payload, consumed: idx + len, rsv }
}

#[derive(Debug, Clone, PartialEq)]
enum RefEnd {
    Incomplete(usize),
    Violation(&'static str),
}

fn ref_close(payload: &[u8]) -> String {
    if payload.len() < 2 {
        "CLOSE:-".into()
    } else {
        let code = ((payload[0] as u16) << 8) | payload[1] as u16;
        if payload.len() == 2 {
            show_close(code, None)
        } else {
            show_close(code, Some(&String::from_utf8_lossy(&payload[2..])))
        }
    }
}

/// all frames of a byte stream up to the first violation / the incomplete tail
fn ref_decode(bytes: &[u8], server: bool, max: usize, tags: &mut Vec<String>) -> (Vec<String>, RefEnd, bool) {
    let mut pos = 0;
    let mut frames = Vec::new();
    let mut in_frag = false;
    loop {
        match ref_frame(&bytes[pos..], server, max) {
            RefOne::Incomplete => return (frames, RefEnd::Incomplete(bytes.len() - pos), in_frag),
            RefOne::Violation(k) => return (frames, RefEnd::Violation(k), in_frag),
            RefOne::Frame { fin, op, payload, consumed, rsv } => {
                if rsv {
                    tags.push("obs:rsv-bits-ignored".into());
                }
                let p = show_bytes(&payload);
                let f = match op {
                    8 if payload.len() > 125 => {
                        // O3: the code morphs an over-long Close into a bare Close (any FIN)
                        tags.push("obs:O3-close>125".into());
                        "CLOSE:-".to_owned()
                    }
                    8..=10 if !fin => return (frames, RefEnd::Violation("ctl-fragmented"), in_frag),
                    9 | 10 if payload.len() > 125 => return (frames, RefEnd::Violation("ctl-long"), in_frag),
                    8 => ref_close(&payload),
                    9 => format!("PI:{p}"),
                    10 => format!("PO:{p}"),
                    0 => {
                        if !in_frag {
                            return (frames, RefEnd::Violation("cont-no-start"), in_frag);
                        }
                        if fin {
                            in_frag = false;
                            format!("CL:{p}")
                        } else {
                            format!("CC:{p}")
                        }
                    }
                    1 | 2 => {
                        let t = if op == 1 { "T" } else { "B" };
                        if fin {
                            if in_frag {
                                tags.push("obs:unfragmented-inside-fragmented".into());
                            }
                            format!("{t}:{p}")
                        } else {
                            if in_frag {
                                return (frames, RefEnd::Violation("start-inside"), in_frag);
                            }
                            in_frag = true;
                            format!("C{t}:{p}")
                        }
                    }
                    _ => unreachable!(),
                };
                frames.push(f);
                pos += consumed;
            }
        }
    }
}

// ------------------------------------------------------------------------------------------
// stream
// ------------------------------------------------------------------------------------------

struct StreamRun {
    per_seg: Vec<Vec<String>>,
    dead: Option<String>,
    residual: usize,
    cont: bool,
    max_payload: usize,
    /// delivered frames / dead flag after each feed
    progress: Vec<(usize, bool)>,
}

fn drive_stream(role: &str, max: usize, al: usize, segs: &[Vec<u8>]) -> StreamRun {
    let mut codec = mk_codec(role, max);
    let mut residual: Vec<u8> = Vec::new();
    let mut dead: Option<String> = None;
    let mut per_seg = Vec::new();
    let mut progress = Vec::new();
    let mut total = 0usize;
    let mut max_payload = 0usize;
    for seg in segs {
        let mut fs = Vec::new();
        if dead.is_none() {
            let mut data = std::mem::take(&mut residual);
            data.extend_from_slice(seg);
            let mut buf = aligned_buf(al, &data, 0);
            let mut guard = data.len() + 2;
            loop {
                match codec.decode(&mut buf) {
                    Ok(Some(f)) => {
                        max_payload = max_payload.max(frame_payload_len(&f));
                        fs.push(show_frame(&f));
                    }
                    Ok(None) => break,
                    Err(e) => {
                        dead = Some(show_err(&e));
                        break;
                    }
                }
                guard -= 1;
                if guard == 0 {
                    dead = Some("harness:no-progress".into());
                    break;
                }
            }
            residual = buf.to_vec();
        }
        total += fs.len();
        progress.push((total, dead.is_some()));
        per_seg.push(fs);
    }
    let cont = probe_cont(&codec, role);
    StreamRun { per_seg, dead, residual: residual.len(), cont, max_payload, progress }
}

fn show_end(dead: &Option<String>, residual: usize, cont: bool) -> String {
    match dead {
        Some(e) => format!("E:{e} c={}", cont as u8),
        None => format!("N{residual} c={}", cont as u8),
    }
}

fn len_class(n: usize) -> &'static str {
    match n {
        0 => "len:0",
        1..=124 => "len:1-124",
        125 => "len:125",
        126 => "len:126",
        127..=65534 => "len:127-65534",
        65535 => "len:65535",
        65536 => "len:65536",
        _ => "len:>65536",
    }
}

fn run_stream(line: &str) -> CaseResult {
    let role = kv(line, "role").unwrap_or("s");
    let max: usize = kv(line, "max").and_then(|v| v.parse().ok()).unwrap_or(65536);
    let al: usize = kv(line, "al").and_then(|v| v.parse().ok()).unwrap_or(0);
    let Some(seg_str) = line.split_ascii_whitespace().last() else { return CaseResult::ok("bad-case".into()) };
    let segs: Option<Vec<Vec<u8>>> = seg_str.split('|').map(parse_bytes).collect();
    let Some(segs) = segs else { return CaseResult::ok("bad-case".into()) };
    let server = role != "c";

    let r = drive_stream(role, max, al, &segs);
    let output = format!(
        "{} ; {}",
        r.per_seg.iter().map(|f| show_frames(f)).collect::<Vec<_>>().join(" | "),
        show_end(&r.dead, r.residual, r.cont)
    );
    let mut res = CaseResult { output, fail: None, nontrivial: r.progress.last().map(|p| p.0 > 0).unwrap_or(false), tags: vec![] };
    res.tags.push(format!("stream:{role}"));
    res.tags.push(format!("al:{al}"));
    res.tags.push(format!("segs:{}", match segs.len() { 1 => "1", 2 => "2", 3..=8 => "3-8", _ => ">8" }));
    if let Some(e) = &r.dead {
        res.tags.push(format!("err:{}", e.split('(').next().unwrap()));
    }

    // ---- oracle 1: after every feed, the implementation is where the reference decoder is on the
    //      bytes received so far (this is segmentation independence and early refusal at once)
    let all: Vec<u8> = segs.concat();
    let impl_frames: Vec<String> = r.per_seg.iter().flatten().cloned().collect();
    let mut upto = 0;
    let mut otags = Vec::new();
    for (k, seg) in segs.iter().enumerate() {
        upto += seg.len();
        let mut t = Vec::new();
        let (rf, rend, _) = ref_decode(&all[..upto], server, max, &mut t);
        if k + 1 == segs.len() {
            otags = t;
        }
        let (n, dead) = r.progress[k];
        let got = &impl_frames[..n];
        match rend {
            RefEnd::Violation(kind) => {
                if !dead {
                    res = res.fail(
                        &format!("not-rejected:{kind}"),
                        format!("after feed {k} ({upto} bytes) the stream contains a {kind} violation but the codec has not failed (delivered {})", n),
                    );
                } else if got != &rf[..] {
                    res = res.fail("frames-differ", format!("after feed {k}: delivered [{}] reference [{}]", got.join(" "), rf.join(" ")));
                }
                res.tags.push(format!("viol:{kind}"));
                break;
            }
            RefEnd::Incomplete(_) => {
                if dead {
                    res = res.fail(
                        "rejects-valid",
                        format!("after feed {k} ({upto} bytes) the codec failed with {:?} on a prefix of a valid stream", r.dead),
                    );
                    break;
                } else if got != &rf[..] {
                    res = res.fail("frames-differ", format!("after feed {k}: delivered [{}] reference [{}]", got.join(" "), rf.join(" ")));
                    break;
                }
            }
        }
    }
    res.tags.extend(otags);
    // ---- oracle 2: no delivered frame exceeds max_size
    if r.max_payload > max {
        res = res.fail("exceeds-max", format!("delivered a payload of {} bytes with max_size {}", r.max_payload, max));
    }
    // ---- oracle 3: same bytes in one read ⇒ same frames, same end
    if segs.len() > 1 {
        let one = drive_stream(role, max, al, &[all.clone()]);
        let a: Vec<String> = one.per_seg.into_iter().flatten().collect();
        if a != impl_frames || one.dead.is_some() != r.dead.is_some() || (one.dead.is_none() && (one.residual != r.residual || one.cont != r.cont)) {
            res = res.fail(
                "segmentation",
                format!("one read: [{}] {} — as segmented: [{}] {}", a.join(" "), show_end(&one.dead, one.residual, one.cont), impl_frames.join(" "), show_end(&r.dead, r.residual, r.cont)),
            );
        }
    }
    res
}

// ------------------------------------------------------------------------------------------
// parse
// ------------------------------------------------------------------------------------------

fn run_parse(line: &str) -> CaseResult {
    let role = kv(line, "role").unwrap_or("s");
    let max: usize = kv(line, "max").and_then(|v| v.parse().ok()).unwrap_or(65536);
    let al: usize = kv(line, "al").and_then(|v| v.parse().ok()).unwrap_or(0);
    let Some(src) = line.split_ascii_whitespace().last().and_then(parse_bytes) else { return CaseResult::ok("bad-case".into()) };
    let server = role != "c";
    let mut buf = aligned_buf(al, &src, 0);
    let r = Parser::parse(&mut buf, server, max);
    let rest = buf.len();
    let output = match &r {
        Ok(None) => format!("N r={rest}"),
        Err(e) => format!("E:{} r={rest}", show_err(e)),
        Ok(Some((fin, op, pl))) => format!(
            "F {} {} {} r={rest}",
            *fin as u8,
            show_op(*op),
            pl.as_ref().map(|b| show_bytes(b)).unwrap_or_else(|| "none".into())
        ),
    };
    let mut res = CaseResult { output, fail: None, nontrivial: matches!(r, Ok(Some(_))), tags: vec![format!("parse:{role}"), format!("al:{al}")] };
    // oracle: reference single frame
    match ref_frame(&src, server, max) {
        RefOne::Incomplete => {
            res.tags.push("ref:incomplete".into());
            match &r {
                Ok(None) => {
                    if rest != src.len() {
                        res = res.fail("consumed-on-incomplete", format!("Ok(None) but {} of {} bytes left", rest, src.len()));
                    }
                }
                Err(e) => res = res.fail("rejects-valid", format!("incomplete valid prefix rejected with {}", show_err(e))),
                Ok(Some(_)) => res = res.fail("frames-differ", "frame delivered from an incomplete buffer".into()),
            }
        }
        RefOne::Violation(kind) => {
            res.tags.push(format!("viol:{kind}"));
            if !r.is_err() {
                let o = res.output.clone();
                res = res.fail(&format!("not-rejected:{kind}"), format!("{kind} violation, parse returned {o}"));
            }
        }
        RefOne::Frame { fin, op, payload, consumed, .. } => {
            res.tags.push(len_class(payload.len()).into());
            let ctl_long = matches!(op, 9 | 10) && payload.len() > 125;
            let close_long = op == 8 && payload.len() > 125;
            match &r {
                Ok(Some((f, o, pl))) => {
                    let opn = match o {
                        ws::OpCode::Continue => 0,
                        ws::OpCode::Text => 1,
                        ws::OpCode::Binary => 2,
                        ws::OpCode::Close => 8,
                        ws::OpCode::Ping => 9,
                        ws::OpCode::Pong => 10,
                        ws::OpCode::Bad => 255,
                    };
                    let got: &[u8] = pl.as_ref().map(|b| &b[..]).unwrap_or(&[]);
                    if ctl_long {
                        res = res.fail("not-rejected:ctl-long", format!("{}-byte control frame delivered", payload.len()));
                    } else if close_long {
                        res.tags.push("obs:O3-close>125".into());
                        if !(*f && opn == 8 && pl.is_none()) {
                            res = res.fail("frames-differ", "over-long Close neither refused nor morphed to a bare Close".into());
                        }
                    } else if *f != fin || opn != op || got != &payload[..] || pl.is_some() != !payload.is_empty() {
                        let o = res.output.clone();
                        res = res.fail("frames-differ", format!("got {} want fin={} op={} payload={}", o, fin, op, show_bytes(&payload)));
                    }
                    if rest != src.len() - consumed {
                        res = res.fail("frames-differ", format!("left {} bytes, frame is {} of {}", rest, consumed, src.len()));
                    }
                    if got.len() > max {
                        res = res.fail("exceeds-max", format!("payload {} > max {}", got.len(), max));
                    }
                }
                Ok(None) => res = res.fail("frames-differ", "complete frame not delivered".into()),
                Err(e) => {
                    if !ctl_long {
                        res = res.fail("rejects-valid", format!("valid frame rejected with {}", show_err(e)));
                    } else {
                        res.tags.push("viol:ctl-long".into());
                    }
                }
            }
        }
    }
    res
}

// ------------------------------------------------------------------------------------------
// enc
// ------------------------------------------------------------------------------------------

#[derive(Clone, Debug)]
enum Msg {
    T(Vec<u8>),
    B(Vec<u8>),
    Pi(Vec<u8>),
    Po(Vec<u8>),
    Ct(Vec<u8>),
    Cb(Vec<u8>),
    Cc(Vec<u8>),
    Cl(Vec<u8>),
    Close(Option<(u16, Option<Vec<u8>>)>),
    Nop,
}

fn parse_msg(tok: &str) -> Option<Msg> {
    if tok == "NOP" {
        return Some(Msg::Nop);
    }
    let parts: Vec<&str> = tok.split(':').collect();
    Some(match parts.as_slice() {
        ["T", p] => Msg::T(parse_bytes(p)?),
        ["B", p] => Msg::B(parse_bytes(p)?),
        ["PI", p] => Msg::Pi(parse_bytes(p)?),
        ["PO", p] => Msg::Po(parse_bytes(p)?),
        ["CT", p] => Msg::Ct(parse_bytes(p)?),
        ["CB", p] => Msg::Cb(parse_bytes(p)?),
        ["CC", p] => Msg::Cc(parse_bytes(p)?),
        ["CL", p] => Msg::Cl(parse_bytes(p)?),
        ["CLOSE", "-"] => Msg::Close(None),
        ["CLOSE", c] => Msg::Close(Some((c.parse().ok()?, None))),
        ["CLOSE", c, d] => Msg::Close(Some((c.parse().ok()?, Some(parse_bytes(d)?)))),
        _ => return None,
    })
}

fn to_message(m: &Msg) -> Option<Message> {
    Some(match m {
        Msg::T(p) => Message::Text(String::from_utf8(p.clone()).ok()?.into()),
        Msg::B(p) => Message::Binary(Bytes::from(p.clone())),
        Msg::Pi(p) => Message::Ping(Bytes::from(p.clone())),
        Msg::Po(p) => Message::Pong(Bytes::from(p.clone())),
        Msg::Ct(p) => Message::Continuation(Item::FirstText(Bytes::from(p.clone()))),
        Msg::Cb(p) => Message::Continuation(Item::FirstBinary(Bytes::from(p.clone()))),
        Msg::Cc(p) => Message::Continuation(Item::Continue(Bytes::from(p.clone()))),
        Msg::Cl(p) => Message::Continuation(Item::Last(Bytes::from(p.clone()))),
        Msg::Close(None) => Message::Close(None),
        Msg::Close(Some((c, d))) => Message::Close(Some(ws::CloseReason {
            code: ws::CloseCode::from(*c),
            description: match d {
                None => None,
                Some(d) => Some(String::from_utf8(d.clone()).ok()?),
            },
        })),
        Msg::Nop => Message::Nop,
    })
}

/// what the peer must see, from the property's words alone (no model, no wire inspection):
/// every message arrives as the same message; control payloads > 125 and payloads > max are
/// protocol violations at the receiver; the sender refuses ill-bracketed continuations.
fn expect_roundtrip(msgs: &[Msg], max: usize, tags: &mut Vec<String>) -> (Vec<bool>, Vec<String>, bool) {
    let mut w = false;
    let mut enc_ok = Vec::new();
    let mut frames = Vec::new();
    let mut dead = false;
    for m in msgs {
        let (ok, f, plen, ctl): (bool, Option<String>, usize, bool) = match m {
            Msg::T(p) => (true, Some(format!("T:{}", show_bytes(p))), p.len(), false),
            Msg::B(p) => (true, Some(format!("B:{}", show_bytes(p))), p.len(), false),
            Msg::Pi(p) => (true, Some(format!("PI:{}", show_bytes(p))), p.len(), true),
            Msg::Po(p) => (true, Some(format!("PO:{}", show_bytes(p))), p.len(), true),
            Msg::Ct(p) | Msg::Cb(p) => {
                if w {
                    (false, None, 0, false)
                } else {
                    w = true;
                    let t = if matches!(m, Msg::Ct(_)) { "CT" } else { "CB" };
                    (true, Some(format!("{t}:{}", show_bytes(p))), p.len(), false)
                }
            }
            Msg::Cc(p) => {
                if w {
                    (true, Some(format!("CC:{}", show_bytes(p))), p.len(), false)
                } else {
                    (false, None, 0, false)
                }
            }
            Msg::Cl(p) => {
                if w {
                    w = false;
                    (true, Some(format!("CL:{}", show_bytes(p))), p.len(), false)
                } else {
                    (false, None, 0, false)
                }
            }
            Msg::Close(None) => (true, Some("CLOSE:-".into()), 0, false),
            Msg::Close(Some((c, d))) => {
                let dl = d.as_ref().map(|d| d.len()).unwrap_or(0);
                let f = if 2 + dl > 125 {
                    tags.push("obs:O3-close>125".into());
                    "CLOSE:-".to_owned()
                } else if dl == 0 {
                    show_close(*c, None)
                } else {
                    show_close(*c, Some(std::str::from_utf8(d.as_ref().unwrap()).unwrap_or("\u{FFFD}")))
                };
                (true, Some(f), 2 + dl, false)
            }
            Msg::Nop => (true, None, 0, false),
        };
        enc_ok.push(ok);
        if dead || !ok {
            continue;
        }
        if let Some(f) = f {
            tags.push(len_class(plen).into());
            if plen > max {
                tags.push("viol:too-big".into());
                dead = true;
            } else if ctl && plen > 125 {
                tags.push("viol:ctl-long".into());
                dead = true;
            } else {
                frames.push(f);
            }
        }
    }
    (enc_ok, frames, dead)
}

fn run_enc(line: &str) -> CaseResult {
    let role = kv(line, "role").unwrap_or("s");
    let max: usize = kv(line, "max").and_then(|v| v.parse().ok()).unwrap_or(65536);
    let al: usize = kv(line, "al").and_then(|v| v.parse().ok()).unwrap_or(0);
    let key: Vec<u8> = kv(line, "k").and_then(unhex).filter(|k| k.len() == 4).unwrap_or_else(|| vec![0; 4]);
    let toks: Vec<&str> = line
        .split_ascii_whitespace()
        .filter(|w| !(w.starts_with("role=") || w.starts_with("max=") || w.starts_with("al=") || w.starts_with("k=") || *w == "enc"))
        .collect();
    let msgs: Option<Vec<Msg>> = toks.iter().map(|t| parse_msg(t)).collect();
    let Some(msgs) = msgs else { return CaseResult::ok("bad-case".into()) };
    let rmsgs: Option<Vec<Message>> = msgs.iter().map(to_message).collect();
    let Some(rmsgs) = rmsgs else { return CaseResult::ok("bad-case".into()) };

    let total: usize = toks.iter().map(|t| t.len()).sum::<usize>() + msgs.len() * 16;
    let cap: usize = msgs
        .iter()
        .map(|m| match m {
            Msg::T(p) | Msg::B(p) | Msg::Pi(p) | Msg::Po(p) | Msg::Ct(p) | Msg::Cb(p) | Msg::Cc(p) | Msg::Cl(p) => p.len() + 14,
            Msg::Close(Some((_, Some(d)))) => d.len() + 16,
            _ => 16,
        })
        .sum::<usize>()
        + total;
    let mut enc = mk_codec(role, max);
    // enough capacity up front: no reallocation, so the payload addresses are known
    let mut dst = aligned_buf(al, &[], cap + 64);
    let base_ptr = dst.as_ptr();
    let mut encs: Vec<String> = Vec::new();
    let mut enc_ok: Vec<bool> = Vec::new();
    for m in rmsgs {
        let before = dst.len();
        match enc.encode(m, &mut dst) {
            Ok(()) => {
                // canonicalise the random masking key to the case's key `k`
                let mut piece = dst[before..].to_vec();
                if role == "c" && piece.len() >= 2 {
                    let l7 = piece[1] & 127;
                    let idx = match l7 {
                        126 => 4,
                        127 => 10,
                        _ => 2,
                    };
                    if piece.len() >= idx + 4 {
                        let mut actual = [0u8; 4];
                        actual.copy_from_slice(&piece[idx..idx + 4]);
                        piece[idx..idx + 4].copy_from_slice(&key);
                        for (i, b) in piece[idx + 4..].iter_mut().enumerate() {
                            *b ^= actual[i % 4] ^ key[i % 4];
                        }
                    }
                }
                encs.push(show_bytes(&piece));
                enc_ok.push(true);
            }
            Err(e) => {
                encs.push(format!("E:{}", show_err(&e)));
                enc_ok.push(false);
            }
        }
    }
    let moved = dst.as_ptr() != base_ptr;
    let wire = dst.to_vec();
    let peer_role = if role == "c" { "s" } else { "c" };
    let r = drive_stream(peer_role, max, al, &[wire.clone()]);
    let frames: Vec<String> = r.per_seg.iter().flatten().cloned().collect();
    let output = format!(
        "{} w={} => {} ; {}",
        if encs.is_empty() { "-".into() } else { encs.join(" ") },
        probe_wcont(&enc) as u8,
        show_frames(&frames),
        show_end(&r.dead, r.residual, r.cont)
    );
    let mut res = CaseResult { output, fail: None, nontrivial: !frames.is_empty(), tags: vec![format!("enc:{role}"), format!("al:{al}")] };
    if moved {
        res.tags.push("harness:dst-moved".into());
    }
    // ---- oracle: round trip
    let mut t = Vec::new();
    let (want_ok, want_frames, want_dead) = expect_roundtrip(&msgs, max, &mut t);
    res.tags.extend(t);
    if want_ok != enc_ok {
        res = res.fail("encode-bracketing", format!("encode results {:?}, expected {:?}", enc_ok, want_ok));
    } else if frames != want_frames {
        res = res.fail("roundtrip", format!("peer decoded [{}], sent [{}]", frames.join(" "), want_frames.join(" ")));
    } else if want_dead != r.dead.is_some() {
        if want_dead {
            res = res.fail("not-rejected:oversize-or-long-control", "peer accepted a frame it must refuse".into());
        } else {
            res = res.fail("roundtrip", format!("peer failed with {:?} on frames its own codec produced", r.dead));
        }
    } else if !want_dead && r.residual != 0 {
        res = res.fail("roundtrip", format!("{} bytes left undecoded at the peer", r.residual));
    }
    // ---- the wire itself is what RFC 6455 says (reference decoder reads the same frames)
    let mut t2 = Vec::new();
    let (rf, rend, _) = ref_decode(&wire, peer_role != "c", usize::MAX >> 1, &mut t2);
    let mut want_wire = Vec::new();
    let mut t3 = Vec::new();
    let (_, all_frames, _) = expect_roundtrip(&msgs, usize::MAX >> 1, &mut t3);
    want_wire.extend(all_frames);
    // (long Ping/Pong are violations for the reference as well: compare only up to there)
    if !matches!(rend, RefEnd::Incomplete(0)) && !t3.iter().any(|x| x == "viol:ctl-long") {
        res = res.fail("wire-format", format!("reference decoder stops on the encoder's output: {:?}", rend));
    } else if rf != want_wire {
        res = res.fail("wire-format", format!("reference decoder reads [{}] from the wire, sent [{}]", rf.join(" "), want_wire.join(" ")));
    }
    // RFC 6455 §5.2: "the minimal number of bytes MUST be used to encode the length"
    let mut pos = 0;
    while pos + 2 <= wire.len() {
        match ref_frame(&wire[pos..], peer_role != "c", usize::MAX >> 1) {
            RefOne::Frame { payload, consumed, .. } => {
                let l7 = wire[pos + 1] & 127;
                let minimal = match payload.len() {
                    0..=125 => l7 as usize == payload.len(),
                    126..=65535 => l7 == 126,
                    _ => l7 == 127,
                };
                if !minimal {
                    res = res.fail("wire-format", format!("a {}-byte payload was written with length code {}", payload.len(), l7));
                }
                pos += consumed;
            }
            _ => break,
        }
    }
    if r.max_payload > max {
        res = res.fail("exceeds-max", format!("delivered a payload of {} bytes with max_size {}", r.max_payload, max));
    }
    res
}

// ------------------------------------------------------------------------------------------
// handshake / key
// ------------------------------------------------------------------------------------------

/// SHA-1 (FIPS 180-4), written for the oracle
fn o_sha1(msg: &[u8]) -> [u8; 20] {
    let mut h: [u32; 5] = [0x67452301, 0xEFCDAB89, 0x98BADCFE, 0x10325476, 0xC3D2E1F0];
    let mut m = msg.to_vec();
    m.push(0x80);
    while m.len() % 64 != 56 {
        m.push(0);
    }
    m.extend_from_slice(&((msg.len() as u64) * 8).to_be_bytes());
    for blk in m.chunks(64) {
        let mut w = [0u32; 80];
        for i in 0..16 {
            w[i] = u32::from_be_bytes([blk[4 * i], blk[4 * i + 1], blk[4 * i + 2], blk[4 * i + 3]]);
        }
        for i in 16..80 {
            w[i] = (w[i - 3] ^ w[i - 8] ^ w[i - 14] ^ w[i - 16]).rotate_left(1);
        }
        let [mut a, mut b, mut c, mut d, mut e] = h;
        for (i, wi) in w.iter().enumerate() {
            let (f, k) = match i / 20 {
                0 => ((b & c) | (!b & d), 0x5A827999u32),
                1 => (b ^ c ^ d, 0x6ED9EBA1),
                2 => ((b & c) | (b & d) | (c & d), 0x8F1BBCDC),
                _ => (b ^ c ^ d, 0xCA62C1D6),
            };
            let t = a.rotate_left(5).wrapping_add(f).wrapping_add(e).wrapping_add(k).wrapping_add(*wi);
            e = d;
            d = c;
            c = b.rotate_left(30);
            b = a;
            a = t;
        }
        h[0] = h[0].wrapping_add(a);
        h[1] = h[1].wrapping_add(b);
        h[2] = h[2].wrapping_add(c);
        h[3] = h[3].wrapping_add(d);
        h[4] = h[4].wrapping_add(e);
    }
    let mut out = [0u8; 20];
    for i in 0..5 {
        out[4 * i..4 * i + 4].copy_from_slice(&h[i].to_be_bytes());
    }
    out
}

fn o_base64(bs: &[u8]) -> String {
    const A: &[u8; 64] = b"ABCDEFGHIJKLMNOPQRSTUVWXYZabcdefghijklmnopqrstuvwxyz0123456789+/";
    let mut s = String::new();
    for c in bs.chunks(3) {
        let n = (c[0] as u32) << 16 | (*c.get(1).unwrap_or(&0) as u32) << 8 | *c.get(2).unwrap_or(&0) as u32;
        s.push(A[(n >> 18) as usize & 63] as char);
        s.push(A[(n >> 12) as usize & 63] as char);
        s.push(if c.len() > 1 { A[(n >> 6) as usize & 63] as char } else { '=' });
        s.push(if c.len() > 2 { A[n as usize & 63] as char } else { '=' });
    }
    s
}

const GUID: &[u8] = b"258EAFA5-E914-47DA-95CA-C5AB0DC85B11";

fn o_accept(key: &[u8]) -> String {
    let mut m = key.to_vec();
    m.extend_from_slice(GUID);
    o_base64(&o_sha1(&m))
}

fn run_key(line: &str) -> CaseResult {
    let Some(k) = line.split_ascii_whitespace().nth(1).and_then(parse_bytes) else { return CaseResult::ok("bad-case".into()) };
    let got = ws::hash_key(&k);
    let output = String::from_utf8_lossy(&got).into_owned();
    let mut res = CaseResult { output: output.clone(), fail: None, nontrivial: true, tags: vec!["key".into(), format!("keylen%64:{}", (k.len() + 36) % 64)] };
    let want = o_accept(&k);
    if want != output {
        res = res.fail("accept-key", format!("hash_key = {output}, RFC 6455 §4.2.2 gives {want}"));
    }
    res
}

fn visible(v: &[u8]) -> bool {
    v.iter().all(|b| (32..127).contains(b) || *b == 9)
}

fn contains_ci(v: &[u8], pat: &str) -> bool {
    visible(v) && String::from_utf8_lossy(v).to_ascii_lowercase().contains(pat)
}

fn run_hs(line: &str) -> CaseResult {
    let m = kv(line, "m").unwrap_or("GET");
    let mut hdrs: Vec<(String, Vec<u8>)> = Vec::new();
    for w in line.split_ascii_whitespace() {
        if w == "hs" || w.starts_with("m=") {
            continue;
        }
        let Some((n, v)) = w.split_once('=') else { return CaseResult::ok("bad-case".into()) };
        let Some(v) = parse_bytes(v) else { return CaseResult::ok("bad-case".into()) };
        hdrs.push((n.to_owned(), v));
    }
    let mut head = RequestHead::default();
    let Ok(method) = Method::from_bytes(m.as_bytes()) else { return CaseResult::ok("bad-case".into()) };
    head.method = method;
    for (n, v) in &hdrs {
        let (Ok(n), Ok(v)) = (HeaderName::from_bytes(n.as_bytes()), HeaderValue::from_bytes(v)) else {
            return CaseResult::ok("bad-case".into());
        };
        head.headers.append(n, v);
    }
    let r = ws::handshake(&head);
    let (output, accept) = match r {
        Err(e) => (
            format!(
                "E:{}",
                match e {
                    ws::HandshakeError::GetMethodRequired => "method",
                    ws::HandshakeError::NoWebsocketUpgrade => "no-upgrade",
                    ws::HandshakeError::NoConnectionUpgrade => "no-connection",
                    ws::HandshakeError::NoVersionHeader => "no-version",
                    ws::HandshakeError::UnsupportedVersion => "bad-version",
                    ws::HandshakeError::BadWebsocketKey => "no-key",
                }
            ),
            None,
        ),
        Ok(mut b) => {
            let res = b.finish();
            let acc = res
                .headers()
                .get("sec-websocket-accept")
                .map(|v| String::from_utf8_lossy(v.as_bytes()).into_owned())
                .unwrap_or_else(|| "?".into());
            let up = res.headers().get("upgrade").map(|v| String::from_utf8_lossy(v.as_bytes()).into_owned()).unwrap_or_else(|| "?".into());
            (format!("OK {} up={} cu={} accept={}", res.status().as_u16(), up, res.head().upgrade() as u8, acc), Some(acc))
        }
    };
    let mut res = CaseResult { output, fail: None, nontrivial: accept.is_some(), tags: vec!["hs".into()] };
    // oracle: the property's "well-formed upgrade request", read as the code reads it (first value
    // of each header; see docs/C14.md, O4), and the RFC accept key
    let first = |name: &str| hdrs.iter().find(|(n, _)| n.eq_ignore_ascii_case(name)).map(|(_, v)| v.clone());
    let well_formed = m == "GET"
        && first("upgrade").map(|v| contains_ci(&v, "websocket")).unwrap_or(false)
        && first("connection").map(|v| contains_ci(&v, "upgrade")).unwrap_or(false)
        && first("sec-websocket-version").map(|v| v == b"13" || v == b"8" || v == b"7").unwrap_or(false)
        && first("sec-websocket-key").is_some();
    // RFC 6455 §4.2.1 read strictly (token lists, version 13, 16-byte base64 key)
    let token_in = |v: &[u8], t: &str| String::from_utf8_lossy(v).split(',').any(|x| x.trim().eq_ignore_ascii_case(t));
    let strict = m == "GET"
        && first("upgrade").map(|v| token_in(&v, "websocket")).unwrap_or(false)
        && first("connection").map(|v| token_in(&v, "upgrade")).unwrap_or(false)
        && first("sec-websocket-version").map(|v| v == b"13").unwrap_or(false)
        && first("sec-websocket-key").map(|v| v.len() == 24 && v.ends_with(b"==") && visible(&v)).unwrap_or(false);
    match (&accept, well_formed) {
        (Some(_), false) => res = res.fail("handshake-accepts-malformed", "accepted a request that is not a well-formed upgrade".into()),
        (None, true) => {
            let o = res.output.clone();
            res = res.fail("handshake-rejects-wellformed", format!("rejected ({o}) a well-formed upgrade request"))
        }
        _ => {}
    }
    if accept.is_some() && !strict {
        res.tags.push("obs:O4-lenient-accept".into());
    }
    if strict && accept.is_none() {
        res = res.fail("handshake-rejects-wellformed", "rejected an RFC-strict upgrade request".into());
    }
    if let Some(acc) = accept {
        let want = o_accept(&first("sec-websocket-key").unwrap_or_default());
        if acc != want {
            res = res.fail("accept-key", format!("sec-websocket-accept = {acc}, RFC 6455 §4.2.2 gives {want}"));
        }
        res.tags.push("hs:ok".into());
    } else {
        res.tags.push(format!("hs:{}", res.output));
    }
    res
}

fn run_closecodes() -> CaseResult {
    let mut res = CaseResult::ok("ok".into()).tag("closecodes");
    for n in 0..=u16::MAX {
        let c = ws::CloseCode::from(n);
        if u16::from(c) != n {
            res = res.fail("closecode-mapping", format!("u16 {n} → {:?} → {}", c, u16::from(c)));
            res.output = "differs".into();
            break;
        }
    }
    res
}

fn run(line: &str) -> CaseResult {
    match line.split_ascii_whitespace().next() {
        Some("stream") => run_stream(line),
        Some("parse") => run_parse(line),
        Some("enc") => run_enc(line),
        Some("hs") => run_hs(line),
        Some("key") => run_key(line),
        Some("closecodes") => run_closecodes(),
        _ => CaseResult::ok("bad-case".into()),
    }
}

// ------------------------------------------------------------------------------------------
// generator
// ------------------------------------------------------------------------------------------

/// generator-side frame encoder (explicit key, any opcode nibble / flags / length form)
fn g_frame(first: u8, masked: bool, key: [u8; 4], payload: &[u8], form: u8, announced: Option<u64>) -> Vec<u8> {
    let n = announced.unwrap_or(payload.len() as u64);
    let mut out = vec![first];
    let mb = if masked { 0x80 } else { 0 };
    // form: 0 = shortest, 1 = force 16-bit, 2 = force 64-bit
    if form == 0 && n < 126 {
        out.push(mb | n as u8);
    } else if form <= 1 && n <= 65535 {
        out.push(mb | 126);
        out.extend_from_slice(&(n as u16).to_be_bytes());
    } else {
        out.push(mb | 127);
        out.extend_from_slice(&n.to_be_bytes());
    }
    if masked {
        out.extend_from_slice(&key);
        out.extend(payload.iter().enumerate().map(|(i, b)| b ^ key[i % 4]));
    } else {
        out.extend_from_slice(payload);
    }
    out
}

fn hex_or_dash(b: &[u8]) -> String {
    hex(b)
}

fn cut_at(bytes: &[u8], cuts: &[usize]) -> String {
    let mut segs = Vec::new();
    let mut prev = 0;
    for &c in cuts {
        segs.push(hex_or_dash(&bytes[prev..c]));
        prev = c;
    }
    segs.push(hex_or_dash(&bytes[prev..]));
    segs.join("|")
}

fn rand_cuts(rng: &mut Rng, n: usize, k: usize) -> Vec<usize> {
    let mut c: Vec<usize> = (0..k).map(|_| rng.below(n + 1)).collect();
    c.sort();
    c
}

const LENS: &[usize] = &[0, 1, 2, 3, 4, 5, 7, 8, 15, 16, 17, 31, 64, 124, 125, 126, 127, 128, 200, 255, 256, 257, 1000];
const BIG_LENS: &[usize] = &[65534, 65535, 65536, 65537, 66000];

fn gen(ctx: &Ctx) -> Vec<String> {
    let mut rng = Rng::new(ctx.seed);
    let mut cases: Vec<String> = Vec::new();
    let thorough = ctx.tier != Tier::Quick;
    cases.push("closecodes".into());

    // ---- parse: every first byte x selected second bytes x both roles (header decision table)
    let seconds: &[u8] = &[0, 1, 5, 125, 126, 127, 128, 129, 133, 253, 254, 255];
    for role in ["s", "c"] {
        for first in 0..=255u8 {
            for &second in seconds {
                if !thorough && ctx.tier == Tier::Quick && first % 16 > 10 && first % 16 != 15 && second != 1 && second != 129 {
                    continue;
                }
                let mut b = vec![first, second];
                b.extend_from_slice(&[0, 3, 1, 2, 3, 4, 9, 9, 9, 9, 7, 7, 7, 7, 7, 7, 7, 7]);
                cases.push(format!("parse role={role} max=1024 al={} {}", first % 4, hex(&b)));
            }
        }
    }
    // ---- parse: length fields at their boundaries, each truncated at every header position
    let l64: &[u64] = &[0, 1, 125, 126, 65535, 65536, 1 << 32, (1 << 63) - 1, 1 << 63, u64::MAX - 14, u64::MAX - 13, u64::MAX - 10, u64::MAX - 9, u64::MAX - 5, u64::MAX];
    for role in ["s", "c"] {
        let masked = role == "s";
        for &n in l64 {
            for form in [1u8, 2] {
                if form == 1 && n > 65535 {
                    continue;
                }
                for max in [0usize, 125, 65535, 65536, 1 << 20] {
                    let pl: Vec<u8> = if n <= 300 { pat_bytes(n as usize, 7) } else { pat_bytes(20, 7) };
                    let f = g_frame(0x82, masked, [1, 2, 3, 4], &pl, form, Some(n));
                    let hdr = f.len() - pl.len();
                    for cut in 0..=hdr {
                        cases.push(format!("parse role={role} max={max} al={} {}", cut % 4, hex(&f[..cut])));
                    }
                    cases.push(format!("parse role={role} max={max} al=0 {}", hex(&f)));
                    // the same through the codec loop, header first then the rest (F4 class)
                    cases.push(format!("stream role={role} max={max} al=0 {}|{}", hex(&f[..hdr]), hex(&f[hdr..])));
                }
            }
        }
    }
    // ---- parse: mask alignment x length (fast path = fallback at all four alignments)
    for al in 0..4 {
        for len in 0..=40usize {
            let key = [rng.next() as u8, rng.next() as u8, rng.next() as u8, rng.next() as u8];
            let pl = rng.bytes(len);
            for form in [0u8, 1, 2] {
                if form > 0 && len % 5 != 0 {
                    continue;
                }
                let f = g_frame(0x82, true, key, &pl, form, None);
                cases.push(format!("parse role=s max=65536 al={al} {}", hex(&f)));
            }
        }
    }
    // ---- parse / stream: every opcode x boundary lengths x roles, shortest and over-wide length forms
    for role in ["s", "c"] {
        let masked = role == "s";
        for &op in &[0u8, 1, 2, 8, 9, 10] {
            for fin in [0u8, 0x80] {
                for &len in &[0usize, 1, 2, 3, 124, 125, 126, 127, 300] {
                    let key = [rng.next() as u8, rng.next() as u8, rng.next() as u8, rng.next() as u8];
                    let mut pl = rng.bytes(len);
                    if op == 8 && len >= 2 {
                        pl[0] = 3;
                        pl[1] = 232 + (rng.below(16) as u8);
                    }
                    let f = g_frame(fin | op, masked, key, &pl, 0, None);
                    let al = rng.below(4);
                    cases.push(format!("parse role={role} max=65536 al={al} {}", hex(&f)));
                    let cut = rng.below(f.len() + 1);
                    cases.push(format!("stream role={role} max=65536 al={al} {}", cut_at(&f, &[cut])));
                    // around max_size
                    for max in [len.saturating_sub(1), len, len + 1] {
                        cases.push(format!("stream role={role} max={max} al={al} {}", hex(&f)));
                    }
                }
            }
        }
        // big payloads via pattern chunks
        for &len in BIG_LENS {
            for &(op, max) in &[(2u8, 1usize << 20), (1, len), (2, len - 1), (9, 1 << 20), (8, 1 << 20)] {
                let key = [rng.next() as u8, rng.next() as u8, rng.next() as u8, rng.next() as u8];
                let hdr = g_frame(0x80 | op, masked, key, &[], if len <= 65535 { 1 } else { 2 }, Some(len as u64));
                let seed = rng.below(256);
                let al = rng.below(4);
                cases.push(format!("stream role={role} max={max} al={al} {}+R{len}.{seed}", hex(&hdr)));
                cases.push(format!("stream role={role} max={max} al={al} {}|R{}.{seed}|R{}.{}", hex(&hdr), len / 2, len - len / 2, (seed + 31 * (len / 2)) % 256));
            }
        }
    }

    // ---- stream: every sequence of up to three frame kinds (the continuation state machine, exhaustively)
    let kinds: &[u8] = &[0x81, 0x82, 0x01, 0x02, 0x00, 0x80, 0x89, 0x09, 0x88, 0x08, 0x8a];
    for role in ["s", "c"] {
        let masked = role == "s";
        for depth in 1..=3usize {
            let total = kinds.len().pow(depth as u32);
            for mut code in 0..total {
                let mut bytes = Vec::new();
                for j in 0..depth {
                    let k = kinds[code % kinds.len()];
                    code /= kinds.len();
                    let key = [7u8.wrapping_mul(j as u8 + 1), 0x55, 0xaa, k];
                    let pl = [b'a' + j as u8];
                    bytes.extend(g_frame(k, masked, key, if k & 15 == 8 { &[] } else { &pl[..] }, 0, None));
                }
                let al = bytes.len() % 4;
                let cut = (bytes.len() * 7 / 11).min(bytes.len());
                cases.push(format!("stream role={role} max=65536 al={al} {}", cut_at(&bytes, &[cut])));
            }
        }
    }

    // ---- stream: valid conversations, all 2-cuts / 1-byte feeds / random cuts
    let n_conv = ctx.budget(140);
    for ci in 0..n_conv {
        let role = if rng.chance(1, 2) { "s" } else { "c" };
        let masked = role == "s";
        let nf = rng.range(1, 6);
        let mut bytes = Vec::new();
        let mut in_frag = false;
        let illegal = ci % 3 == 2; // every third conversation gets one illegal frame somewhere
        let bad_at = if illegal { rng.below(nf) } else { usize::MAX };
        let max = *rng.pick(&[125usize, 126, 300, 1024, 65536]);
        for fi in 0..nf {
            let key = [rng.next() as u8, rng.next() as u8, rng.next() as u8, rng.next() as u8];
            let len = if rng.chance(1, 6) { *rng.pick(&[124usize, 125, 126, 127, 128]) } else { rng.below(24) };
            let mut pl = rng.bytes(len);
            // pick a legal next frame
            let was_in_frag = in_frag;
            let choice = rng.below(10);
            let (mut first, ctl) = if choice < 3 {
                (0x80 | *rng.pick(&[8u8, 9, 10]), true)
            } else if in_frag {
                if rng.chance(1, 2) {
                    in_frag = false;
                    (0x80, false)
                } else {
                    (0x00, false)
                }
            } else if choice < 7 {
                (0x80 | *rng.pick(&[1u8, 2]), false)
            } else {
                in_frag = true;
                (*rng.pick(&[1u8, 2]), false)
            };
            if ctl && pl.len() > 125 {
                pl.truncate(125);
            }
            if first & 15 == 8 && pl.len() >= 2 {
                pl[0] = 3;
                pl[1] = 232;
                if rng.chance(2, 3) {
                    for b in pl.iter_mut().skip(2) {
                        *b = 32 + *b % 95;
                    }
                }
            }
            if rng.chance(1, 12) {
                first |= 0x10 << rng.below(3); // RSV bits: ignored by the code
            }
            let mut m = masked;
            let mut announced = None;
            let mut form = if rng.chance(1, 8) { rng.below(3) as u8 } else { 0 };
            if fi == bad_at {
                match rng.below(12) {
                    0 => m = !m,
                    1 => first = (first & 0xf0) | *rng.pick(&[3u8, 4, 5, 6, 7, 11, 12, 13, 14, 15]),
                    2 => first = *rng.pick(&[8u8, 9, 10]), // FIN=0 control
                    3 => {
                        first = 0x80 | *rng.pick(&[9u8, 10]);
                        let n = rng.range(126, 140);
                        pl = rng.bytes(n);
                    }
                    // start inside a fragmented message / continuation without start
                    4 | 9 | 10 => first = if was_in_frag { *rng.pick(&[1u8, 2]) } else { *rng.pick(&[0u8, 0x80]) },
                    5 => {
                        announced = Some(max as u64 + 1 + rng.below(5) as u64);
                    }
                    6 => {
                        announced = Some(*rng.pick(&[1u64 << 40, u64::MAX, u64::MAX - 13, 1 << 63]));
                        form = 2;
                    }
                    7 => {
                        first = 0x88;
                        let n = rng.range(126, 200);
                        pl = rng.bytes(n);
                    }
                    _ => {
                        // unfragmented data frame inside a fragmented message (accepted: observation)
                        first = 0x80 | *rng.pick(&[1u8, 2]);
                    }
                }
            }
            if pl.len() > max && announced.is_none() && fi != bad_at {
                pl.truncate(max);
            }
            bytes.extend(g_frame(first, m, key, &pl, form, announced));
        }
        let al = rng.below(4);
        let head = format!("stream role={role} max={max} al={al} ");
        cases.push(format!("{head}{}", hex(&bytes)));
        // all 2-cuts
        if bytes.len() <= 90 || thorough {
            for c in 0..=bytes.len() {
                cases.push(format!("{head}{}", cut_at(&bytes, &[c])));
            }
        } else {
            for _ in 0..12 {
                let c = rng.below(bytes.len() + 1);
                cases.push(format!("{head}{}", cut_at(&bytes, &[c])));
            }
        }
        // 1-byte feeds
        if bytes.len() <= 400 {
            let cuts: Vec<usize> = (1..bytes.len()).collect();
            cases.push(format!("{head}{}", cut_at(&bytes, &cuts)));
        }
        // random k-cuts
        for _ in 0..3 {
            let k = rng.range(2, 6);
            let cuts = rand_cuts(&mut rng, bytes.len(), k);
            cases.push(format!("{head}{}", cut_at(&bytes, &cuts)));
        }
    }

    // ---- stream: pure fuzz (random bytes with a plausible first frame)
    for _ in 0..ctx.budget(300) {
        let role = if rng.chance(1, 2) { "s" } else { "c" };
        let n = rng.range(0, 40);
        let mut b = rng.bytes(n);
        if n >= 2 && rng.chance(3, 4) {
            b[0] = (b[0] & 0xf0) | *rng.pick(&[0u8, 1, 2, 8, 9, 10]);
            b[1] = (b[1] & 0x7f) | if role == "s" { 0x80 } else { 0 };
            if rng.chance(1, 2) {
                b[1] = (b[1] & 0x80) | (b[1] & 0x1f);
            }
        }
        let k = rng.below(4);
        let cuts = rand_cuts(&mut rng, n, k);
        cases.push(format!("stream role={role} max={} al={} {}", rng.pick(&[0usize, 10, 125, 65536]), rng.below(4), cut_at(&b, &cuts)));
    }

    // ---- enc: every message kind x boundary lengths x both roles
    let kinds = ["T", "B", "PI", "PO", "CT", "CB"];
    for role in ["s", "c"] {
        for kind in kinds {
            for &len in LENS {
                let al = rng.below(4);
                let k = hex0(&rng.bytes(4));
                let p = if len == 0 { "-".to_owned() } else { format!("A{len}.{}", rng.below(95)) };
                for max in [65536usize, len, len.saturating_sub(1)] {
                    cases.push(format!("enc role={role} max={max} al={al} k={k} {kind}:{p}"));
                }
            }
        }
        for &len in BIG_LENS {
            for kind in ["T", "B", "CB"] {
                let al = rng.below(4);
                let k = hex0(&rng.bytes(4));
                let p = if kind == "T" { format!("A{len}.{}", rng.below(95)) } else { format!("R{len}.{}", rng.below(256)) };
                cases.push(format!("enc role={role} max={} al={al} k={k} {kind}:{p}", 1 << 20));
                cases.push(format!("enc role={role} max={len} al={al} k={k} {kind}:{p}"));
                cases.push(format!("enc role={role} max={} al={al} k={k} {kind}:{p}", len - 1));
            }
        }
        // close frames
        for code in [1000u16, 1001, 1006, 1015, 2000, 0, 65535, 999, 1014] {
            for dl in [None, Some(0usize), Some(1), Some(5), Some(122), Some(123), Some(124), Some(200)] {
                let al = rng.below(4);
                let k = hex0(&rng.bytes(4));
                let tok = match dl {
                    None => format!("CLOSE:{code}"),
                    Some(0) => format!("CLOSE:{code}:-"),
                    Some(n) => format!("CLOSE:{code}:A{n}.{}", rng.below(95)),
                };
                cases.push(format!("enc role={role} max=65536 al={al} k={k} {tok}"));
            }
        }
        cases.push(format!("enc role={role} max=65536 al=0 k=00000000 CLOSE:-"));
        cases.push(format!("enc role={role} max=65536 al=0 k=a1b2c3d4 CLOSE:1000:e282ac20c3a9f09f9880"));
    }
    // ---- enc: random message sequences (continuation bracketing on both sides)
    let toks = ["T", "B", "PI", "PO", "CT", "CB", "CC", "CL", "CC", "CL", "NOP", "CLOSE"];
    for _ in 0..ctx.budget(500) {
        let role = if rng.chance(1, 2) { "s" } else { "c" };
        let n = rng.range(1, 8);
        let mut ms = Vec::new();
        for _ in 0..n {
            let t = *rng.pick(&toks);
            let len = if rng.chance(1, 8) { *rng.pick(&[125usize, 126, 127, 130]) } else { rng.below(12) };
            let p = if len == 0 { "-".to_owned() } else { format!("A{len}.{}", rng.below(95)) };
            ms.push(match t {
                "NOP" => "NOP".to_owned(),
                "CLOSE" => {
                    if rng.chance(1, 3) {
                        "CLOSE:-".to_owned()
                    } else {
                        format!("CLOSE:{}:{p}", rng.pick(&[1000u16, 1002, 3000, 4999]))
                    }
                }
                t => format!("{t}:{p}"),
            });
        }
        let max = *rng.pick(&[65536usize, 65536, 126, 10]);
        cases.push(format!("enc role={role} max={max} al={} k={} {}", rng.below(4), hex0(&rng.bytes(4)), ms.join(" ")));
    }

    // ---- handshake: product of variants
    let methods = ["GET", "POST", "get"];
    let upgrades: &[Option<&[u8]>] = &[None, Some(b"websocket"), Some(b"WebSocket"), Some(b"h2c, WEBSOCKET"), Some(b"xwebsocketx"), Some(b"web socket"), Some(b"websocket\xff"), Some(b"websocke")];
    let conns: &[Option<&[u8]>] = &[None, Some(b"Upgrade"), Some(b"keep-alive, upgrade"), Some(b"notupgradeable"), Some(b"close"), Some(b"upgrad\xe9")];
    let versions: &[Option<&[u8]>] = &[None, Some(b"13"), Some(b"8"), Some(b"7"), Some(b"12"), Some(b"013"), Some(b"13 "), Some(b"")];
    let keys: &[Option<&[u8]>] = &[None, Some(b"dGhlIHNhbXBsZSBub25jZQ=="), Some(b""), Some(b"x")];
    for m in methods {
        for u in upgrades {
            for c in conns {
                for v in versions {
                    for k in keys {
                        if !thorough && m != "GET" && (cases.len() % 5 != 0) {
                            continue;
                        }
                        let mut line = format!("hs m={m}");
                        for (n, val) in [("upgrade", u), ("connection", c), ("sec-websocket-version", v), ("sec-websocket-key", k)] {
                            if let Some(val) = val {
                                line.push_str(&format!(" {n}={}", hex(val)));
                            }
                        }
                        cases.push(line);
                    }
                }
            }
        }
    }
    // several values of one header: the first one counts
    for (a, b) in [("websocket", "h2c"), ("h2c", "websocket")] {
        cases.push(format!(
            "hs m=GET upgrade={} upgrade={} connection={} sec-websocket-version=3133 sec-websocket-key={}",
            hex(a.as_bytes()),
            hex(b.as_bytes()),
            hex(b"upgrade"),
            hex(b"abc")
        ));
        cases.push(format!(
            "hs m=GET upgrade={} connection={} sec-websocket-version={} sec-websocket-version={} sec-websocket-key={} sec-websocket-key={}",
            hex(b"websocket"),
            hex(b"upgrade"),
            hex(if a == "h2c" { b"12" } else { b"13" }),
            hex(if a == "h2c" { b"13" } else { b"12" }),
            hex(a.as_bytes()),
            hex(b.as_bytes())
        ));
    }
    // random keys through the handshake
    for _ in 0..ctx.budget(100) {
        let n = rng.range(0, 40);
        let key: Vec<u8> = (0..n).map(|_| 33 + (rng.next() % 94) as u8).collect();
        cases.push(format!("hs m=GET upgrade={} connection={} sec-websocket-version=3133 sec-websocket-key={}", hex(b"websocket"), hex(b"Upgrade"), hex(&key)));
    }
    // ---- key: every length 0..130 (all SHA-1 padding cases), random bytes
    for n in 0..=130usize {
        cases.push(format!("key {}", hex(&rng.bytes(n))));
    }
    for _ in 0..ctx.budget(100) {
        let n = rng.range(0, 300);
        cases.push(format!("key {}", hex(&rng.bytes(n))));
    }
    cases
}

pub fn prop() -> Prop {
    Prop { rule: RULE, parallel: true, gen: Box::new(gen), run: Box::new(run) }
}
