//! C15 — multipart parsing is exact, segmentation-independent, terminating, buffer-bounded.
//!
//! Case line (space separated words; everything after `|` is the chunk script):
//!   `b=<hex boundary> ct=mixed|form lim=<n|0> plan=<r|dK>[,<r|dK>…] [gt=<h:c;h:c…|->] [tr=1] | c<hex> p e …`
//!   * `lim=0`  → `Multipart::new(&headers, stream)` (default 64 KiB parser buffer);
//!     `lim=n` → `Multipart::from_request` with `MultipartConfig::buffer_limit(n)` in app data
//!   * `plan`   → what the consumer does with the i-th field: `r` read to the end, `dK` drop the
//!     `Field` after K chunks (the parser then has to skip the rest itself); last entry repeats
//!   * script   → `c<hex>` the body stream yields this chunk (`c-` = empty chunk), `p` it returns
//!     `Pending` once (and wakes, as a socket would), `e` it yields an error; end of list = end of stream
//!   * `gt`     → generator ground truth: the field list (raw header block without the blank line :
//!     content) the body was built from; `tr=1`: the body was truncated / damaged, an error is required
//!
//! Output (compared with the Lean model): one token per consumer-visible event, each suffixed with
//! `@k` = number of script items the parser had pulled from the stream at that moment:
//!   `F<name-hex>;<hdr>=<val>,…@k`  field delivered      `D<hex>@k` content (consecutive chunks merged, k of the last)      `N@k` field finished
//!   `X@k` field dropped early      `EOF@k` | `ERR:<kind>@k` | `HANG@k` | `SPIN@k` final state.
use std::{
    cell::{Cell, RefCell},
    collections::VecDeque,
    future::Future,
    pin::Pin,
    rc::Rc,
    sync::{
        atomic::{AtomicBool, Ordering},
        Arc,
    },
    task::{Context, Poll, Wake, Waker},
};

use actix_multipart::{Multipart, MultipartConfig, MultipartError};
use actix_web::{
    dev,
    error::{ParseError, PayloadError},
    http::header::{self, HeaderMap, HeaderValue},
    test::TestRequest,
    web::Bytes,
    FromRequest,
};
use futures_core::Stream;
use futures_util::StreamExt as _;

use super::Prop;
use crate::common::{hex, kv, unhex, CaseResult, Ctx, Rng, Tier};

const RULE: &str = "cases = (boundary, multipart/mixed|form-data, parser buffer limit, consumer plan, ground-truth field list, \
chunk script): bodies are built from a field list (0..5 fields; empty/binary contents; contents ending in CR, CRLF, '--', \
containing CRLF-- look-alikes and boundary prefixes; with/without per-field Content-Length, also lying; header-less parts; \
preamble/epilogue), then cut at every position (exhaustive for short bodies, pairs of cuts around every CR/'-' otherwise) \
with 0..3 Pendings between chunks and runs of empty chunks, truncated at every position, damaged (wrong boundary, missing \
final delimiter, bad headers), and run with small buffer limits; a case is non-trivial if at least one field was delivered; \
distinct = distinct (case, output) hashes";

// ------------------------------------------------------------------------------------------
// scripted body stream + wake-driven executor

#[derive(Clone, Debug, PartialEq)]
enum Tok {
    Chunk(Vec<u8>),
    Pending,
    Err,
}

struct Script {
    toks: VecDeque<Tok>,
    pulled: Rc<Cell<usize>>,
}

impl Stream for Script {
    type Item = Result<Bytes, PayloadError>;
    fn poll_next(mut self: Pin<&mut Self>, cx: &mut Context<'_>) -> Poll<Option<Self::Item>> {
        match self.toks.pop_front() {
            None => Poll::Ready(None),
            Some(t) => {
                self.pulled.set(self.pulled.get() + 1);
                match t {
                    Tok::Chunk(b) => Poll::Ready(Some(Ok(Bytes::from(b)))),
                    Tok::Pending => {
                        // data "arrives later": the task is woken as a socket would do
                        cx.waker().wake_by_ref();
                        Poll::Pending
                    }
                    Tok::Err => Poll::Ready(Some(Err(PayloadError::EncodingCorrupted))),
                }
            }
        }
    }
}

struct Flag(AtomicBool);
impl Wake for Flag {
    fn wake(self: Arc<Self>) {
        self.0.store(true, Ordering::SeqCst)
    }
    fn wake_by_ref(self: &Arc<Self>) {
        self.0.store(true, Ordering::SeqCst)
    }
}

#[derive(Clone, Debug, PartialEq)]
enum Ev {
    Field { name: Option<String>, hdrs: Vec<(String, Vec<u8>)> },
    Data(Vec<u8>),
    FieldEnd,
    Dropped,
    Eof,
    Err(String),
    Hang,
    Spin,
}

fn err_kind(e: &MultipartError) -> String {
    match e {
        MultipartError::ContentTypeMissing => "ContentTypeMissing".into(),
        MultipartError::ContentTypeParse => "ContentTypeParse".into(),
        MultipartError::ContentTypeIncompatible => "ContentTypeIncompatible".into(),
        MultipartError::BoundaryMissing => "BoundaryMissing".into(),
        MultipartError::ContentDispositionMissing => "CdMissing".into(),
        MultipartError::ContentDispositionNameMissing => "CdNameMissing".into(),
        MultipartError::Nested => "Nested".into(),
        MultipartError::Incomplete => "Incomplete".into(),
        MultipartError::Parse(ParseError::Header) => "ParseHeader".into(),
        MultipartError::Parse(ParseError::TooLarge) => "ParseTooLarge".into(),
        MultipartError::Parse(_) => "ParseOther".into(),
        MultipartError::Payload(PayloadError::Overflow) => "Overflow".into(),
        MultipartError::Payload(PayloadError::Incomplete(_)) => "PayloadIncomplete".into(),
        MultipartError::Payload(PayloadError::EncodingCorrupted) => "Stream".into(),
        MultipartError::Payload(_) => "PayloadOther".into(),
        MultipartError::NotConsumed => "NotConsumed".into(),
        _ => "Other".into(),
    }
}

#[derive(Clone, Copy, Debug, PartialEq)]
enum Plan {
    Read,
    DropAfter(usize),
}

fn canon_headers(h: &HeaderMap) -> Vec<(String, Vec<u8>)> {
    // hash-map order is not observable: stable sort by name, values of one name in insertion order
    let mut names: Vec<String> = h.keys().map(|k| k.as_str().to_owned()).collect();
    names.sort();
    names.dedup();
    let mut out = Vec::new();
    for n in names {
        for v in h.get_all(n.as_str()) {
            out.push((n.clone(), v.as_bytes().to_vec()));
        }
    }
    out
}

struct Setup {
    boundary: Vec<u8>,
    form: bool,
    lim: usize,
    plan: Vec<Plan>,
}

/// Run the real parser over one script; returns the event trace with the pulled-count of each event.
fn drive(s: &Setup, script: &[Tok]) -> Vec<(Ev, usize)> {
    let pulled = Rc::new(Cell::new(0usize));
    let stream = Script { toks: script.iter().cloned().collect(), pulled: pulled.clone() };
    let ct = format!(
        "multipart/{}; boundary=\"{}\"",
        if s.form { "form-data" } else { "mixed" },
        String::from_utf8_lossy(&s.boundary)
    );
    let mut mp = if s.lim == 0 {
        let mut headers = HeaderMap::new();
        headers.insert(header::CONTENT_TYPE, HeaderValue::from_str(&ct).unwrap());
        Multipart::new(&headers, stream)
    } else {
        let req = TestRequest::default()
            .insert_header((header::CONTENT_TYPE, ct))
            .app_data(MultipartConfig::new().buffer_limit(s.lim))
            .to_http_request();
        let boxed: Pin<Box<dyn Stream<Item = Result<Bytes, PayloadError>>>> = Box::pin(stream);
        let mut pl: dev::Payload = dev::Payload::Stream { payload: boxed };
        match Multipart::from_request(&req, &mut pl).into_inner() {
            Ok(m) => m,
            Err(_) => return vec![(Ev::Err("Extract".into()), 0)],
        }
    };
    let events: Rc<RefCell<Vec<(Ev, usize)>>> = Rc::new(RefCell::new(Vec::new()));
    let ev = events.clone();
    let pl = pulled.clone();
    let plan = s.plan.clone();
    let fut = async move {
        let push = |e: Ev| ev.borrow_mut().push((e, pl.get()));
        let mut idx = 0usize;
        loop {
            match mp.next().await {
                None => {
                    push(Ev::Eof);
                    return;
                }
                Some(Err(e)) => {
                    push(Ev::Err(err_kind(&e)));
                    return;
                }
                Some(Ok(mut field)) => {
                    push(Ev::Field { name: field.name().map(|n| n.to_owned()), hdrs: canon_headers(field.headers()) });
                    let p = if plan.is_empty() { Plan::Read } else { plan[idx.min(plan.len() - 1)] };
                    idx += 1;
                    let mut left = match p {
                        Plan::Read => usize::MAX,
                        Plan::DropAfter(k) => k,
                    };
                    loop {
                        if left == 0 {
                            push(Ev::Dropped);
                            break;
                        }
                        match field.next().await {
                            None => {
                                push(Ev::FieldEnd);
                                break;
                            }
                            Some(Ok(c)) => {
                                push(Ev::Data(c.to_vec()));
                                left -= 1;
                            }
                            Some(Err(e)) => {
                                push(Ev::Err(err_kind(&e)));
                                return;
                            }
                        }
                    }
                    drop(field);
                }
            }
        }
    };
    let mut fut: Pin<Box<dyn Future<Output = ()>>> = Box::pin(fut);
    let flag = Arc::new(Flag(AtomicBool::new(false)));
    let waker = Waker::from(flag.clone());
    let mut cx = Context::from_waker(&waker);
    let cap = 64 + 8 * script.len() + 4 * script.iter().map(|t| if let Tok::Chunk(b) = t { b.len() } else { 0 }).sum::<usize>();
    let mut polls = 0usize;
    loop {
        flag.0.store(false, Ordering::SeqCst);
        match fut.as_mut().poll(&mut cx) {
            Poll::Ready(()) => break,
            Poll::Pending => {
                if !flag.0.load(Ordering::SeqCst) {
                    // nobody will ever poll this task again
                    events.borrow_mut().push((Ev::Hang, pulled.get()));
                    break;
                }
                polls += 1;
                if polls > cap {
                    events.borrow_mut().push((Ev::Spin, pulled.get()));
                    break;
                }
            }
        }
    }
    drop(fut);
    let r = events.borrow().clone();
    r
}

/// consecutive content chunks of a field are one observable (how the content is cut into chunks is
/// not part of the property): they are merged, keeping the pulled-count of the last one
fn merge_data(tr: &[(Ev, usize)]) -> Vec<(Ev, usize)> {
    let mut out: Vec<(Ev, usize)> = Vec::new();
    for (e, k) in tr {
        if let (Ev::Data(d), Some((Ev::Data(prev), pk))) = (e, out.last_mut()) {
            prev.extend_from_slice(d);
            *pk = *k;
            continue;
        }
        out.push((e.clone(), *k));
    }
    out
}

fn show_trace(tr: &[(Ev, usize)]) -> String {
    let mut out = Vec::new();
    let tr = merge_data(tr);
    for (e, k) in &tr {
        let s = match e {
            Ev::Field { name, hdrs } => {
                let hs: Vec<String> = hdrs.iter().map(|(n, v)| format!("{}={}", n, hex(v))).collect();
                format!("F{};{}", name.as_ref().map(|n| hex(n.as_bytes())).unwrap_or_else(|| "~".into()), hs.join(","))
            }
            Ev::Data(d) => format!("D{}", hex(d)),
            Ev::FieldEnd => "N".into(),
            Ev::Dropped => "X".into(),
            Ev::Eof => "EOF".into(),
            Ev::Err(k) => format!("ERR:{}", k),
            Ev::Hang => "HANG".into(),
            Ev::Spin => "SPIN".into(),
        };
        out.push(format!("{}@{}", s, k));
    }
    out.join(" ")
}

/// What the property talks about: fields (headers, name, whole content, was it read to its end) + final status.
#[derive(Clone, Debug, PartialEq)]
struct FieldOut {
    name: Option<String>,
    hdrs: Vec<(String, Vec<u8>)>,
    content: Vec<u8>,
    /// N = stream of the field ended; X = dropped by the consumer; ! = cut short by the final status
    end: char,
}

fn summarize(tr: &[(Ev, usize)]) -> (Vec<FieldOut>, String) {
    let mut fs: Vec<FieldOut> = Vec::new();
    let mut status = String::from("?");
    for (e, _) in tr {
        match e {
            Ev::Field { name, hdrs } => fs.push(FieldOut { name: name.clone(), hdrs: hdrs.clone(), content: vec![], end: '!' }),
            Ev::Data(d) => fs.last_mut().unwrap().content.extend_from_slice(d),
            Ev::FieldEnd => fs.last_mut().unwrap().end = 'N',
            Ev::Dropped => fs.last_mut().unwrap().end = 'X',
            Ev::Eof => status = "EOF".into(),
            Ev::Err(k) => status = format!("ERR:{}", k),
            Ev::Hang => status = "HANG".into(),
            Ev::Spin => status = "SPIN".into(),
        }
    }
    (fs, status)
}

/// equality of what two runs delivered; a field the consumer dropped after K chunks has received a
/// segmentation-dependent prefix of its content, so only prefix-compatibility is required there,
/// and likewise for the field that was being read when the final error arrived
fn fields_equiv(a: &[FieldOut], b: &[FieldOut]) -> bool {
    a.len() == b.len()
        && a.iter().zip(b).all(|(x, y)| {
            x.name == y.name
                && x.hdrs == y.hdrs
                && (x.end == y.end || x.end == 'X' || y.end == 'X')
                && if x.end == 'N' && y.end == 'N' { x.content == y.content } else { x.content.starts_with(&y.content) || y.content.starts_with(&x.content) }
        })
}

fn show_fields(fs: &[FieldOut]) -> String {
    fs.iter()
        .map(|f| format!("[{} {} {}{}]", f.name.clone().unwrap_or_else(|| "~".into()), f.hdrs.len(), hex(&f.content), f.end))
        .collect::<Vec<_>>()
        .join("")
}

// ------------------------------------------------------------------------------------------
// case syntax

struct Case {
    setup: Setup,
    gt: Option<Vec<(Vec<u8>, Vec<u8>, Option<Vec<u8>>)>>,
    trunc: bool,
    /// `nv=1`: the body contains a part that must be rejected after the listed fields
    no_status_verdict: bool,
    script: Vec<Tok>,
}

fn parse_case(line: &str) -> Option<Case> {
    let (head, tail) = match line.find('|') {
        Some(i) => (&line[..i], &line[i + 1..]),
        None => (line, ""),
    };
    let boundary = unhex(kv(head, "b")?)?;
    let form = kv(head, "ct").unwrap_or("mixed") == "form";
    let lim = kv(head, "lim").and_then(|s| s.parse().ok()).unwrap_or(0);
    let mut plan = Vec::new();
    for p in kv(head, "plan").unwrap_or("r").split(',') {
        if p == "r" {
            plan.push(Plan::Read)
        } else if let Some(k) = p.strip_prefix('d') {
            plan.push(Plan::DropAfter(k.parse().ok()?))
        } else {
            return None;
        }
    }
    let gt = match kv(head, "gt") {
        None => None,
        Some("-") => Some(vec![]),
        Some(s) => {
            let mut v = Vec::new();
            for f in s.split(';') {
                let mut it = f.split(':');
                let h = unhex(it.next()?)?;
                let c = unhex(it.next()?)?;
                let n = match it.next() {
                    None | Some("~") => None,
                    Some(x) => Some(unhex(x)?),
                };
                v.push((h, c, n));
            }
            Some(v)
        }
    };
    let trunc = kv(head, "tr") == Some("1");
    let mut script = Vec::new();
    for t in tail.split_ascii_whitespace() {
        if t == "p" {
            script.push(Tok::Pending)
        } else if t == "e" {
            script.push(Tok::Err)
        } else if let Some(h) = t.strip_prefix('c') {
            script.push(Tok::Chunk(unhex(h)?))
        } else {
            return None;
        }
    }
    let no_status_verdict = kv(head, "nv") == Some("1");
    Some(Case { setup: Setup { boundary, form, lim, plan }, gt, trunc, no_status_verdict, script })
}

fn body_of(script: &[Tok]) -> Vec<u8> {
    let mut b = Vec::new();
    for t in script {
        match t {
            Tok::Chunk(c) => b.extend_from_slice(c),
            Tok::Err => break,
            Tok::Pending => {}
        }
    }
    b
}

// ------------------------------------------------------------------------------------------
// oracle helpers (independent of the model)

/// reference header-block reader for the generator's own blocks (`Name: value\r\n`…): lower-cased
/// names, trimmed values, sorted like `canon_headers`
fn gt_headers(block: &[u8]) -> Vec<(String, Vec<u8>)> {
    let mut v: Vec<(String, Vec<u8>)> = Vec::new();
    for line in block.split(|b| *b == b'\n') {
        let line = line.strip_suffix(b"\r").unwrap_or(line);
        if line.is_empty() {
            continue;
        }
        if let Some(i) = line.iter().position(|b| *b == b':') {
            let name = String::from_utf8_lossy(&line[..i]).to_ascii_lowercase();
            let mut val = &line[i + 1..];
            while let [b' ' | b'\t', rest @ ..] = val {
                val = rest;
            }
            while let [rest @ .., b' ' | b'\t'] = val {
                val = rest;
            }
            v.push((name, val.to_vec()));
        }
    }
    v.sort_by(|a, b| a.0.cmp(&b.0));
    v
}

fn run(line: &str) -> CaseResult {
    let Some(case) = parse_case(line) else {
        return CaseResult { output: "bad-case".into(), fail: None, nontrivial: false, tags: vec!["bad-case".into()] };
    };
    let tr = drive(&case.setup, &case.script);
    let output = show_trace(&tr);
    let (fields, status) = summarize(&tr);
    let mut res = CaseResult { output, fail: None, nontrivial: !fields.is_empty(), tags: vec![] };
    res.tags.push(format!("status:{}", status));
    res.tags.push(format!("fields:{}", fields.len().min(4)));
    if case.setup.lim != 0 {
        res.tags.push("small-limit".into());
    }
    if case.script.iter().any(|t| matches!(t, Tok::Chunk(c) if c.is_empty())) {
        res.tags.push("empty-chunk".into());
    }
    if case.setup.plan.iter().any(|p| matches!(p, Plan::DropAfter(_))) {
        res.tags.push("drop-plan".into());
    }

    // (1) termination: every body ends in a decision
    if status == "HANG" {
        res = res.fail("hang", format!("task is Pending with no wake-up scheduled; trace: {}", show_fields(&fields)));
    }
    if status == "SPIN" {
        res = res.fail("spin", "task keeps waking itself without finishing".into());
    }
    let has_err_tok = case.script.iter().any(|t| *t == Tok::Err);

    // (2) same bytes, other segmentation => same fields and same final status
    if !has_err_tok {
        let body = body_of(&case.script);
        let whole = vec![Tok::Chunk(body.clone())];
        let bytewise: Vec<Tok> = body.iter().map(|b| Tok::Chunk(vec![*b])).collect();
        for (what, alt) in [("whole", whole), ("bytewise", bytewise)] {
            if alt == case.script {
                continue;
            }
            let (f2, s2) = summarize(&drive(&case.setup, &alt));
            if !fields_equiv(&f2, &fields) || s2 != status {
                res = res.fail(
                    "segmentation",
                    format!("script gives {} {} but the same bytes {} give {} {}", show_fields(&fields), status, what, show_fields(&f2), s2),
                );
                break;
            }
        }
    }

    // (3) generator ground truth
    if let Some(gt) = &case.gt {
        let all_read = case.setup.plan.iter().all(|p| *p == Plan::Read);
        let damaged = case.trunc || has_err_tok || case.no_status_verdict;
        res.tags.push(if damaged { "damaged".into() } else { "wellformed".into() });
        // prefix relation on what was delivered: never a wrong/merged field
        for (i, f) in fields.iter().enumerate() {
            let Some((gh, gc, gn)) = gt.get(i) else {
                if case.no_status_verdict {
                    break;
                }
                res = res.fail("extra-field", format!("field #{} delivered but the body has only {} fields", i, gt.len()));
                break;
            };
            if f.hdrs != gt_headers(gh) {
                res = res.fail("headers", format!("field #{}: headers {:?} expected {:?}", i, f.hdrs, gt_headers(gh)));
                break;
            }
            if f.name.as_ref().map(|n| n.as_bytes().to_vec()) != *gn {
                res = res.fail("name", format!("field #{}: name {:?} expected {:?}", i, f.name, gn.as_ref().map(|n| String::from_utf8_lossy(n).into_owned())));
                break;
            }
            let complete = f.end == 'N';
            let ok = if complete { &f.content == gc } else { gc.starts_with(&f.content) };
            if !ok {
                res = res.fail(
                    "content",
                    format!("field #{}: content {} expected {}{}", i, hex(&f.content), if complete { "" } else { "a prefix of " }, hex(gc)),
                );
                break;
            }
        }
        // buffer bound: at every event of a well-formed, fully read body the parser's position in the
        // body is known exactly, so (bytes pulled from the stream) - (bytes consumed) = buffered + kept-back
        // rest of the last chunk; that must not exceed limit + that chunk
        if !damaged && all_read && !gt.is_empty() {
            let body = body_of(&case.script);
            let mut layout: Vec<u8> = Vec::new();
            let mut starts = Vec::new();
            for (h, c, _) in gt.iter() {
                layout.extend_from_slice(b"--");
                layout.extend_from_slice(&case.setup.boundary);
                layout.extend_from_slice(b"\r\n");
                layout.extend_from_slice(h);
                layout.extend_from_slice(b"\r\n");
                starts.push(layout.len());
                layout.extend_from_slice(c);
                layout.extend_from_slice(b"\r\n");
            }
            if let Some(pre) = body.windows(layout.len()).position(|w| w == layout.as_slice()) {
                let limit = if case.setup.lim == 0 { 65536 } else { case.setup.lim };
                let mut fi = 0usize;
                let mut consumed = 0usize;
                for (e, k) in &tr {
                    match e {
                        Ev::Field { .. } => {
                            consumed = pre + starts[fi.min(starts.len() - 1)];
                            fi += 1;
                        }
                        Ev::Data(d) => consumed += d.len(),
                        Ev::FieldEnd => consumed += 2,
                        _ => continue,
                    }
                    let mut pulled = 0usize;
                    let mut last = 0usize;
                    for t in case.script.iter().take(*k) {
                        if let Tok::Chunk(c) = t {
                            pulled += c.len();
                            last = c.len();
                        }
                    }
                    if pulled > consumed + limit + last {
                        res = res.fail(
                            "buffer-bound",
                            format!("{} bytes pulled from the stream, {} consumed: more than limit {} + last chunk {} are held", pulled, consumed, limit, last),
                        );
                        break;
                    }
                }
            }
        }
        // overflow is legitimate only if some look-ahead unit does not fit the limit
        let lim = if case.setup.lim == 0 { 65536 } else { case.setup.lim };
        let blen = case.setup.boundary.len();
        let mut need = gt.iter().map(|(h, _, _)| h.len() + 4).max().unwrap_or(0).max(blen + 8);
        {
            // preamble lines are read line by line
            let body = body_of(&case.script);
            let open_line = [b"--".as_slice(), &case.setup.boundary, b"\r\n"].concat();
            let close_line = [b"--".as_slice(), &case.setup.boundary, b"--\r\n"].concat();
            for l in body.split_inclusive(|b| *b == b'\n') {
                if l == open_line.as_slice() || l == close_line.as_slice() {
                    break;
                }
                need = need.max(l.len());
            }
        }
        if !damaged {
            if status == "EOF" {
                if fields.len() != gt.len() {
                    res = res.fail("missing-field", format!("{} fields delivered, body has {}", fields.len(), gt.len()));
                }
                if all_read && fields.iter().any(|f| f.end != 'N') {
                    res = res.fail("field-not-ended", show_fields(&fields));
                }
            } else if status == "ERR:Overflow" && lim < need {
                res.tags.push("legit-overflow".into());
            } else if status != "HANG" && status != "SPIN" {
                res = res.fail("wellformed-rejected", format!("well-formed body ended with {} after {}", status, show_fields(&fields)));
            }
        } else if status == "EOF" && case.trunc {
            res = res.fail("damaged-accepted", format!("truncated/damaged body ended with EOF after {}", show_fields(&fields)));
        }
    }
    res
}

// ------------------------------------------------------------------------------------------
// generator

#[derive(Clone, Debug)]
struct FieldSpec {
    /// header block without the terminating blank line (`Name: value\r\n`…), may be empty
    hdrs: Vec<u8>,
    content: Vec<u8>,
    name: Option<Vec<u8>>,
}

fn delim(b: &[u8]) -> Vec<u8> {
    [b"\r\n--".as_slice(), b].concat()
}

fn build_body(b: &[u8], fields: &[FieldSpec], preamble: &[u8], epilogue: &[u8]) -> Vec<u8> {
    build_body_junk(b, fields, preamble, epilogue, None)
}

/// `junk = Some(i)`: the delimiter line in front of field `i` is followed by junk
fn build_body_junk(b: &[u8], fields: &[FieldSpec], preamble: &[u8], epilogue: &[u8], junk: Option<usize>) -> Vec<u8> {
    let mut out = preamble.to_vec();
    for (i, f) in fields.iter().enumerate() {
        out.extend_from_slice(b"--");
        out.extend_from_slice(b);
        if junk == Some(i) {
            out.extend_from_slice(b"junk");
        }
        out.extend_from_slice(b"\r\n");
        out.extend_from_slice(&f.hdrs);
        out.extend_from_slice(b"\r\n");
        out.extend_from_slice(&f.content);
        out.extend_from_slice(b"\r\n");
    }
    out.extend_from_slice(b"--");
    out.extend_from_slice(b);
    out.extend_from_slice(b"--\r\n");
    out.extend_from_slice(epilogue);
    out
}

fn show_script(script: &[Tok]) -> String {
    script
        .iter()
        .map(|t| match t {
            Tok::Chunk(c) => format!("c{}", hex(c)),
            Tok::Pending => "p".into(),
            Tok::Err => "e".into(),
        })
        .collect::<Vec<_>>()
        .join(" ")
}

fn show_plan(plan: &[Plan]) -> String {
    if plan.is_empty() {
        return "r".into();
    }
    plan.iter()
        .map(|p| match p {
            Plan::Read => "r".to_owned(),
            Plan::DropAfter(k) => format!("d{}", k),
        })
        .collect::<Vec<_>>()
        .join(",")
}

fn mk_case(b: &[u8], form: bool, lim: usize, plan: &[Plan], gt: Option<&[FieldSpec]>, tr: bool, script: &[Tok]) -> String {
    let mut s = format!("b={} ct={} lim={} plan={}", hex(b), if form { "form" } else { "mixed" }, lim, show_plan(plan));
    if let Some(fs) = gt {
        let g = if fs.is_empty() {
            "-".to_owned()
        } else {
            fs.iter()
                .map(|f| format!("{}:{}:{}", hex(&f.hdrs), hex(&f.content), f.name.as_ref().map(|n| hex(n)).unwrap_or_else(|| "~".into())))
                .collect::<Vec<_>>()
                .join(";")
        };
        s.push_str(&format!(" gt={}", g));
    }
    if tr {
        s.push_str(" tr=1");
    }
    s.push_str(" | ");
    s.push_str(&show_script(script));
    s
}

/// cut `body` at the given (sorted, deduplicated) positions, `pend(i)` Pendings before chunk i (i ≥ 1)
fn cut_script(body: &[u8], cuts: &[usize], mut pend: impl FnMut(usize) -> usize) -> Vec<Tok> {
    let mut script = Vec::new();
    let mut prev = 0usize;
    let mut idx = 0usize;
    let mut pts: Vec<usize> = cuts.iter().copied().filter(|c| *c > 0 && *c < body.len()).collect();
    pts.sort();
    pts.dedup();
    pts.push(body.len());
    for c in pts {
        if idx > 0 {
            for _ in 0..pend(idx) {
                script.push(Tok::Pending);
            }
        }
        script.push(Tok::Chunk(body[prev..c].to_vec()));
        prev = c;
        idx += 1;
    }
    script
}

const BOUNDARIES: &[&str] = &[
    "XB", "b", "-", "--", "a-b", "abbc761f78ff4d7cb7573b5a23f96ef0", "B'()+_,./:=?", "----WebKitFormBoundary7MA4YWxkTrZu0gW",
    "0123456789012345678901234567890123456789012345678901234567890123456789",
];

fn rand_content(rng: &mut Rng, b: &[u8], allow_delim: bool) -> Vec<u8> {
    let n = match rng.below(10) {
        0 => 0,
        1..=6 => rng.range(1, 6),
        _ => rng.range(4, 14),
    };
    let mut c = Vec::new();
    for _ in 0..n {
        match rng.below(22) {
            0 => c.extend_from_slice(b"\r"),
            1 => c.extend_from_slice(b"\n"),
            2 => c.extend_from_slice(b"\r\n"),
            3 => c.extend_from_slice(b"-"),
            4 => c.extend_from_slice(b"--"),
            5 => c.extend_from_slice(b"\r\n--"),
            6 => {
                // delimiter look-alike: proper prefix of the boundary
                c.extend_from_slice(b"\r\n--");
                let k = rng.below(b.len());
                c.extend_from_slice(&b[..k]);
            }
            7 => {
                c.extend_from_slice(b"\r--");
                c.extend_from_slice(b);
            }
            8 => {
                c.extend_from_slice(b"--");
                c.extend_from_slice(b);
            }
            9 => {
                c.extend_from_slice(b"\n--");
                c.extend_from_slice(b);
                c.extend_from_slice(b"--");
            }
            10 => c.extend_from_slice(b"\r\r\n-"),
            11 => c.extend_from_slice(b"\r\n\r\n"),
            12 => c.extend_from_slice(b"\r\n-"),
            13 => {
                if allow_delim {
                    c.extend_from_slice(&delim(b));
                    c.extend_from_slice(b"\r\n");
                } else {
                    c.extend_from_slice(b);
                }
            }
            14 => {
                let k = rng.range(1, 40);
                c.extend_from_slice(&rng.bytes(k));
            }
            15 => c.extend_from_slice(b"\0\xff"),
            _ => {
                let k = rng.range(1, 8);
                for _ in 0..k {
                    c.push(b'a' + rng.below(26) as u8);
                }
            }
        }
    }
    if !allow_delim {
        // the content (also together with the delimiter that follows it) must not contain the delimiter
        let d = delim(b);
        loop {
            let mut probe = c.clone();
            probe.extend_from_slice(&d);
            match probe.windows(d.len()).position(|w| w == d.as_slice()) {
                Some(p) if p < c.len() => {
                    c.remove(p + 1); // break this occurrence (drop its LF)
                }
                _ => break,
            }
        }
    }
    c
}

fn rand_field(rng: &mut Rng, b: &[u8], form: bool, idx: usize) -> FieldSpec {
    let mut hdrs = Vec::new();
    let mut name = None;
    let with_cl = rng.chance(1, 5);
    let content = rand_content(rng, b, with_cl);
    if form || rng.chance(1, 3) {
        let n = format!("f{}", idx);
        match rng.below(4) {
            0 => hdrs.extend_from_slice(format!("Content-Disposition: form-data; name={}\r\n", n).as_bytes()),
            1 => hdrs.extend_from_slice(format!("content-disposition:form-data;filename=\"a;b.txt\"; name=\"{}\"  \r\n", n).as_bytes()),
            _ => hdrs.extend_from_slice(format!("Content-Disposition: form-data; name=\"{}\"\r\n", n).as_bytes()),
        }
        name = Some(n.into_bytes());
    }
    match rng.below(6) {
        0 => hdrs.extend_from_slice(b"Content-Type: text/plain\r\n"),
        1 => hdrs.extend_from_slice(b"Content-Type: application/octet-stream\r\nX-Extra:   padded value \t \r\n"),
        2 => hdrs.extend_from_slice(b"x-a: 1\r\nX-A: 2\r\nx-empty:\r\n"),
        _ => {}
    }
    if with_cl {
        hdrs.extend_from_slice(format!("Content-Length: {}\r\n", content.len()).as_bytes());
    }
    FieldSpec { hdrs, content, name }
}

fn rand_pendings(rng: &mut Rng) -> usize {
    match rng.below(8) {
        0..=2 => 0,
        3..=4 => 1,
        5 => 2,
        _ => 3,
    }
}

/// random segmentation: cuts, Pendings, sometimes empty chunks (also long runs of them)
fn rand_script(rng: &mut Rng, body: &[u8]) -> Vec<Tok> {
    let style = rng.below(10);
    let ncuts = match style {
        0 => 0,
        1..=5 => rng.range(1, 4),
        6..=7 => rng.range(4, 12),
        8 => body.len() / 3,
        _ => body.len(),
    };
    let mut cuts = Vec::new();
    // prefer cuts near CR / '-' (the look-ahead window)
    let hot: Vec<usize> = (0..body.len()).filter(|i| body[*i] == b'\r' || body[*i] == b'-' || body[*i] == b'\n').collect();
    for _ in 0..ncuts {
        if !hot.is_empty() && rng.chance(2, 3) {
            let h = *rng.pick(&hot);
            cuts.push((h + rng.below(6)).saturating_sub(1));
        } else {
            cuts.push(rng.below(body.len() + 1));
        }
    }
    let fixed_p = if rng.chance(1, 3) { Some(rng.below(4)) } else { None };
    let mut script = cut_script(body, &cuts, |_| fixed_p.unwrap_or_else(|| rand_pendings(rng)));
    // empty chunks
    if rng.chance(1, 6) {
        let k = rng.below(script.len() + 1);
        let n = *rng.pick(&[1usize, 2, 15, 16, 17, 33]);
        let mut ins = Vec::new();
        if rng.chance(1, 2) {
            ins.push(Tok::Pending);
            ins.push(Tok::Pending);
        }
        for _ in 0..n {
            ins.push(Tok::Chunk(vec![]));
        }
        script.splice(k..k, ins);
    }
    script
}

/// look-ahead needed by the parser for this body: longest header block, boundary line
fn need_of(b: &[u8], fields: &[FieldSpec]) -> usize {
    fields.iter().map(|f| f.hdrs.len() + 4).max().unwrap_or(0).max(b.len() + 8)
}

fn hand_bodies() -> Vec<(Vec<u8>, bool, Vec<FieldSpec>, Vec<u8>, Vec<u8>)> {
    let f = |h: &str, c: &[u8], n: Option<&str>| FieldSpec { hdrs: h.as_bytes().to_vec(), content: c.to_vec(), name: n.map(|x| x.as_bytes().to_vec()) };
    let ct = "Content-Type: text/plain\r\n";
    vec![
        (b"XB".to_vec(), false, vec![f(ct, b"data", None)], vec![], vec![]),
        (b"XB".to_vec(), false, vec![f(ct, b"", None), f("", b"x", None)], vec![], vec![]),
        (b"XB".to_vec(), false, vec![f(ct, b"a\r", None), f(ct, b"b\r\n", None), f(ct, b"c--", None)], vec![], vec![]),
        (b"XB".to_vec(), false, vec![f(ct, b"a\r\n--", None), f(ct, b"\r\n--X", None), f(ct, b"\r\n--XC\r\n--", None)], vec![], vec![]),
        (b"XB".to_vec(), false, vec![f("", b"foo\r--XB bar", None), f("", b"--XB--", None)], b"pre\r\nam--XB\r\n".to_vec(), b"epilogue".to_vec()),
        (b"-".to_vec(), false, vec![f(ct, b"\r\n--", None), f(ct, b"--\r\n-", None)], vec![], vec![]),
        (b"XB".to_vec(), true, vec![f("Content-Disposition: form-data; name=\"a\"\r\n", b"1\r\n2", Some("a")), f("content-disposition: form-data; name=b\r\nContent-Length: 10\r\n", b"x\r\n--XB\r\ny", Some("b"))], vec![], vec![]),
        (b"XB".to_vec(), false, vec![f("Content-Length: 0\r\n", b"", None), f("Content-Length: 3\r\n", b"\r\n\r", None)], vec![], vec![]),
        (b"XB".to_vec(), false, vec![], vec![], vec![]),
    ]
}

fn gen(ctx: &Ctx) -> Vec<String> {
    let mut rng = Rng::new(ctx.seed);
    let mut cases: Vec<String> = Vec::new();
    let thorough = ctx.tier != Tier::Quick;

    // (B) hand-picked short bodies: every single cut x {0,1,3} Pendings; every truncation point
    for (b, form, fields, pre, epi) in hand_bodies() {
        let body = build_body(&b, &fields, &pre, &epi);
        cases.push(mk_case(&b, form, 0, &[], Some(&fields), false, &[Tok::Chunk(body.clone())]));
        for cut in 1..body.len() {
            for k in [0usize, 1, 3] {
                cases.push(mk_case(&b, form, 0, &[], Some(&fields), false, &cut_script(&body, &[cut], |_| k)));
            }
            // two cuts enclosing 1..4 bytes (a chunk entirely inside the look-ahead window)
            if thorough || cut % 2 == 0 {
                let w = 1 + cut % 4;
                cases.push(mk_case(&b, form, 0, &[], Some(&fields), false, &cut_script(&body, &[cut, cut + w], |_| 3)));
            }
        }
        let end_of_structure = body.len() - epi.len();
        for t in 0..end_of_structure.saturating_sub(2) {
            // truncated before the end of the final delimiter line: an error is required
            let tb = &body[..t];
            cases.push(mk_case(&b, form, 0, &[], Some(&fields), true, &[Tok::Chunk(tb.to_vec())]));
            if t > 3 {
                cases.push(mk_case(&b, form, 0, &[], Some(&fields), true, &cut_script(tb, &[t - 1 - t % 3], |_| 1 + t % 3)));
            }
        }
        // byte-wise with a Pending before every byte
        cases.push(mk_case(&b, form, 0, &[], Some(&fields), false, &cut_script(&body, &(1..body.len()).collect::<Vec<_>>(), |_| 1)));
    }

    // (A) structured random bodies
    for _ in 0..ctx.budget(9000) {
        let b = rng.pick(BOUNDARIES).as_bytes().to_vec();
        let form = rng.chance(1, 4);
        let nf = match rng.below(10) {
            0 => 0,
            1..=5 => 1,
            6..=7 => 2,
            8 => 3,
            _ => rng.range(3, 5),
        };
        let fields: Vec<FieldSpec> = (0..nf)
            .map(|i| {
                let mut f = rand_field(&mut rng, &b, form, i);
                if !form && f.hdrs.is_empty() && rng.chance(1, 2) {
                    f.hdrs = b"Content-Type: text/plain\r\n".to_vec();
                }
                f
            })
            .collect();
        let pre: Vec<u8> = match rng.below(6) {
            0 => b"This is the preamble.\r\n".to_vec(),
            1 => [b"--".as_slice(), &b, b"x\r\nline\n--", &b, b"\n"].concat(),
            2 => b"\r\n".to_vec(),
            _ => vec![],
        };
        let epi: Vec<u8> = if rng.chance(1, 4) { b"epilogue\r\n--".to_vec() } else { vec![] };
        let body = build_body(&b, &fields, &pre, &epi);
        let script = rand_script(&mut rng, &body);
        let plan: Vec<Plan> = if rng.chance(1, 5) {
            (0..rng.range(1, 3)).map(|_| if rng.chance(1, 2) { Plan::DropAfter(rng.below(3)) } else { Plan::Read }).collect()
        } else {
            vec![]
        };
        let need = need_of(&b, &fields).max(pre.len());
        let lim = if rng.chance(1, 5) {
            *rng.pick(&[1usize, 2, 5, need.saturating_sub(1).max(1), need, need + 1, need + 7, 2 * need])
        } else {
            0
        };
        cases.push(mk_case(&b, form, lim, &plan, Some(&fields), false, &script));

        // derived damaged variants of the same body
        match rng.below(12) {
            0 => {
                // truncation at a random point inside the structure
                let t = rng.below(body.len() - epi.len() - 2);
                let script = rand_script(&mut rng, &body[..t]);
                cases.push(mk_case(&b, form, lim, &plan, Some(&fields), true, &script));
            }
            1 => {
                // stream error somewhere
                let mut script = script.clone();
                let k = rng.below(script.len() + 1);
                script.insert(k, Tok::Err);
                cases.push(mk_case(&b, form, 0, &plan, Some(&fields), false, &script));
            }
            2 if nf > 1 => {
                // a delimiter followed by junk: `--B` + junk in front of field j ≥ 1; fields before j are intact
                let j = rng.range(1, nf - 1);
                let bad = build_body_junk(&b, &fields, &pre, &epi, Some(j));
                let script = rand_script(&mut rng, &bad);
                cases.push(mk_case(&b, form, 0, &[], Some(&fields[..j]), true, &script).replace(" | ", " nv=1 | "));
            }
            3 => {
                // per-part Content-Length that lies (no ground-truth verdict: by design the length wins)
                let mut fs = fields.clone();
                if let Some(f) = fs.first_mut() {
                    let lie = match rng.below(3) {
                        0 => f.content.len().saturating_sub(1 + rng.below(3)),
                        1 => f.content.len() + 1 + rng.below(40),
                        _ => 1 << 40,
                    };
                    f.hdrs = format!("Content-Length: {}\r\n", lie).into_bytes();
                    if form {
                        f.hdrs.extend_from_slice(b"Content-Disposition: form-data; name=\"l\"\r\n");
                    }
                    let body = build_body(&b, &fs, &pre, &epi);
                    let script = rand_script(&mut rng, &body);
                    cases.push(mk_case(&b, form, 0, &plan, None, false, &script));
                }
            }
            4 => {
                // broken header blocks / header-level rejections
                let bad: &[u8] = *rng.pick(&[
                    b"no colon here\r\n".as_slice(),
                    b": empty name\r\n",
                    b"Bad Name: x\r\n",
                    b"X: a\rb\r\n",
                    b"X: a\x01b\r\n",
                    b" folded: x\r\n",
                    b"Content-Type: multipart/mixed; boundary=zz\r\n",
                    b"Content-Length: abc\r\n",
                    b"Content-Length: 18446744073709551616\r\n",
                    b"Content-Disposition: attachment; name=\"x\"\r\n",
                    b"Content-Disposition: form-data\r\n",
                    b"Content-Disposition: form-data; name\r\n",
                ]);
                let mut fs = fields.clone();
                let at = rng.below(fs.len() + 1);
                fs.insert(at.min(fs.len()), FieldSpec { hdrs: bad.to_vec(), content: b"zz".to_vec(), name: None });
                let body = build_body(&b, &fs, &pre, &epi);
                let script = rand_script(&mut rng, &body);
                // verdict only on the fields in front of the bad part
                cases.push(mk_case(&b, form, 0, &[], Some(&fs[..at.min(fs.len() - 1)]), false, &script).replace(" | ", " nv=1 | "));
            }
            5 => {
                // too many header fields
                let n = *rng.pick(&[31usize, 32, 33, 40]);
                let mut h = Vec::new();
                for i in 0..n {
                    h.extend_from_slice(format!("x-h{}: {}\r\n", i, i).as_bytes());
                }
                let fs = vec![FieldSpec { hdrs: h, content: b"many".to_vec(), name: None }];
                let body = build_body(&b, &fs, &[], &[]);
                let script = rand_script(&mut rng, &body);
                cases.push(mk_case(&b, false, 0, &[], if n <= 32 { Some(&fs) } else { None }, false, &script));
            }
            _ => {}
        }
    }

    // (H) larger contents: default limit with big chunks, small limits, many small chunks (budget)
    for i in 0..ctx.budget(24) {
        let b = b"XB".to_vec();
        let n = *rng.pick(&[300usize, 1000, 5000, 70_000]);
        let mut content: Vec<u8> = (0..n).map(|j| if (j + i) % 97 == 0 { b'\r' } else if j % 89 == 1 { b'-' } else { b'a' + (j % 26) as u8 }).collect();
        if rng.chance(1, 2) {
            let k = rng.below(content.len());
            content.splice(k..k, b"\r\n--X".iter().copied());
        }
        let fields = vec![FieldSpec { hdrs: b"Content-Type: text/plain\r\n".to_vec(), content, name: None }, FieldSpec { hdrs: vec![], content: b"tail".to_vec(), name: None }];
        let body = build_body(&b, &fields, &[], &[]);
        let csz = *rng.pick(&[7usize, 10, 64, 1000, 8192, 66_000]);
        let cuts: Vec<usize> = (1..body.len() / csz + 1).map(|k| k * csz).collect();
        let every = rng.range(1, 40);
        let script = cut_script(&body, &cuts, |i| if i % every == 0 { 1 } else { 0 });
        let lim = if n <= 5000 { *rng.pick(&[0usize, 64, 100, 257]) } else { 0 };
        let plan = if rng.chance(1, 3) { vec![Plan::DropAfter(1)] } else { vec![] };
        cases.push(mk_case(&b, false, lim, &plan, Some(&fields), false, &script));
    }
    cases
}

pub fn prop() -> Prop {
    Prop { rule: RULE, parallel: true, gen: Box::new(gen), run: Box::new(run) }
}
