//! C16 — static files stay inside their root and answer ranges exactly. Public API only:
//! `PathBufWrap::parse_path` directly, and `Files::new("/", root)` behind `actix_web::test`
//! on a temp tree with canary files outside the root.
//!
//! Case lines (same grammar as `lean/ActixModel/Drv/C16.lean`):
//!   P h=<0|1> p=<hex utf-8>
//!   S c=<flags|-> m=<METHOD> u=<uri path> [r=<hex Range value>] [im=<tags>] [inm=<tags>] [ius=<off|bad>] [ims=<off|bad>]
use std::{
    cell::RefCell,
    fs,
    path::{Component, Path, PathBuf},
    pin::Pin,
    sync::atomic::{AtomicUsize, Ordering},
    time::{Duration, UNIX_EPOCH},
};

use actix_files::{Files, PathBufWrap, UriSegmentError};
use actix_service::Service;
use actix_web::{
    body::{BodySize, MessageBody},
    http::header::{self, HeaderName, HeaderValue, HttpDate},
    http::{Method, StatusCode},
    test::{self, TestRequest},
    App,
};

use super::Prop;
use crate::common::{hex, hex0, kv, unhex, CaseResult, Ctx, Rng, Tier};

const RULE: &str = "cases = (P) PathBufWrap::parse_path on every token sequence up to the tier's depth over \
{a, ., .., /, %2e, %2f, %5c, %00, NUL, é, *, :, <, >, \\, %, .h, space} for both hidden-file settings plus seeded longer \
sequences over a wider alphabet; (S) one request to Files::new(\"/\", root) on a temp tree (26 entries, canary files outside \
the root): URL paths from dot segments, encoded dots/slashes/backslashes/NUL/UTF-8/invalid UTF-8, double encodings and names \
of real files × config flags (hidden, index, listing, redirect), every Range shape (first-last, first-, -suffix, multiple, \
whitespace, malformed, overflowing) × boundary numbers × file lengths {0,1,10,65536,65537,70000}, and If-Match / \
If-None-Match / If-(Un)Modified-Since combinations; (T) NamedFile::open + into_response with the file truncated before the body is read; a case is non-trivial if parse_path returned a non-empty path or the \
service answered with file bytes, a listing, a redirect, 304, 412 or 416; distinct = distinct (case, output) hashes";

/// (relative path, file id (0 = directory), length)
const TREE: &[(&str, usize, usize)] = &[
    ("f0", 1, 0),
    ("f1", 2, 1),
    ("f10", 3, 10),
    ("big.bin", 4, 70000),
    ("index.html", 5, 20),
    ("a", 0, 0),
    ("a/x.txt", 6, 5),
    ("a/b", 0, 0),
    ("a/b/y.txt", 7, 7),
    ("a/index.html", 8, 12),
    ("c", 0, 0),
    ("c/z", 9, 3),
    (".hid", 10, 4),
    (".hd", 0, 0),
    (".hd/h.txt", 11, 6),
    ("sp ce", 12, 8),
    ("é.txt", 13, 9),
    ("b\\s", 14, 11),
    ("%2e", 15, 13),
    ("...", 16, 14),
    ("x:y", 17, 15),
    ("d+e", 18, 17),
    ("q?x", 19, 18),
    ("e", 0, 0),
    ("k64.bin", 20, 65536),
    ("k64p.bin", 21, 65537),
];
/// files *outside* the served root: `<tmp>/canary.txt`, `<tmp>/root2/f10`
const OUTSIDE: &[(&str, usize, usize)] = &[("canary.txt", 90, 16), ("root2/f10", 91, 10), ("root2/canary.txt", 92, 16)];

const T0: u64 = 1_600_000_000;

/// pseudo-random but reproducible file content (same formula in Drv/C16.lean); different ids
/// give unrelated byte sequences, so that a body identifies the file it came from
fn content(id: usize, len: usize) -> Vec<u8> {
    (0..len)
        .map(|i| {
            let x = ((i as u64 + 1) * 2654435761 + id as u64 * 1013904223) % 4294967296;
            let x = x ^ (x >> 15);
            let x = (x * 2246822519) % 4294967296;
            (x >> 24) as u8
        })
        .collect()
}

fn cksum(b: &[u8]) -> u64 {
    b.iter().fold(0u64, |acc, &x| (acc * 31 + x as u64 + 1) % 4294967296)
}

struct TempTree {
    base: PathBuf,
    root: PathBuf,
}

static TREE_SEQ: AtomicUsize = AtomicUsize::new(0);

impl TempTree {
    fn new() -> TempTree {
        let n = TREE_SEQ.fetch_add(1, Ordering::SeqCst);
        // remove trees left behind by a run that was killed (owner pid no longer alive)
        static STALE: std::sync::Once = std::sync::Once::new();
        STALE.call_once(|| {
            if let Ok(rd) = fs::read_dir(std::env::temp_dir()) {
                for e in rd.flatten() {
                    let name = e.file_name().to_string_lossy().into_owned();
                    if let Some(rest) = name.strip_prefix("vh-c16-") {
                        let pid = rest.split('-').next().unwrap_or("");
                        if !pid.is_empty() && pid.bytes().all(|b| b.is_ascii_digit()) && !Path::new("/proc").join(pid).exists() {
                            let _ = fs::remove_dir_all(e.path());
                        }
                    }
                }
            }
        });
        let base = std::env::temp_dir().join(format!("vh-c16-{}-{}", std::process::id(), n));
        let _ = fs::remove_dir_all(&base);
        let root = base.join("root");
        fs::create_dir_all(&root).unwrap();
        let mtime = UNIX_EPOCH + Duration::from_millis(T0 * 1000 + 500);
        let put = |p: PathBuf, id: usize, len: usize| {
            if id == 0 {
                fs::create_dir_all(&p).unwrap();
            } else {
                if let Some(d) = p.parent() {
                    fs::create_dir_all(d).unwrap();
                }
                fs::write(&p, content(id, len)).unwrap();
                let f = fs::OpenOptions::new().write(true).open(&p).unwrap();
                f.set_modified(mtime).unwrap();
            }
        };
        for &(p, id, len) in TREE {
            put(root.join(p), id, len);
        }
        for &(p, id, len) in OUTSIDE {
            put(base.join(p), id, len);
        }
        TempTree { base, root }
    }
}

impl Drop for TempTree {
    fn drop(&mut self) {
        let _ = fs::remove_dir_all(&self.base);
    }
}

thread_local! {
    /// one read-only tree per worker thread; removed when the thread exits
    static TREE_TL: RefCell<Option<TempTree>> = const { RefCell::new(None) };
}

fn with_tree<R>(f: impl FnOnce(&TempTree) -> R) -> R {
    TREE_TL.with(|t| {
        let mut t = t.borrow_mut();
        if t.is_none() {
            *t = Some(TempTree::new());
        }
        f(t.as_ref().unwrap())
    })
}

// ---------------------------------------------------------------------------------------------
// P: parse_path

fn show_err(e: &UriSegmentError) -> String {
    match e {
        UriSegmentError::BadStart(c) => format!("BadStart({:02x})", *c as u32),
        UriSegmentError::BadChar(c) => format!("BadChar({:02x})", *c as u32),
        UriSegmentError::BadEnd(c) => format!("BadEnd({:02x})", *c as u32),
        UriSegmentError::NotValidUtf8 => "NotValidUtf8".into(),
        _ => "Other".into(),
    }
}

/// the property's own words on a parse result, using std's component parser and a lexical
/// resolution written here (no model): joined onto a root the path has only `Normal`
/// components below the root and resolves to a location under it
fn escape_check(rel: &Path) -> Option<String> {
    let root = Path::new("/srv/root");
    let full = root.join(rel);
    if !full.starts_with(root) {
        return Some(format!("join({:?}) does not start with the root", rel));
    }
    let mut depth: i64 = 0;
    for c in rel.components() {
        match c {
            Component::Normal(s) => {
                let b = s.as_encoded_bytes();
                if b.is_empty() || b == b"." || b == b".." || b.contains(&b'/') {
                    return Some(format!("bad normal component {:?}", s));
                }
                depth += 1;
            }
            Component::ParentDir => {
                depth -= 1;
                if depth < 0 {
                    return Some(format!("{:?} climbs above the root", rel));
                }
                return Some(format!("{:?} contains a parent-dir component", rel));
            }
            Component::RootDir | Component::Prefix(_) => return Some(format!("{:?} is absolute", rel)),
            Component::CurDir => return Some(format!("{:?} contains a cur-dir component", rel)),
        }
    }
    // lexical resolution of the raw string as the OS would walk it
    let mut stack: Vec<&[u8]> = vec![b"srv", b"root"];
    for piece in rel.as_os_str().as_encoded_bytes().split(|b| *b == b'/') {
        match piece {
            b"" | b"." => {}
            b".." => {
                stack.pop();
            }
            p => stack.push(p),
        }
        if stack.len() < 2 || stack[0] != b"srv" || stack[1] != b"root" {
            return Some(format!("{:?} walks out of the root", rel));
        }
    }
    None
}

fn run_p(line: &str) -> CaseResult {
    let hidden = kv(line, "h") == Some("1");
    let Some(p) = kv(line, "p").and_then(unhex) else { return CaseResult::ok("badcase".into()).tag("badcase") };
    let Ok(s) = String::from_utf8(p) else {
        let mut r = CaseResult::ok("badcase".into()).tag("badcase");
        r.nontrivial = false;
        return r;
    };
    match PathBufWrap::parse_path(&s, hidden) {
        Ok(w) => {
            let path: &Path = w.as_ref();
            let bytes = path.as_os_str().as_encoded_bytes();
            let mut r = CaseResult::ok(format!("ok {}", hex(bytes))).tag("P:ok");
            r.nontrivial = !bytes.is_empty();
            if let Some(why) = escape_check(path) {
                r = r.fail("path-escape", why);
            }
            r
        }
        Err(e) => {
            let mut r = CaseResult::ok(format!("err {}", show_err(&e))).tag(&format!("P:{}", show_err(&e)));
            r.nontrivial = false;
            r
        }
    }
}

// ---------------------------------------------------------------------------------------------
// S: one request through the service

fn tags_header(v: &str, etag: &str) -> Option<HeaderValue> {
    if v == "nonstr" {
        return HeaderValue::from_bytes(b"\"a\xffb\"").ok();
    }
    let mut parts = Vec::new();
    for t in v.split(',') {
        parts.push(match t {
            "E" => format!("\"{}\"", etag),
            "W" => format!("W/\"{}\"", etag),
            "X" => "\"xyz\"".to_owned(),
            "V" => "W/\"xyz\"".to_owned(),
            "bad" => "garbage".to_owned(),
            "*" => "*".to_owned(),
            _ => return None,
        });
    }
    HeaderValue::from_str(&parts.join(", ")).ok()
}

fn date_header(v: &str) -> Option<HeaderValue> {
    if v == "bad" {
        return Some(HeaderValue::from_static("yesterday"));
    }
    let secs = if let Some(n) = v.strip_prefix('-') {
        T0.checked_sub(n.parse().ok()?)?
    } else if let Some(n) = v.strip_prefix('+') {
        T0 + n.parse::<u64>().ok()?
    } else {
        T0 + v.parse::<u64>().ok()?
    };
    let d = HttpDate::from(UNIX_EPOCH + Duration::from_secs(secs));
    HeaderValue::from_str(&d.to_string()).ok()
}

struct Answer {
    status: StatusCode,
    headers: header::HeaderMap,
    size: BodySize,
    body: Vec<u8>,
    chunks: Vec<usize>,
    body_err: bool,
}

fn build_files(root: &Path, flags: &str) -> Files {
    let mut f = Files::new(if flags.contains('m') { "/s" } else { "/" }, root);
    for c in flags.chars() {
        f = match c {
            'h' => f.use_hidden_files(),
            'i' => f.index_file("index.html"),
            'l' => f.show_files_listing(),
            'r' => f.redirect_to_slash_directory(),
            'E' => f.use_etag(false),
            'M' => f.use_last_modified(false),
            's' => f.read_mode_threshold(u64::MAX),
            _ => f,
        };
    }
    f
}

async fn ask(root: &Path, flags: &str, method: &Method, uri: &str, hdrs: &[(HeaderName, HeaderValue)]) -> Result<Answer, String> {
    let srv = test::init_service(App::new().service(build_files(root, flags))).await;
    let mut req = TestRequest::default().method(method.clone()).uri(uri);
    for (n, v) in hdrs {
        req = req.insert_header((n.clone(), v.clone()));
    }
    let res = srv.call(req.to_request()).await.map_err(|e| format!("{e}"))?;
    let status = res.status();
    let headers = res.headers().clone();
    let mut body = res.into_body();
    let size = body.size();
    let mut data = Vec::new();
    let mut chunks = Vec::new();
    let mut body_err = false;
    loop {
        match std::future::poll_fn(|cx| Pin::new(&mut body).poll_next(cx)).await {
            Some(Ok(b)) => {
                chunks.push(b.len());
                data.extend_from_slice(&b);
            }
            Some(Err(_)) => {
                body_err = true;
                break;
            }
            None => break,
        }
    }
    Ok(Answer { status, headers, size, body: data, chunks, body_err })
}

fn hv(a: &Answer, n: HeaderName) -> Option<String> {
    a.headers.get(n).map(|v| String::from_utf8_lossy(v.as_bytes()).into_owned())
}

/// `bytes a-b/t` → (a, b, t)
fn parse_content_range(s: &str) -> Option<(u64, u64, u64)> {
    let rest = s.strip_prefix("bytes ")?;
    let (range, total) = rest.split_once('/')?;
    let (a, b) = range.split_once('-')?;
    let num = |x: &str| if !x.is_empty() && x.bytes().all(|c| c.is_ascii_digit()) { x.parse::<u64>().ok() } else { None };
    Some((num(a)?, num(b)?, num(total)?))
}

/// RFC 7233 reading of a Range value written in the canonical grammar (no whitespace, numbers
/// that fit u64): the satisfiable ranges, clamped to the representation; `None` = not canonical
fn rfc_ranges(value: &[u8], len: u64) -> Option<Vec<(u64, u64)>> {
    let s = std::str::from_utf8(value).ok()?;
    let set = s.strip_prefix("bytes=")?;
    let mut out = Vec::new();
    let mut specs = 0;
    for spec in set.split(',') {
        let (a, b) = spec.split_once('-')?;
        let num = |x: &str| if !x.is_empty() && x.len() <= 19 && x.bytes().all(|c| c.is_ascii_digit()) { x.parse::<u64>().ok() } else { None };
        specs += 1;
        if a.is_empty() {
            let n = num(b)?;
            if n > 0 && len > 0 {
                out.push((len - n.min(len), len - 1));
            }
        } else {
            let first = num(a)?;
            let last = if b.is_empty() { u64::MAX } else { num(b)? };
            if last < first {
                return None; // invalid spec: the whole header may be ignored or rejected
            }
            if first < len {
                out.push((first, last.min(len - 1)));
            }
        }
    }
    if specs == 0 {
        return None;
    }
    Some(out)
}

fn err_class(body: &[u8]) -> String {
    let s = String::from_utf8_lossy(body);
    let ch = |s: &str| -> String {
        // "...: ('x')" or "... ('x')"
        let c = s.rsplit_once("('").and_then(|(_, r)| r.chars().next()).unwrap_or('?');
        format!("{:02x}", c as u32)
    };
    if s.is_empty() {
        "-".into()
    } else if s.starts_with("segment started with invalid character") {
        format!("BadStart({})", ch(&s))
    } else if s.starts_with("segment contained invalid character") {
        format!("BadChar({})", ch(&s))
    } else if s.starts_with("segment ended with invalid character") {
        format!("BadEnd({})", ch(&s))
    } else if s.starts_with("path is not a valid UTF-8 string") {
        "NotValidUtf8".into()
    } else if s.starts_with("unable to render directory without index file") {
        "IsDirectory".into()
    } else if s.starts_with("Request did not meet this resource's requirements.") {
        "MethodNotAllowed".into()
    } else {
        format!("other:{}", hex0(&body[..body.len().min(40)]))
    }
}

fn uri_ok(u: &str) -> bool {
    u.starts_with('/')
        && u.bytes().all(|b| {
            matches!(b, 0x21 | 0x24..=0x3B | 0x3D | 0x40..=0x5F | 0x61..=0x7A | 0x7C | 0x7E | b'"' | b'{' | b'}')
        })
}

fn run_s(line: &str) -> CaseResult {
    let flags = kv(line, "c").unwrap_or("-").to_owned();
    let method_s = kv(line, "m").unwrap_or("GET");
    let Some(uri) = kv(line, "u") else { return CaseResult::ok("badcase".into()) };
    if !uri_ok(uri) || uri.parse::<actix_web::http::Uri>().is_err() {
        let mut r = CaseResult::ok("baduri".into()).tag("baduri");
        r.nontrivial = false;
        return r;
    }
    let Ok(method) = Method::from_bytes(method_s.as_bytes()) else { return CaseResult::ok("badcase".into()) };
    let range: Option<Vec<u8>> = match kv(line, "r") {
        None => None,
        Some(h) => match unhex(h) {
            Some(b) => Some(b),
            None => return CaseResult::ok("badcase".into()),
        },
    };
    let bad = || {
        let mut r = CaseResult::ok("badcase".into()).tag("badcase");
        r.nontrivial = false;
        r
    };
    let im = kv(line, "im");
    let inm = kv(line, "inm");
    let ius = kv(line, "ius");
    let ims = kv(line, "ims");

    with_tree(|tree| {
        crate::common::block_on_system(async {
            // the file's own entity tag, needed to write matching If-Match / If-None-Match values
            let needs_etag = |v: Option<&str>| v.map(|s| s.split(',').any(|t| t == "E" || t == "W")).unwrap_or(false);
            let mut etag = "noetag".to_owned();
            if needs_etag(im) || needs_etag(inm) {
                let fl: String = flags.chars().filter(|c| *c != 'E').collect();
                if let Ok(a) = ask(&tree.root, &fl, &Method::GET, uri, &[]).await {
                    if let Some(e) = hv(&a, header::ETAG) {
                        if !flags.contains('E') {
                            etag = e.trim_matches('"').to_owned();
                        }
                    }
                }
            }
            let mut hdrs: Vec<(HeaderName, HeaderValue)> = Vec::new();
            if let Some(r) = &range {
                match HeaderValue::from_bytes(r) {
                    Ok(v) => hdrs.push((header::RANGE, v)),
                    Err(_) => return bad(),
                }
            }
            for (name, v) in [(header::IF_MATCH, im), (header::IF_NONE_MATCH, inm)] {
                if let Some(v) = v {
                    match tags_header(v, &etag) {
                        Some(h) => hdrs.push((name, h)),
                        None => return bad(),
                    }
                }
            }
            for (name, v) in [(header::IF_UNMODIFIED_SINCE, ius), (header::IF_MODIFIED_SINCE, ims)] {
                if let Some(v) = v {
                    match date_header(v) {
                        Some(h) => hdrs.push((name, h)),
                        None => return bad(),
                    }
                }
            }
            let a = match ask(&tree.root, &flags, &method, uri, &hdrs).await {
                Ok(a) => a,
                Err(e) => return CaseResult::ok("svcerr".into()).fail("service-error", e),
            };
            judge(line, &a, range.as_deref(), im.is_some() || inm.is_some() || ius.is_some() || ims.is_some())
        })
    })
}

/// canonical output + the property's own words on the answer (no model involved)
fn judge(_line: &str, a: &Answer, range: Option<&[u8]>, conditional: bool) -> CaseResult {
    let st = a.status.as_u16();
    let ct = hv(a, header::CONTENT_TYPE).unwrap_or_default();
    let is_listing = st == 200 && ct.starts_with("text/html") && a.body.starts_with(b"<html><head><title>Index of ");
    let cr = hv(a, header::CONTENT_RANGE);
    let file_like = !is_listing && (matches!(st, 200 | 206 | 304 | 412 | 416) || (st == 400 && a.body.is_empty()));

    let mut fails: Vec<(String, String)> = Vec::new();
    let mut fail = |sig: &str, d: String| fails.push((sig.to_owned(), d));

    let output = if is_listing {
        let n = a.body.windows(4).filter(|w| w == b"<li>").count();
        format!("200 e=listing:{} cr=- sz=-", n)
    } else if file_like {
        let sz = match a.size {
            BodySize::None => "none".to_owned(),
            BodySize::Sized(n) => n.to_string(),
            BodySize::Stream => "stream".to_owned(),
        };
        let ch = if a.chunks.is_empty() { "-".to_owned() } else { a.chunks.iter().map(|c| c.to_string()).collect::<Vec<_>>().join("+") };
        format!(
            "{} e=- cr={} sz={} body={}:{} ch={}{}",
            st,
            cr.as_deref().map(|s| s.replace(' ', "_")).unwrap_or_else(|| "-".into()),
            sz,
            a.body.len(),
            cksum(&a.body),
            ch,
            if a.body_err { " bodyerr" } else { "" }
        )
    } else if st == 307 || st == 308 {
        let loc = a.headers.get(header::LOCATION).map(|v| hex0(v.as_bytes())).unwrap_or_default();
        format!("{} e=redirect:{} cr=- sz=-", st, loc)
    } else {
        format!("{} e={} cr=- sz=-", st, err_class(&a.body))
    };

    // ---- oracle -------------------------------------------------------------------------------
    let inside: Vec<(usize, Vec<u8>)> = TREE.iter().filter(|e| e.1 != 0).map(|e| (e.1, content(e.1, e.2))).collect();
    let outside: Vec<(usize, Vec<u8>)> = OUTSIDE.iter().map(|e| (e.1, content(e.1, e.2))).collect();
    if !matches!(st, 200 | 206 | 304 | 307 | 400 | 404 | 405 | 412 | 416) {
        fail("unexpected-status", format!("status {}", st));
    }
    if a.body_err {
        fail("body-stream-error", "the body stream ended with an error".into());
    }
    // bytes of a file outside the root must never appear in any answer
    for (id, c) in &outside {
        let whole = !a.body.is_empty() && a.body == *c;
        let part = st == 206
            && cr.as_deref().and_then(parse_content_range).map(|(f, l, t)| {
                t == c.len() as u64 && f <= l && (l as usize) < c.len() && c[f as usize..=l as usize] == a.body[..]
            }).unwrap_or(false);
        if whole || part {
            fail("served-outside-root", format!("body equals bytes of outside file #{}", id));
        }
    }
    if file_like {
        match st {
            200 => {
                if !inside.iter().any(|(_, c)| *c == a.body) {
                    fail("body-not-a-root-file", format!("200 body of {} bytes is not the content of any file under the root", a.body.len()));
                }
                if a.size != BodySize::Sized(a.body.len() as u64) {
                    fail("length-mismatch", format!("declared {:?}, body {}", a.size, a.body.len()));
                }
                if cr.is_some() {
                    fail("content-range-on-200", format!("{:?}", cr));
                }
            }
            206 => match cr.as_deref().and_then(parse_content_range) {
                None => fail("content-range-malformed", format!("206 with Content-Range {:?}", cr)),
                Some((first, last, total)) => {
                    if !(first <= last && last < total) {
                        fail("impossible-range", format!("Content-Range {:?}", cr));
                    } else {
                        let want_len = (last - first + 1) as usize;
                        let hit = inside.iter().any(|(_, c)| {
                            c.len() as u64 == total && c[first as usize..=last as usize] == a.body[..]
                        });
                        if a.body.len() != want_len || !hit {
                            fail("range-body-mismatch", format!("Content-Range {:?}, body {} bytes, not file[{}..={}] of a {}-byte root file", cr, a.body.len(), first, last, total));
                        }
                        if a.size != BodySize::Sized(want_len as u64) {
                            fail("length-mismatch", format!("declared {:?}, range {} bytes", a.size, want_len));
                        }
                    }
                }
            },
            304 | 412 | 416 | 400 => {
                if !a.body.is_empty() {
                    fail("body-on-bodiless-status", format!("{} with {} body bytes", st, a.body.len()));
                }
                if st == 416 {
                    let ok = cr.as_deref().and_then(|s| s.strip_prefix("bytes */")).and_then(|t| t.parse::<u64>().ok())
                        .map(|t| inside.iter().any(|(_, c)| c.len() as u64 == t)).unwrap_or(false);
                    if !ok {
                        fail("content-range-malformed", format!("416 with Content-Range {:?}", cr));
                    }
                }
                if st == 400 {
                    // only a Range value that is not visible ASCII may be answered 400
                    let non_ascii = range.map(|r| r.iter().any(|b| !(*b == b'\t' || (0x20..0x7f).contains(b)))).unwrap_or(false);
                    if !non_ascii {
                        fail("unexpected-status", "400 for a request whose Range value is a plain string".into());
                    }
                }
            }
            _ => {}
        }
        // RFC 7233 reference for canonical Range values (only when no conditional header interferes)
        if let (Some(r), false) = (range, conditional) {
            let total = match st {
                200 => Some(a.body.len() as u64),
                206 => cr.as_deref().and_then(parse_content_range).map(|x| x.2),
                416 => cr.as_deref().and_then(|s| s.strip_prefix("bytes */")).and_then(|t| t.parse::<u64>().ok()),
                _ => None,
            };
            if let Some(total) = total {
                if let Some(sat) = rfc_ranges(r, total) {
                    match st {
                        206 => {
                            let got = cr.as_deref().and_then(parse_content_range).map(|x| (x.0, x.1));
                            if !got.map(|g| sat.contains(&g)).unwrap_or(false) {
                                fail("range-not-requested", format!("Content-Range {:?} is none of the requested satisfiable ranges {:?}", cr, sat));
                            }
                        }
                        416 => {
                            if !sat.is_empty() {
                                fail("satisfiable-range-refused", format!("416 although {:?} is satisfiable for length {}", sat, total));
                            }
                        }
                        200 => {
                            if total > 0 && !sat.is_empty() && sat != vec![(0, total - 1)] {
                                // ignoring Range is allowed by RFC 7233 but not by the model of this code
                                fail("range-ignored", format!("200 although {:?} was requested", sat));
                            }
                        }
                        _ => {}
                    }
                }
            }
        }
    }
    // RFC 7232 reference for the conditional headers (symbolic values, no model): 412 / 304 only
    // when a sent precondition is false, and a false precondition is not ignored
    if file_like && conditional {
        let flags = kv(_line, "c").unwrap_or("-");
        let (has_etag, has_lm) = (!flags.contains('E'), !flags.contains('M'));
        let toks = |k: &str| kv(_line, k).map(|v| v.split(',').collect::<Vec<_>>());
        let (im, inm) = (toks("im"), toks("inm"));
        let off = |k: &str| kv(_line, k).and_then(|v| v.trim_start_matches('+').parse::<i64>().ok());
        let unspecified = [&im, &inm].iter().any(|t| t.as_ref().map(|t| t.contains(&"nonstr")).unwrap_or(false));
        if !unspecified {
            let strong = |t: &Vec<&str>| t == &vec!["*"] || (has_etag && t.contains(&"E"));
            let weak = |t: &Vec<&str>| t == &vec!["*"] || (has_etag && (t.contains(&"E") || t.contains(&"W")));
            let im_fail = im.as_ref().map(|t| !strong(t)).unwrap_or(false);
            let ius_fail = has_lm && off("ius").map(|d| d < 0).unwrap_or(false);
            let cond304 = match &inm {
                Some(t) => weak(t),
                None => has_lm && off("ims").map(|d| d >= 0).unwrap_or(false),
            };
            if st == 412 && !(im_fail || ius_fail) {
                fail("412-without-failed-precondition", format!("{}", _line));
            }
            if st == 304 && !cond304 {
                fail("304-without-matching-validator", format!("{}", _line));
            }
            if im_fail && matches!(st, 200 | 206 | 304) {
                fail("if-match-ignored", format!("status {} although If-Match does not match", st));
            }
            if cond304 && !(im_fail || ius_fail) && matches!(st, 200 | 206) {
                fail("not-modified-ignored", format!("status {} although the validator matches", st));
            }
        }
    } else if file_like && matches!(st, 304 | 412) {
        fail("conditional-status-without-conditional-header", format!("status {}", st));
    }
    let mut r = CaseResult::ok(output);
    r.nontrivial = is_listing || matches!(st, 200 | 206 | 304 | 307 | 412 | 416);
    r.tags.push(format!("S:{}", st));
    if is_listing {
        r.tags.push("S:listing".into());
    }
    if range.is_some() {
        r.tags.push("S:range".into());
    }
    if conditional {
        r.tags.push("S:conditional".into());
    }
    r.fail = fails.into_iter().next();
    r
}

/// `T len=<n> cut=<k> [r=<hex>]`: the file shrinks between `into_response` and the body read
fn run_t(line: &str) -> CaseResult {
    let bad = || {
        let mut r = CaseResult::ok("badcase".into()).tag("badcase");
        r.nontrivial = false;
        r
    };
    let len: usize = kv(line, "len").and_then(|v| v.parse().ok()).unwrap_or(0);
    let cut: usize = kv(line, "cut").and_then(|v| v.parse().ok()).unwrap_or(0);
    if len > 200000 || cut > len {
        return bad();
    }
    let range: Option<Vec<u8>> = match kv(line, "r") {
        None => None,
        Some(h) => match unhex(h) {
            Some(b) => Some(b),
            None => return bad(),
        },
    };
    let range_hv = match &range {
        Some(r) => match HeaderValue::from_bytes(r) {
            Ok(v) => Some(v),
            Err(_) => return bad(),
        },
        None => None,
    };
    let data = content(50, len);
    with_tree(|tree| {
        static SEQ: AtomicUsize = AtomicUsize::new(0);
        let path = tree.base.join(format!("t-{}.bin", SEQ.fetch_add(1, Ordering::SeqCst)));
        fs::write(&path, &data).unwrap();
        let a = crate::common::block_on_system(async {
            let mut req = TestRequest::default();
            if let Some(v) = &range_hv {
                req = req.insert_header((header::RANGE, v.clone()));
            }
            let req = req.to_http_request();
            let nf = actix_files::NamedFile::open(&path).unwrap();
            let res = nf.into_response(&req);
            fs::OpenOptions::new().write(true).open(&path).unwrap().set_len(cut as u64).unwrap();
            let status = res.status();
            let headers = res.headers().clone();
            let mut body = res.into_body();
            let size = body.size();
            let mut got = Vec::new();
            let mut chunks = Vec::new();
            let mut body_err = false;
            loop {
                match std::future::poll_fn(|cx| Pin::new(&mut body).poll_next(cx)).await {
                    Some(Ok(b)) => {
                        chunks.push(b.len());
                        got.extend_from_slice(&b);
                    }
                    Some(Err(_)) => {
                        body_err = true;
                        break;
                    }
                    None => break,
                }
            }
            Answer { status, headers, size, body: got, chunks, body_err }
        });
        let _ = fs::remove_file(&path);
        let st = a.status.as_u16();
        let cr = hv(&a, header::CONTENT_RANGE);
        let sz = match a.size {
            BodySize::None => "none".to_owned(),
            BodySize::Sized(n) => n.to_string(),
            BodySize::Stream => "stream".to_owned(),
        };
        let ch = if a.chunks.is_empty() { "-".to_owned() } else { a.chunks.iter().map(|c| c.to_string()).collect::<Vec<_>>().join("+") };
        let out = format!(
            "{} e=- cr={} sz={} body={}:{} ch={}{}",
            st,
            cr.as_deref().map(|s| s.replace(' ', "_")).unwrap_or_else(|| "-".into()),
            sz,
            a.body.len(),
            cksum(&a.body),
            ch,
            if a.body_err { " bodyerr" } else { "" }
        );
        let mut r = CaseResult::ok(out).tag(&format!("T:{}", st));
        // the property's words: the announced window, or an error — never a silently short or wrong body
        let window = match st {
            200 => Some((0usize, len)),
            206 => cr.as_deref().and_then(parse_content_range).map(|(f, l, _)| (f as usize, l as usize + 1)),
            _ => None,
        };
        if let Some((from, to)) = window {
            if to > len || from > to {
                r = r.fail("impossible-range", format!("window {}..{} of {} bytes", from, to, len));
            } else if !data[from..to].starts_with(&a.body) {
                r = r.fail("range-body-mismatch", format!("body is not a prefix of file[{}..{}]", from, to));
            } else if a.body.len() < to - from && !a.body_err {
                r = r.fail("short-body-without-error", format!("{} of {} bytes and a clean end", a.body.len(), to - from));
            } else if a.body.len() == to - from && a.body_err {
                r = r.fail("body-stream-error", "complete body followed by an error".into());
            } else if to <= cut && a.body_err {
                r = r.fail("body-stream-error", "error although the window is inside the truncated file".into());
            }
            if a.body_err {
                r.tags.push("T:bodyerr".into());
            }
        }
        r
    })
}

fn run(line: &str) -> CaseResult {
    match line.split_ascii_whitespace().next() {
        Some("P") => run_p(line),
        Some("S") => run_s(line),
        Some("T") => run_t(line),
        _ => CaseResult::ok("badcase".into()),
    }
}

// ---------------------------------------------------------------------------------------------
// generator

const P_SMALL: &[&str] = &[
    "a", ".", "..", "/", "%2e", "%2f", "%5c", "%00", "\0", "é", "*", ":", "<", ">", "\\", "%", ".h", " ",
];
const P_WIDE: &[&str] = &[
    "a", "b", "seg1", ".", "..", "...", "/", "//", "%2e", "%2E", "%2f", "%2F", "%5c", "%5C", "%00", "\0", "é", "%c3%a9",
    "%c3", "%a9", "%ff", "*", ":", "<", ">", "\\", "%", "%2", "%g0", "%25", "%252e", "%252f", ".h", " ", "%20", "\u{202e}",
    "C:", "~", "-", "_", "%2e%2e", "..%2f", "%2e.", ".%2e", "etc/passwd", "\t", "\n", "%0a", "+", "%2b", "?", "#", "\u{10ffff}",
];

const S_TOKENS: &[&str] = &[
    "a", "b", "c", "e", "f0", "f1", "f10", "x.txt", "y.txt", "z", "index.html", "big.bin", ".", "..", "...", "/", "/", "/",
    "%2e", "%2E", "%2e%2e", ".%2e", "%2f", "%2F", "%5c", "\\", "%00", "%25", "%252e", "%252f", "%252e%252e", "%%32e", "%%32f",
    "%c3%a9.txt", "%c3", "%a9", "%ff", ".hid", ".hd", "h.txt", "sp%20ce", "b%5cs", "b\\s", "%252e", "x:y", "x%3ay", ":", "*",
    "%3c", "%3e", "%3a", "d+e", "d%2be", "q%3fx", "%2", "%", "%zz", "canary.txt", "root2", "root", "~", "%7e", "%61", "%41",
];
const S_SAFE_TOKENS: &[&str] = &["a", "b", "c", "e", "f10", "x.txt", "index.html", "/", "/", "..", ".hd", "nope"];

fn flags_pick(rng: &mut Rng, pool: &[char]) -> String {
    let mut s = String::new();
    for &c in pool {
        if rng.chance(1, 3) {
            s.push(c);
        }
    }
    if s.is_empty() {
        "-".into()
    } else {
        s
    }
}

fn enumerate_seq(tokens: &[&str], depth: usize, mut f: impl FnMut(&[usize])) {
    for d in 1..=depth {
        let mut idx = vec![0usize; d];
        'outer: loop {
            f(&idx);
            let mut k = d;
            loop {
                if k == 0 {
                    break 'outer;
                }
                k -= 1;
                idx[k] += 1;
                if idx[k] < tokens.len() {
                    break;
                }
                idx[k] = 0;
            }
        }
    }
}

fn range_numbers(len: u64) -> Vec<String> {
    let mut v: Vec<String> = vec![
        "0".into(),
        "1".into(),
        "2".into(),
        "5".into(),
        "9".into(),
        "007".into(),
        "65535".into(),
        "65536".into(),
        "69999".into(),
        "18446744073709551615".into(),
        "18446744073709551616".into(),
        "99999999999999999999999".into(),
    ];
    for d in [-1i64, 0, 1] {
        let n = len as i64 + d;
        if n >= 0 {
            v.push(n.to_string());
        }
    }
    v.sort();
    v.dedup();
    v
}

const RANGE_FILES: &[(&str, u64)] = &[("f0", 0), ("f1", 1), ("f10", 10), ("big.bin", 70000), ("k64.bin", 65536), ("k64p.bin", 65537)];

const MALFORMED_RANGES: &[&str] = &[
    "", "foo", "bytes=", "bytes", "bytes=7", "bytes= 7 ", "bytes=5-4", "bytes=--5", "bytes=--5,4--3", "bytes=A-", "bytes=A-Z",
    "bytes= -Z", "bytes=5-Z", "bytes=Ran-dom, garbage", "bytes=0x01-0x02", "bytes=         ", "bytes= , , ,   ", "Bytes=0-1",
    "bytes =0-1", " bytes=0-1", "bytes=0-1 ", "bytes=\t0 - 1\t", "bytes=0-1,", "bytes=,0-1", "bytes=0-1,,2-3", "bytes=-", "bytes=-0",
    "bytes=-0,-0", "bytes=-0,0-0", "bytes=0-0,-0", "bytes=+1-2", "bytes=1-+2", "bytes=1-2-3", "bytes=-1-2", "items=0-1",
    "bytes=0-0", "bytes=0-", "bytes=-1", "bytes=-5", "bytes=- 5", "bytes=5 -", "bytes=1-2,x", "bytes=x,1-2", "bytes=9-,0-0",
    "bytes=100-,200-", "bytes=100-,-0", "bytes=100-,-3", "bytes=-70001", "bytes=00000000000000000000001-2", "bytes=1-2;q=1",
];

const TAG_VALUES: &[&str] = &["E", "W", "X", "V", "*", "bad", "nonstr", "E,X", "X,E", "X,V", "W,X", "bad,E", "*,E", "bad,bad", "V,W"];
const DATE_VALUES: &[&str] = &["-1", "0", "+1", "-100000", "+100000", "bad"];

fn s_case(flags: &str, m: &str, uri: &str, extra: &str) -> String {
    let mut s = format!("S c={} m={} u={}", flags, m, uri);
    if !extra.is_empty() {
        s.push(' ');
        s.push_str(extra);
    }
    s
}

fn gen(ctx: &Ctx) -> Vec<String> {
    let mut rng = Rng::new(ctx.seed);
    let mut cases = Vec::new();
    let quick = ctx.tier == Tier::Quick;

    // ---- P: exhaustive small alphabet, both hidden settings
    let depth = if quick { 3 } else { 4 };
    enumerate_seq(P_SMALL, depth, |idx| {
        let s: String = idx.iter().map(|&i| P_SMALL[i]).collect();
        let lead = if idx.len() % 2 == 0 { "/" } else { "" };
        let h = idx.iter().sum::<usize>() % 2;
        cases.push(format!("P h={} p={}", h, hex(format!("{lead}{s}").as_bytes())));
    });
    // ---- P: random longer sequences over the wide alphabet
    for _ in 0..ctx.budget(3000) {
        let n = rng.range(1, 12);
        let mut s = String::new();
        if rng.chance(3, 4) {
            s.push('/');
        }
        for _ in 0..n {
            s.push_str(*rng.pick(P_WIDE));
            if rng.chance(1, 2) {
                s.push('/');
            }
        }
        cases.push(format!("P h={} p={}", rng.below(2), hex(s.as_bytes())));
    }

    // ---- S: paths
    for _ in 0..ctx.budget(2500) {
        let n = rng.range(1, 7);
        let mut u = String::from("/");
        for _ in 0..n {
            u.push_str(*rng.pick(S_TOKENS));
            if rng.chance(1, 2) {
                u.push('/');
            }
        }
        let flags = flags_pick(&mut rng, &['h', 'i', 'l', 's']);
        let m = if rng.chance(1, 12) { *rng.pick(&["HEAD", "POST", "PUT", "DELETE"]) } else { "GET" };
        cases.push(s_case(&flags, m, &u, ""));
    }
    // mounted below "/s": the unprocessed tail is what parse_path sees
    for _ in 0..ctx.budget(400) {
        let n = rng.range(0, 5);
        let mut u = String::from(*rng.pick(&["/s", "/s/", "/s/", "/s/", "/sx", "/", "/s%2f", "/%73/", "/S/", "/s//", "/s/../s/"]));
        for _ in 0..n {
            u.push_str(*rng.pick(S_TOKENS));
            if rng.chance(1, 2) {
                u.push('/');
            }
        }
        let mut flags = flags_pick(&mut rng, &['h', 'i', 'l']);
        if flags == "-" {
            flags.clear();
        }
        flags.push('m');
        cases.push(s_case(&flags, "GET", &u, ""));
    }
    // redirect flag only with header-safe paths
    for _ in 0..ctx.budget(300) {
        let n = rng.range(1, 5);
        let mut u = String::from("/");
        for _ in 0..n {
            u.push_str(*rng.pick(S_SAFE_TOKENS));
            if rng.chance(1, 2) {
                u.push('/');
            }
        }
        let mut flags = flags_pick(&mut rng, &['h', 'i', 'l']);
        if flags == "-" {
            flags.clear();
        }
        flags.push('r');
        cases.push(s_case(&flags, "GET", &u, ""));
    }
    // every real entry, plainly and through one layer of encoding of its first byte
    for &(p, _, _) in TREE {
        let enc: String = p
            .bytes()
            .map(|b| if b.is_ascii_alphanumeric() || b == b'/' || b == b'.' { (b as char).to_string() } else { format!("%{:02X}", b) })
            .collect();
        for fl in ["-", "h", "hil"] {
            cases.push(s_case(fl, "GET", &format!("/{}", enc), ""));
        }
    }

    // ---- S: ranges — malformed table × all lengths
    for &(f, _) in RANGE_FILES {
        for r in MALFORMED_RANGES {
            cases.push(s_case("-", "GET", &format!("/{}", f), &format!("r={}", hex(r.as_bytes()))));
        }
    }
    // boundary numbers: a-b, a-, -n on every length (large files sampled)
    for &(f, len) in RANGE_FILES {
        let nums = range_numbers(len);
        let big = len > 1000;
        for a in &nums {
            for shape in 0..3 {
                if shape < 2 {
                    let r = if shape == 0 { format!("bytes={}-", a) } else { format!("bytes=-{}", a) };
                    cases.push(s_case(if big { "s" } else { "-" }, "GET", &format!("/{}", f), &format!("r={}", hex(r.as_bytes()))));
                } else {
                    for b in &nums {
                        if big && !rng.chance(1, if quick { 6 } else { 2 }) {
                            continue;
                        }
                        let r = format!("bytes={}-{}", a, b);
                        cases.push(s_case("-", "GET", &format!("/{}", f), &format!("r={}", hex(r.as_bytes()))));
                    }
                }
            }
        }
    }
    // random range sets with whitespace
    for _ in 0..ctx.budget(1500) {
        let &(f, len) = if rng.chance(1, 8) { rng.pick(&RANGE_FILES[3..]) } else { rng.pick(&RANGE_FILES[..3]) };
        let nums = range_numbers(len);
        let k = rng.range(1, 4);
        let mut specs = Vec::new();
        for _ in 0..k {
            let ws = |rng: &mut Rng| *rng.pick(&["", "", "", " ", "\t", "  "]);
            let a = rng.pick(&nums).clone();
            let b = rng.pick(&nums).clone();
            let spec = match rng.below(6) {
                0 => format!("{}{}-{}{}", ws(&mut rng), a, ws(&mut rng), b),
                1 => format!("{}-{}", a, ws(&mut rng)),
                2 => format!("{}-{}", ws(&mut rng), b),
                3 => format!("{}-{}", a, b),
                4 => (*rng.pick(&["", " ", "x", "-", "1", "1-2-3", "--1"])).to_owned(),
                _ => format!("{}-", a),
            };
            specs.push(spec);
        }
        let prefix = if rng.chance(1, 20) { *rng.pick(&["Bytes=", "bytes= ", "bytes", ""]) } else { "bytes=" };
        let r = format!("{}{}", prefix, specs.join(","));
        cases.push(s_case(if rng.chance(1, 3) { "s" } else { "-" }, "GET", &format!("/{}", f), &format!("r={}", hex(r.as_bytes()))));
    }
    // multi-chunk windows on the large files: both ends anywhere, biased to the 64 KiB boundary
    for _ in 0..ctx.budget(250) {
        let &(f, len) = rng.pick(&RANGE_FILES[3..]);
        let mut pt = |rng: &mut Rng| -> u64 {
            match rng.below(4) {
                0 => rng.below(len as usize + 2) as u64,
                1 => 65536 - 2 + rng.below(5) as u64,
                2 => len.saturating_sub(rng.below(4) as u64),
                _ => rng.below(70) as u64,
            }
        };
        let (a, b) = (pt(&mut rng), pt(&mut rng));
        let r = match rng.below(5) {
            0 => format!("bytes={}-", a),
            1 => format!("bytes=-{}", a),
            _ => format!("bytes={}-{}", a.min(b), a.max(b)),
        };
        cases.push(s_case(if rng.chance(1, 2) { "s" } else { "-" }, "GET", &format!("/{}", f), &format!("r={}", hex(r.as_bytes()))));
    }
    // windows longer than one chunk that end before the end of the file (second read must be short)
    for _ in 0..ctx.budget(60) {
        let size = 65536 + 1 + rng.below(3000) as u64;
        let start = rng.below((70000 - size) as usize) as u64;
        let r = format!("bytes={}-{}", start, start + size - 1);
        cases.push(s_case(if rng.chance(1, 2) { "s" } else { "-" }, "GET", "/big.bin", &format!("r={}", hex(r.as_bytes()))));
        let len = 140000u64;
        let size = 65536 + 1 + rng.below(70000) as u64;
        let start = rng.below((len - size) as usize) as u64;
        let r = format!("bytes={}-{}", start, start + size - 1);
        cases.push(format!("T len={} cut={} r={}", len, len, hex(r.as_bytes())));
    }
    // T: file truncated between into_response and the body read
    for &(len, cut) in &[(10usize, 10usize), (10, 9), (10, 5), (10, 0), (1, 0), (0, 0), (70000, 70000), (70000, 69999), (70000, 65537), (70000, 65536), (70000, 65535), (70000, 1), (70000, 0), (131072, 65536), (131073, 131072)] {
        cases.push(format!("T len={} cut={}", len, cut));
        for r in ["bytes=2-5", "bytes=0-", "bytes=-3", "bytes=65530-65540", "bytes=-65537"] {
            cases.push(format!("T len={} cut={} r={}", len, cut, hex(r.as_bytes())));
        }
    }
    for _ in 0..ctx.budget(200) {
        let len = *rng.pick(&[0usize, 1, 10, 1000, 65536, 65537, 70000, 140000]);
        let cut = if rng.chance(1, 4) { len } else { rng.below(len + 1) };
        let a = rng.below(len + 2);
        let b = rng.below(len + 2);
        let r = match rng.below(4) {
            0 => String::new(),
            1 => format!("r={}", hex(format!("bytes={}-", a).as_bytes())),
            2 => format!("r={}", hex(format!("bytes=-{}", a).as_bytes())),
            _ => format!("r={}", hex(format!("bytes={}-{}", a.min(b), a.max(b)).as_bytes())),
        };
        cases.push(format!("T len={} cut={} {}", len, cut, r).trim_end().to_owned());
    }
    // Range values that are not visible ASCII
    for r in [&b"bytes=0-1\xff"[..], &b"\x80"[..], &b"bytes=\xc3\xa9"[..]] {
        cases.push(s_case("-", "GET", "/f10", &format!("r={}", hex(r))));
    }

    // ---- S: conditionals — all pairs, then random combinations with ranges and flags
    for im in TAG_VALUES {
        for inm in TAG_VALUES {
            cases.push(s_case("-", "GET", "/f10", &format!("im={} inm={}", im, inm)));
        }
        cases.push(s_case("-", "GET", "/f10", &format!("im={}", im)));
        cases.push(s_case("-", "GET", "/f10", &format!("inm={}", im)));
        cases.push(s_case("E", "GET", "/f10", &format!("im={}", im)));
        cases.push(s_case("E", "GET", "/f10", &format!("inm={}", im)));
        for d in DATE_VALUES {
            cases.push(s_case("-", "GET", "/f10", &format!("inm={} ims={}", im, d)));
            cases.push(s_case("-", "GET", "/f10", &format!("im={} ius={}", im, d)));
        }
    }
    for ius in DATE_VALUES {
        for ims in DATE_VALUES {
            cases.push(s_case("-", "GET", "/f10", &format!("ius={} ims={}", ius, ims)));
            cases.push(s_case("M", "GET", "/f10", &format!("ius={} ims={}", ius, ims)));
        }
    }
    for _ in 0..ctx.budget(1500) {
        let mut extra = Vec::new();
        if rng.chance(1, 2) {
            extra.push(format!("im={}", rng.pick(TAG_VALUES)));
        }
        if rng.chance(1, 2) {
            extra.push(format!("inm={}", rng.pick(TAG_VALUES)));
        }
        if rng.chance(1, 2) {
            extra.push(format!("ius={}", rng.pick(DATE_VALUES)));
        }
        if rng.chance(1, 2) {
            extra.push(format!("ims={}", rng.pick(DATE_VALUES)));
        }
        if rng.chance(1, 2) {
            let r = *rng.pick(&["bytes=2-5", "bytes=0-", "bytes=-3", "bytes=10-", "bytes=99-", "bytes=x", "bytes=0-0,5-6", ""]);
            extra.push(format!("r={}", hex(r.as_bytes())));
        }
        let f = *rng.pick(&["/f10", "/f10", "/f1", "/f0", "/a/x.txt", "/a/", "/nope"]);
        let flags = flags_pick(&mut rng, &['E', 'M', 'i', 's']);
        cases.push(s_case(&flags, "GET", f, &extra.join(" ")));
    }
    cases
}

pub fn prop() -> Prop {
    Prop { rule: RULE, parallel: true, gen: Box::new(gen), run: Box::new(run) }
}
